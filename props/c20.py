"""C20 - malformed input is reported, not crashed on.

Fault enumeration over syntactic corruptions of valid documents of every text format that has a
notion of a syntax error; each corrupted file is used as first and as second file of a real run of
main(); the recorded run is validated by TLC against the C20 clauses of spec/Cli.tla.
"""
import json

from harness.common import MachineryError, rng, tier
from harness.runner import Check
from props import _cli

FORMATS = ["json", "json5", "yaml", "xml", "html", "plist"]
# file names are data too: the error message has to NAME the file, whatever characters the name is made of (URL-encoded names,
# printf / str.format / shell metacharacters, blanks, non-ASCII)
STEMS = ["bad", "my%20file", "bad", "100%", "a%sb", "bad", "{0}", "{}x", "na me", "bad", "d\u00e9j\u00e0", "a%%b", "$HOME", "semi;colon",
         "bad", "it's", "%(name)s", "back\\slash", "-dash"]
LOGOPTS = [["--no-status"], ["--no-status"], ["--quiet"], ["--no-status", "--log-level", "CRITICAL"], ["--no-status", "--debug"],
           ["--no-status", "--log-level", "ERROR"], ["--no-status"], ["--no-status", "--log-level", "INFO"], ["--no-status", "--log-level", "WARNING"]]
DELIMS = {
    "json": '{}[],:"', "json5": '{}[],:"\'/', "yaml": ":-[]{},\"'\n#&*!|>", "xml": "<>/=\"&;", "html": "<>/=\"&;",
    "plist": "<>/=\"&;",
}


def corpus(fmt, r, n):
    """n valid ASCII documents of the format (bytes)."""
    from harness import docs
    out = [_cli.serialise(fmt, _cli.DATA_A, "A")]
    if fmt == "yaml":
        # streams of several documents, the first of them null / empty: an error in a LATER document is an error of the file
        out.append(b"---\n---\nfoo: [1, 2]\nbar: {a: b}\n")
        out.append(b"~\n---\nk: [1, {a: 'x y'}]\n---\n- \"q\"\n")
    if fmt in ("json", "json5", "yaml"):
        # one document with 2-, 3- and 4-byte characters: its truncations inside a character are not valid UTF-8
        out.append('{"k\u00e9": "caf\u00e9 \u65e5\u672c", "x": [1, "\U0001F600"]}'.encode("utf-8"))
    while len(out) < n:
        d = docs.random_doc(r, depth=2, width=3)
        if not isinstance(d, (dict, list)) or not d:
            continue
        if fmt in ("xml", "html"):
            import xml.etree.ElementTree as ET
            e = docs.random_xml_element(r, 2)
            s = ET.tostring(e)
            if fmt == "html":
                s = b"<html><body>" + s + b"</body></html>"
            out.append(s)
        elif fmt == "plist":
            def noneless(x):
                if isinstance(x, dict):
                    return {k: noneless(v) for k, v in x.items() if v is not None}
                if isinstance(x, list):
                    return [noneless(v) for v in x if v is not None]
                return x
            import plistlib
            out.append(plistlib.dumps(noneless(d)))
        else:
            out.append(_cli.serialise(fmt, d, "A"))
    return out


def corruptions(fmt, doc: bytes, r, budget):
    """(name, corrupted bytes) - truncations at every byte, deleted / duplicated delimiters, unbalanced brackets and
    tags, swapped closing tags."""
    text = doc
    cands = []
    for k in range(len(text)):
        cands.append(("truncate@%d" % k, text[:k]))
    for k, ch in enumerate(text):
        if chr(ch) in DELIMS[fmt]:
            cands.append(("delete-delimiter@%d" % k, text[:k] + text[k + 1:]))
            cands.append(("duplicate-delimiter@%d" % k, text[:k + 1] + text[k:]))
    for o, c in ((b"{", b"}"), (b"[", b"]"), (b"<", b">")):
        for k in range(len(text)):
            if text[k:k + 1] == c:
                cands.append(("unbalance-replace-closing@%d" % k, text[:k] + o + text[k + 1:]))
    # a raw control character / a byte that can never start a UTF-8 sequence, at a few positions
    for k in sorted({0, len(text) // 3, len(text) // 2, max(len(text) - 2, 0), len(text)}):
        for name, b in (("insert-NUL", b"\x00"), ("insert-control-01", b"\x01"), ("insert-ESC", b"\x1b"),
                        ("insert-DEL", b"\x7f"), ("insert-C1-control", "\u0085".encode()), ("insert-BOM-inside", "\ufeff".encode()),
                        ("insert-byte-FF", b"\xff"), ("insert-lone-lead-byte", b"\xc3"), ("insert-lone-continuation", b"\x80")):
            cands.append(("%s@%d" % (name, k), text[:k] + b + text[k:]))
    if fmt in ("xml", "html", "plist"):
        import re
        closes = [(m.start(), m.end()) for m in re.finditer(rb"</[A-Za-z0-9]+>", text)]
        for (a1, b1), (a2, b2) in zip(closes, closes[1:]):
            if text[a1:b1] != text[a2:b2]:
                cands.append(("swap-closing-tags@%d" % a1, text[:a1] + text[a2:b2] + text[b1:a2] + text[a1:b1] + text[b2:]))
    if budget and len(cands) > budget:
        cands = r.sample(cands, budget)
    return cands


def run():
    chk = Check("C20", "fault_enumeration")
    t = tier()
    ndocs, budget = (6, 200) if t == "quick" else (27, 0)
    r = rng("c20")
    mats = _cli.Materials()
    jobs = []
    kept = {f: 0 for f in FORMATS}
    generated = {f: 0 for f in FORMATS}
    for fmt in FORMATS:
        good = mats.file(_cli.serialise(fmt, _cli.DATA_B, "B"), _cli.EXT[fmt], "good")
        for di, doc in enumerate(corpus(fmt, r, ndocs)):
            v, _ = _cli.valid_for(doc, [fmt])
            if fmt not in v:
                raise MachineryError("generated %s document is rejected by the reference parser: %r" % (fmt, doc[:80]))
            for name, bad in corruptions(fmt, doc, r, budget):
                generated[fmt] += 1
                v, und = _cli.valid_for(bad, [fmt])
                if fmt in v or fmt in und:
                    continue          # still valid, or only invalid as a byte encoding: not a syntax error
                kept[fmt] += 1
                stem = STEMS[sum(kept.values()) % len(STEMS)]
                if stem.startswith("-"):
                    stem = "x" + stem          # a leading dash would be read as an option: not a file name the command can be given
                path = mats.file(bad, _cli.EXT[fmt], stem)
                for pos in ("from", "to"):
                    f, g = (path, good) if pos == "from" else (good, path)
                    cfg = _cli.base_cfg(fromExt=fmt, toExt=fmt,
                                        fromValid=[] if pos == "from" else [fmt], toValid=[fmt] if pos == "from" else [])
                    # the message is owed under every logging / status option (quiet, log levels, debug), not only the default
                    extra = LOGOPTS[len(jobs) % len(LOGOPTS)]
                    jobs.append({"argv": [f, g, "--no-color"] + extra, "from": f, "to": g, "cfg": cfg,
                                 "meta": {"format": fmt, "doc": di, "corruption": name, "position": pos, "stem": stem, "logopts": extra,
                                          "content": bad.decode("latin-1")[:400]}})
    # both files malformed at once - the same bytes twice (a copy, or the very same path) - in every output mode: nothing
    # about the pair (e.g. "identical, so there is nothing to report") may come before parsing
    n_single = len(jobs)
    for k in range(0, n_single, 14):
        j = jobs[k]
        bad_path = j["from"] if j["meta"]["position"] == "from" else j["to"]
        fmt = j["meta"]["format"]
        with open(bad_path, "rb") as fh:
            twin = mats.file(fh.read(), _cli.EXT[fmt], "twin")
        for second, how in ((twin, "copy"), (bad_path, "same-path")):
            for mode in ([], ["-e"], ["-d"]):
                cfg = _cli.base_cfg(fromExt=fmt, toExt=fmt, fromValid=[], toValid=[])
                jobs.append({"argv": [bad_path, second, "--no-status", "--no-color"] + mode, "from": bad_path, "to": second, "cfg": cfg,
                             "meta": {"format": fmt, "doc": j["meta"]["doc"], "corruption": j["meta"]["corruption"] + " x2 (" + how + ")" + " ".join(mode),
                                      "position": "both", "content": j["meta"]["content"], "stem": j["meta"]["stem"]}})
    records = _cli.execute(jobs)
    errs, st = _cli.validate(records)
    chk.add_trace_stats(st, "CliTrace", len(records))
    for job, rec, e in zip(jobs, records, errs):
        m = job["meta"]
        chk.count((m["format"], m["content"], m["position"]))
        v = e["C20"]
        if v["step"]:
            exc = rec["exc"].split(":")[0] if rec["exc"] else ""
            sig = {"clause": v["clause"], "format": m["format"], "exc": exc, "where": rec.get("where", "")}
            chk.violation(sig, {"format": m["format"], "content": m["content"], "position": m["position"], "stem": m["stem"],
                                "logopts": m.get("logopts", ["--no-status"])},
                          "%s file (%s, as %s file, options %s): %s; rc=%s exc=%s stderr=%r" % (
                              m["format"], m["corruption"], m["position"], " ".join(m.get("logopts", [])), v["clause"], rec["rc"], rec["exc"],
                              rec["err"][:120]))
    for i in (0, len(jobs) // 2, len(jobs) - 1):
        chk.sample({"format": jobs[i]["meta"]["format"], "corruption": jobs[i]["meta"]["corruption"],
                    "position": jobs[i]["meta"]["position"], "content": jobs[i]["meta"]["content"][:120],
                    "rc": records[i]["rc"], "stderr": records[i]["err"][:120]})
    _cli.model_check(chk)
    chk.extra["corruptions_generated"] = generated
    chk.extra["corruptions_rejected_by_reference_parser"] = kept
    chk.rule = ("faults = for each format in %s and each of %d valid documents (ASCII; for JSON / JSON5 / YAML also one with 2-, 3- "
                "and 4-byte characters): truncation at every byte offset, raw control characters and bytes that are not UTF-8 at "
                "five positions, "
                "deletion and duplication of every delimiter occurrence, every closing bracket replaced by an opening one, "
                "adjacent different closing tags swapped%s; kept only if the format's reference parser (json, json5, "
                "yaml, ElementTree, plistlib) rejects the text; each used as first and as second file; distinct by "
                "(format, corrupted text, position); the corrupted file's NAME cycles through %d stems with URL-encoding, printf / "
                "str.format / shell metacharacters, blanks and non-ASCII; all kept faults are non-trivial"
                % (FORMATS, ndocs, " (sampled to %d per document)" % budget if budget else "", len(set(STEMS))))
    chk.assumptions = ["validity is decided by the reference parser of each format",
                       "files that are not valid UTF-8 are malformed for JSON, JSON5, YAML and XML without an encoding declaration, and "
                       "undecided (skipped) for HTML (lenient parsers) and plist (binary variants)",
                       "the command runs in-process (main(argv)) with stdout/stderr captured"]
    return chk.finish()


def replay(path):
    with open(path) as f:
        doc = json.load(f)
    rp = doc["replay"]
    chk = Check("C20", "fault_enumeration")
    mats = _cli.Materials()
    fmt = rp["format"]
    bad = mats.file(rp["content"].encode("latin-1"), _cli.EXT[fmt], rp.get("stem", "bad"))
    good = mats.file(_cli.serialise(fmt, _cli.DATA_B, "B"), _cli.EXT[fmt], "good")
    f, g = (bad, good) if rp["position"] == "from" else (good, bad)
    cfg = _cli.base_cfg(fromExt=fmt, toExt=fmt, fromValid=[] if rp["position"] == "from" else [fmt],
                        toValid=[fmt] if rp["position"] == "from" else [])
    recs = _cli.execute([{"argv": [f, g, "--no-color"] + list(rp.get("logopts", ["--no-status"])), "from": f, "to": g, "cfg": cfg}])
    errs, st = _cli.validate(recs)
    chk.add_trace_stats(st, "CliTrace", 1)
    chk.count("a")
    chk.count("b")
    if errs[0]["C20"]["step"]:
        chk.violation({"clause": errs[0]["C20"]["clause"]}, rp, "%s: rc=%s exc=%s" % (errs[0]["C20"]["clause"], recs[0]["rc"], recs[0]["exc"]))
    chk.rule = "replay"
    return chk.finish()
