"""Binding of the mechanism model spec/Term.tla to graphtage.printer.Printer in colour mode.

TLC simulates behaviours of the model (sequences of: enter a colour / background / style context or a chained one, leave
it, enter / leave a strike or under-plus context, indent, dedent, write a character, newline) with the cells a terminal
shows at the end.  Each behaviour is replayed on a real Printer(ansi_color=True) writing to an in-memory stream; the
text it wrote is then interpreted the way a terminal does (SGR escape codes change the attributes in force, combining
marks attach to the character before them) and compared with the model's cells and final attributes.  MODEL-DRIFT only.
"""
import json
import re

from harness import tlc
from harness.common import MachineryError, seed, use_repo

use_repo()

CONSTS = "CONSTANTS Values = {1, 2} MaxDepth = %d MaxOps = %d MaxIndent = 2\n"
SGR = {"31": (1, 1), "34": (1, 2), "39": (1, 0), "41": (2, 1), "42": (2, 2), "49": (2, 0), "1": (3, 1), "2": (3, 2)}


def _codes():
    from colorama import Back, Fore, Style
    return {(1, 1): Fore.RED, (1, 2): Fore.BLUE, (2, 1): Back.RED, (2, 2): Back.GREEN, (3, 1): Style.BRIGHT, (3, 2): Style.DIM}


def generate(num, maxops, depth=3, salt=0):
    cfg = "SPECIFICATION GenSpec\n" + CONSTS % (depth, maxops) + "INVARIANT Emit\nCHECK_DEADLOCK FALSE\n"
    res = tlc.run_tlc("TermGen", cfg, workers=1, timeout=900, simulate="num=%d" % num, depth=maxops + 1, seed=seed() + 41 + salt,
                      name="TermGen")
    seen, out = set(), []
    for x in res.printed:
        if isinstance(x, dict) and "hist" in x:
            k = json.dumps(x, sort_keys=True)
            if k not in seen:
                seen.add(k)
                out.append(x)
    if not out:
        raise MachineryError("TermGen produced no behaviour")
    return out, res


def model_check(chk, tier):
    for depth, ops in ([(2, 3)] if tier == "quick" else [(2, 4), (3, 3)]):
        cfg = ("SPECIFICATION Spec\n" + CONSTS % (depth, ops) + "INVARIANT Balanced\nINVARIANT Faithful\nINVARIANT MarksAsAsked\n"
               "CHECK_DEADLOCK FALSE\n")
        try:
            res = tlc.run_tlc("Term", cfg, workers=8, timeout=900, name="Term-mc")
        except MachineryError as ex:
            chk.notes.append("model check of Term.tla did not finish: %s" % str(ex)[:200])
            continue
        if not res.completed:
            chk.drift.append("Term.tla violates one of its properties on the model (lead only): %s" % (res.invariant_violated or res.property_violated))
        chk.add_tlc(res, "Term", "L2 model of the Printer's ANSI context stack, mark contexts, indentation and the terminal, all "
                    "sequences of <=%d operations, nesting <=%d: Balanced, Faithful (up to the named deviation), MarksAsAsked" % (ops, depth))


def terminal(text):
    """What a terminal shows: [cell], final attributes."""
    cells, attrs = [], [0, 0, 0]
    i = 0
    while i < len(text):
        m = re.compile("\x1b\\[([0-9;]*)m").match(text, i)
        if m:
            for code in (m.group(1) or "0").split(";"):
                if code in ("0", ""):
                    attrs = [0, 0, 0]
                elif code in SGR:
                    a, v = SGR[code]
                    attrs[a - 1] = v
                else:
                    raise MachineryError("unexpected escape code %r" % code)
            i = m.end()
            continue
        ch = text[i]
        if ch in ("̶", "̟"):
            if not cells:
                raise MachineryError("combining mark without a character")
            cells[-1]["strike" if ch == "̶" else "plus"] = True
        else:
            cells.append({"ch": "n" if ch == "\n" else ch, "f": attrs[0], "b": attrs[1], "s": attrs[2], "strike": False, "plus": False})
        i += 1
    return cells, attrs


def compare(beh):
    from graphtage.printer import Printer
    from harness.cli import _Stream, _prepare
    _prepare()
    codes = _codes()
    out = _Stream()
    p = Printer(out, ansi_color=True, quiet=True)
    stack, mstack, istack = [], [], []
    drift = []
    try:
        for h in beh["hist"]:
            op = h["op"]
            if op == "enter":
                c = None
                for a, v in h["chain"]:
                    src = p if c is None else c
                    c = (src.bright() if v == 1 else src.dim()) if a == 3 else (src.color if a == 1 else src.background)(codes[(a, v)])
                c.__enter__()
                stack.append(c)
            elif op == "exit":
                stack.pop().__exit__(None, None, None)
            elif op == "mark":
                c = p.strike() if h["ch"] == "strike" else p.under_plus()
                c.__enter__()
                mstack.append(c)
            elif op == "unmark":
                mstack.pop().__exit__(None, None, None)
            elif op == "indent":
                c = p.indent()
                c.__enter__()
                istack.append(c)
            elif op == "dedent":
                istack.pop().__exit__(None, None, None)
            elif op == "write":
                p.write(h["ch"])
            elif op == "newline":
                p.newline()
        cells, attrs = terminal(out.getvalue())
        want = [{"ch": c["ch"], "f": c["f"], "b": c["b"], "s": c["s"], "strike": c["strike"], "plus": c["plus"]} for c in beh["cells"]]
        if cells != want:
            k = next((i for i, (x, y) in enumerate(zip(cells, want)) if x != y), min(len(cells), len(want)))
            drift.append("cell %d: the terminal shows %s, the model %s (operations %s)" % (
                k + 1, cells[k] if k < len(cells) else "nothing", want[k] if k < len(want) else "nothing",
                [(x["op"], x["chain"] or x["ch"]) for x in beh["hist"]]))
        elif attrs != list(beh["term"]):
            drift.append("attributes at the end: terminal %s, model %s (operations %s)" % (
                attrs, list(beh["term"]), [(x["op"], x["chain"] or x["ch"]) for x in beh["hist"]]))
    except MachineryError:
        raise
    except Exception as ex:
        drift.append("the real Printer raised %s: %s (operations %s)" % (type(ex).__name__, str(ex)[:80],
                                                                        [(x["op"], x["chain"] or x["ch"]) for x in beh["hist"]]))
    finally:
        for c in reversed(stack):
            try:
                c.__exit__(None, None, None)
            except Exception:
                pass
    return drift


def check(chk, tier):
    model_check(chk, tier)
    n = nd = nrisky = 0
    for ops, num in (((6, 400), (10, 400)) if tier == "quick" else ((6, 3000), (10, 4000), (16, 3000))):
        behs, res = generate(num, ops)
        chk.add_tlc(res, "TermGen", "simulation of behaviours of the Printer / terminal model (%d operations)" % ops)
        for b in behs:
            d = compare(b)
            n += 1
            nrisky += bool(b["risky"])
            if d:
                nd += 1
                if len(chk.drift) < 10:
                    chk.drift.append("Term.tla: " + d[0])
    chk.extra["printer_model_behaviours_replayed"] = n
    chk.extra["printer_model_behaviours_with_the_named_deviation"] = nrisky
    chk.extra["printer_model_behaviours_with_drift"] = nd


# ---- the HTML printer (spec/TermHtml.tla) ------------------------------------------------------------------------
CSS = {(1, 1): "color: red;", (1, 2): "color: blue;", (2, 1): "background-color: red;", (2, 2): "background-color: green;",
       (3, 1): "font-weight: bold; opacity: 1.0;", (3, 2): "opacity: 0.6; font-weight: normal;"}


def generate_html(num, maxops, depth=3, salt=0):
    cfg = ("SPECIFICATION GenSpec\nCONSTANTS Values = {1, 2} MaxDepth = %d MaxOps = %d\nINVARIANT Emit\nCHECK_DEADLOCK FALSE\n"
           % (depth, maxops))
    res = tlc.run_tlc("TermHtmlGen", cfg, workers=1, timeout=900, simulate="num=%d" % num, depth=maxops + 1, seed=seed() + 43 + salt,
                      name="TermHtmlGen")
    seen, out = set(), []
    for x in res.printed:
        if isinstance(x, dict) and "hist" in x:
            k = json.dumps(x, sort_keys=True)
            if k not in seen:
                seen.add(k)
                out.append(x)
    if not out:
        raise MachineryError("TermHtmlGen produced no behaviour")
    return out, res


def html_tokens(text):
    """The tokens of what an HTMLPrinter wrote after its page header (end tags of both kinds of span are one token)."""
    toks = []
    i = 0
    pat = re.compile(r'<span style="([^"]*)">|</span>|<br />|\n *')
    while i < len(text):
        m = pat.match(text, i)
        if m:
            t = m.group(0)
            if t.startswith("<span"):
                toks.append("strike" if m.group(1).startswith("text-decoration") else "open:" + m.group(1))
            elif t == "</span>":
                toks.append("end")
            elif t == "<br />":
                toks.append("br")
            i = m.end()
            continue
        toks.append("ch:" + text[i])
        i += 1
    return toks


def compare_html(beh):
    from graphtage.printer import HTMLPrinter
    from harness.cli import _Stream, _prepare
    _prepare()
    codes = _codes()
    out = _Stream()
    p = HTMLPrinter(out, ansi_color=True, quiet=True)
    start = len(out.getvalue())
    stack, mstack = [], []
    drift = []
    try:
        for h in beh["hist"]:
            op = h["op"]
            if op == "enter":
                c = None
                for a, v in h["chain"]:
                    src = p if c is None else c
                    c = (src.bright() if v == 1 else src.dim()) if a == 3 else (src.color if a == 1 else src.background)(codes[(a, v)])
                c.__enter__()
                stack.append(c)
            elif op == "exit":
                stack.pop().__exit__(None, None, None)
            elif op == "mark":
                c = p.strike()
                c.__enter__()
                mstack.append(c)
            elif op == "unmark":
                mstack.pop().__exit__(None, None, None)
            elif op == "write":
                p.write(h["ch"])
            elif op == "newline":
                p.newline()
        got = html_tokens(out.getvalue()[start:])
        want = []
        for t in beh["out"]:
            k = t["k"]
            want.append("open:" + CSS[(t["a"], t["v"])] if k == "open" else "end" if k in ("close", "unstrike") else
                        "ch:" + t["c"] if k == "ch" else k)
        # blanks are indentation (the page body is three levels deep; the written characters are letters): not compared
        want = [w for w in want if not w.startswith("ind")]
        got = [g for g in got if g != "ch: "]
        if got != want:
            drift.append("the HTML printer writes %s, the model %s (operations %s)" % (
                got, want, [(x["op"], x["chain"] or x["ch"]) for x in beh["hist"]]))
    except MachineryError:
        raise
    except Exception as ex:
        drift.append("the real HTMLPrinter raised %s: %s (operations %s)" % (type(ex).__name__, str(ex)[:80],
                                                                            [(x["op"], x["chain"] or x["ch"]) for x in beh["hist"]]))
    finally:
        for c in reversed(stack):
            try:
                c.__exit__(None, None, None)
            except Exception:
                pass
    return drift


def check_html(chk, tier):
    """Model check + binding of TermHtml.tla; never fatal (a failure of this part is a note)."""
    try:
        cfg = "SPECIFICATION Spec\nCONSTANTS Values = {1, 2} MaxDepth = 2 MaxOps = %d\nINVARIANT Balanced\nCHECK_DEADLOCK FALSE\n" % (3 if tier == "quick" else 4)
        res = tlc.run_tlc("TermHtml", cfg, workers=8, timeout=900, name="TermHtml-mc")
        if not res.completed:
            chk.drift.append("TermHtml.tla violates Balanced on the model (lead only): %s" % (res.invariant_violated or res.property_violated))
        chk.add_tlc(res, "TermHtml", "L2 model of the HTML printer's span / strike / line-break output: Balanced (outside the named deviation)")
        n = nd = nlost = 0
        for ops, num in (((5, 300), (8, 300)) if tier == "quick" else ((5, 2000), (8, 3000), (12, 2000))):
            behs, res = generate_html(num, ops)
            chk.add_tlc(res, "TermHtmlGen", "simulation of behaviours of the HTML printer model (%d operations)" % ops)
            for b in behs:
                d = compare_html(b)
                n += 1
                nlost += bool(b["lost"])
                if d:
                    nd += 1
                    if len(chk.drift) < 10:
                        chk.drift.append("TermHtml.tla: " + d[0])
        chk.extra["html_printer_model_behaviours_replayed"] = n
        chk.extra["html_printer_model_behaviours_with_the_named_deviation"] = nlost
        chk.extra["html_printer_model_behaviours_with_drift"] = nd
    except MachineryError as ex:
        chk.notes.append("TermHtml.tla part did not finish: %s" % str(ex)[:200])
