"""C14 - the command line agrees with the library and honours its option spellings.

(a) spec/Functional.tla: (files, resolved options) -> (stdout, exit status) is ONE value whether obtained
    through the library pipeline or through the command line, and (b) through every equivalent spelling
    (-k / --dict-strategy none, -j / -jl -jd, --from-TYPE / --from-mime MIME(TYPE), --to-TYPE / --to-mime ...);
(c) spec/Cli.tla Load clauses: TLC enumerates the type-selection space (CliGen); for every point the loaders
    actually invoked by the real main() must be the ones the selection rule names, for each file.
"""
import io
import json
import os

from harness import functional, tlc
from harness.common import MachineryError, digest, rng, tier, use_repo
from harness.runner import Check
from props import _cli

use_repo()


def library_run(fa, fb, ftype, ttype, opts, join_lists, join_dict, out_format=None):
    """What the library produces for the same files and (resolved) options: (stdout text, exit status)."""
    import graphtage
    from graphtage.printer import Printer
    from harness import docs
    from harness.cli import _Stream
    bo = docs.build_options(opts)
    out = _Stream()
    printer = Printer(out, ansi_color=False, quiet=True, options={"join_lists": join_lists, "join_dict_items": join_dict})
    bo.printer = printer
    ff, tf = graphtage.FILETYPES_BY_TYPENAME[ftype], graphtage.FILETYPES_BY_TYPENAME[ttype]
    with printer:
        a = ff.build_tree(fa, bo)
        b = tf.build_tree(fb, bo)
        diff = a.diff(b)
        (graphtage.FILETYPES_BY_TYPENAME[out_format] if out_format else ff).get_default_formatter().print(printer, diff)
        printer.write("\n")
    had = any(any(e.has_non_zero_cost() for e in n.edit_list) for n in diff.dfs())
    return out.getvalue(), 1 if had else 0


def _lib_job(job):
    from harness.watchdog import Expired, deadline
    try:
        with deadline(20.0):
            out, rc = library_run(*job["lib"])
        return {"v": "%s/%s" % (digest(out.rstrip()), rc), "raised": False, "exc": ""}
    except Expired:
        return {"v": "", "raised": True, "exc": "timeout"}
    except Exception as ex:
        return {"v": "", "raised": True, "exc": "%s: %s" % (type(ex).__name__, str(ex)[:100])}


def run():
    chk = Check("C14", "model_checking")
    t = tier()
    r = rng("c14")
    mats = _cli.Materials()
    from harness import cli as clim
    from harness import docs

    # ---- (c) type selection: TLC-enumerated space -----------------------------------------------------
    cfg = tlc.cfg_text(spec="GenSpec", constants={"Types": set(_cli.TYPES)}, invariants=["Emit"])
    res = tlc.run_tlc("CliGen", cfg, workers=1, timeout=900, name="CliGen")
    space = [c for c in res.printed if isinstance(c, dict) and "fromSel" in c]
    if len(space) != 153 * 153:
        raise MachineryError("type-selection space has %d points, expected %d" % (len(space), 153 * 153))
    chk.add_tlc(res, "CliGen", "enumeration of the type-selection space: 153 x 153 points")
    n_sel = 1400 if t == "quick" else len(space)
    points = r.sample(space, n_sel) if n_sel < len(space) else space
    # always include the diagonal-ish interesting points: explicit type on one side only, with misleading names
    contents = {ty: (_cli.serialise(ty, _cli.DATA_A, "A"), _cli.serialise(ty, _cli.DATA_B, "B")) for ty in _cli.TYPES}
    validity = {ty: _cli.valid_for(contents[ty][0]) for ty in _cli.TYPES}
    validity_b = {ty: _cli.valid_for(contents[ty][1]) for ty in _cli.TYPES}
    jobs = []
    skipped = 0
    for c in points:
        ftype = c["fromSelType"] if c["fromSel"] != "none" else c["fromExt"]
        ttype = c["toSelType"] if c["toSel"] != "none" else c["toExt"]
        # content: valid for the type that is supposed to be used (or JSON if none can be determined)
        fcont, tcont = ftype or "json", ttype or "json"
        fv, fu = validity[fcont]
        tv, tu = validity_b[tcont]
        if (ftype and ftype in fu) or (ttype and ttype in tu):
            skipped += 1
            continue
        fa = mats.file(contents[fcont][0], _cli.EXT[c["fromExt"]] if c["fromExt"] else ".dat", "f")
        fb = mats.file(contents[tcont][1], _cli.EXT[c["toExt"]] if c["toExt"] else ".dat", "t")
        argv = [fa, fb, "--no-status", "--no-color"] + _cli.sel_args("from", c["fromSel"], c["fromSelType"], r) + \
            _cli.sel_args("to", c["toSel"], c["toSelType"], r)
        same_kind = bool(ftype) and (ftype == ttype or {ftype, ttype} <= {"xml", "html"})
        cfgrec = _cli.base_cfg(fromSel=c["fromSel"], fromSelType=c["fromSelType"], fromExt=c["fromExt"],
                               toSel=c["toSel"], toSelType=c["toSelType"], toExt=c["toExt"],
                               fromValid=sorted(fv), toValid=sorted(tv), sameData=False, sameKind=same_kind, decided=False)
        jobs.append({"argv": argv, "from": fa, "to": fb, "cfg": cfgrec, "meta": {"point": c, "argv": argv[2:]}})
    records = _cli.execute(jobs)
    errs, st = _cli.validate(records)
    chk.add_trace_stats(st, "CliTrace", len(records))
    chk.extra["type_selection_points_run"] = len(jobs)
    chk.extra["type_selection_points_skipped_undecidable_content"] = skipped
    for job, rec, e in zip(jobs, records, errs):
        p = job["meta"]["point"]
        chk.count(("sel", json.dumps(p, sort_keys=True)), nontrivial=(p["fromSel"] != "none" or p["toSel"] != "none"))
        v = e["C14"]
        if v["step"]:
            loads = [(x["side"], x["type"]) for x in rec["ev"] if x["e"] == "load"]
            sig = {"clause": v["clause"], "fromSel": p["fromSel"], "toSel": p["toSel"]}
            chk.violation(sig, {"point": p, "argv_tail": job["meta"]["argv"]},
                          "graphtage <first%s> <second%s> %s: %s; loaders invoked: %s" % (
                              _cli.EXT.get(p["fromExt"], ".dat"), _cli.EXT.get(p["toExt"], ".dat"),
                              " ".join(job["meta"]["argv"][2:]), v["clause"], loads))
    chk.sample({"point": jobs[0]["meta"]["point"], "argv": jobs[0]["meta"]["argv"], "events": records[0]["ev"]})

    # ---- (a)+(b) library == command line == every equivalent spelling ---------------------------------------
    n_pairs = 100 if t == "quick" else 600
    groups, group_meta, cli_jobs, lib_jobs = [], [], [], []
    for gi in range(n_pairs):
        typ = r.choice(["json", "json", "yaml", "json5", "plist", "csv", "xml"])
        forced_fmt = None
        if gi % 5 == 0:
            # every input type that has a loader of its own for the command (build_tree_handling_errors) against every other
            # output format, systematically
            typ = ("yaml", "json5", "plist", "json")[(gi // 5) % 4]
            forced_fmt = ("xml", "plist", "html", "yaml", "json")[(gi // 20) % 5]
        if typ in ("csv", "xml"):
            ca, cb = contents[typ]
        else:
            def noneless(x):
                if isinstance(x, dict):
                    return {k: noneless(v) for k, v in x.items() if v is not None}
                if isinstance(x, list):
                    return [noneless(v) for v in x if v is not None]
                return x
            a = noneless(docs.random_doc(r, depth=3))
            while not isinstance(a, (dict, list)):
                a = noneless(docs.random_doc(r, depth=3))
            b = noneless(docs.mutate(a, r)) if r.random() < 0.8 else a
            if not isinstance(b, (dict, list)):
                b = [b] if b is not None else ["nil"]      # (a plist cannot hold null)
            ca, cb = _cli.serialise(typ, a, "A"), _cli.serialise(typ, b, "B")
        named = r.random() < 0.5
        fa = mats.file(ca, _cli.EXT[typ] if named else ".dat", "la")
        fb = mats.file(cb, _cli.EXT[typ] if named else ".dat", "lb")
        opts = r.choice(docs.ALL_OPTS)
        jl, jd = r.choice([(False, False), (True, True), (True, False), (False, True)])
        spell = []
        strat = {"auto": [["--dict-strategy", "auto"], ["-ds", "auto"]] + ([[]] if True else []),
                 "match": [["--dict-strategy", "match"], ["-ds", "match"]],
                 "none": [["--dict-strategy", "none"], ["-k"], ["--no-key-edits"], ["-ds", "none"]]}[opts["strategy"]]
        lists = {"on": [[]], "off": [["--no-list-edits"], ["-l"]],
                 "offsame": [["--no-list-edits-when-same-length"], ["-ll"]]}[opts["lists"]]
        joins = {(False, False): [[]], (True, True): [["-j"], ["-jl", "-jd"], ["--condensed"], ["--join-lists", "--join-dict-items"]],
                 (True, False): [["-jl"], ["--join-lists"]], (False, True): [["-jd"], ["--join-dict-items"]]}[(jl, jd)]
        if named:
            fsel = [[], ["--from-%s" % typ]] + [["--from-mime", m] for m in _cli.MIMES[typ]]
            tsel = [[], ["--to-%s" % typ]] + [["--to-mime", m] for m in _cli.MIMES[typ]]
        else:
            fsel = [["--from-%s" % typ]] + [["--from-mime", m] for m in _cli.MIMES[typ]]
            tsel = [["--to-%s" % typ]] + [["--to-mime", m] for m in _cli.MIMES[typ]]
        variants = []
        for k in range(max(len(strat), len(lists), len(joins), len(fsel), len(tsel))):
            variants.append(strat[k % len(strat)] + lists[k % len(lists)] + joins[k % len(joins)] +
                            fsel[k % len(fsel)] + tsel[(k + 1) % len(tsel)])
        # the output format is an option like the others: what the command prints with --format F is what the library prints
        # through F's default formatter (a cross-format rendering that the LIBRARY cannot do is C13's business: group dropped)
        out_fmt = r.choice([None, None, "json", "yaml", "xml", "html", "plist", "json5"]) if typ != "csv" else None
        out_fmt = forced_fmt or out_fmt
        if out_fmt:
            fspell = [["--format", out_fmt], ["-f", out_fmt]]
            variants = [v + fspell[k % 2] for k, v in enumerate(variants)]
        key = "pair%d|%s|%s|jl=%s|jd=%s|format=%s" % (gi, typ, json.dumps(opts, sort_keys=True), jl, jd, out_fmt)
        lib_jobs.append({"lib": (fa, fb, typ, typ, opts, jl, jd, out_fmt)})
        for var in variants:
            argv = [fa, fb, "--no-status", "--no-color"] + var
            cli_jobs.append({"argv": argv, "from": fa, "to": fb, "cfg": _cli.base_cfg(), "group": gi, "spelling": var})
        group_meta.append({"key": key, "type": typ, "opts": opts, "join": [jl, jd], "variants": variants})
    _cli._init()
    lib_results = [_lib_job(j) for j in lib_jobs]
    cli_records = _cli.execute(cli_jobs)
    dropped = 0
    for gi, gm in enumerate(group_meta):
        if lib_results[gi]["raised"] and "format=None" not in gm["key"]:
            dropped += 1
            groups.append([{"k": gm["key"], "v": "-", "raised": False, "how": "dropped: the library cannot render this pair in that format",
                            "exc": ""}])
            continue
        obs = [{"k": gm["key"], "v": lib_results[gi]["v"], "raised": lib_results[gi]["raised"], "how": "library",
                "exc": lib_results[gi]["exc"]}]
        for job, rec in zip(cli_jobs, cli_records):
            if job["group"] == gi:
                obs.append({"k": gm["key"], "v": "%s/%s" % (rec["out_digest"], rec["rc"]), "raised": bool(rec["exc"]),
                            "how": "cli " + " ".join(job["spelling"]), "exc": rec["exc"]})
        groups.append(obs)
    chk.extra["library_vs_command_groups_dropped_cross_format_not_renderable"] = dropped
    verdicts, st = functional.validate_groups(groups, name="C14-functional")
    chk.add_trace_stats(st, "FunctionalTrace", sum(len(g) for g in groups))
    for gm, obs, v in zip(group_meta, groups, verdicts):
        for o in obs:
            chk.count(("fn", gm["key"], o["how"]))
        if v["v"] != "ACCEPT":
            o = obs[v["step"] - 1]
            sig = {"clause": v["clause"], "how": "library" if o["how"] == "library" else "cli",
                   "spelling_class": classify(o["how"], obs[0]["how"] if v["step"] > 1 else "")}
            chk.violation(sig, {"group": gm, "observations": obs},
                          "%s files, options %s: observation '%s' gives %s%s, but '%s' gave %s" % (
                              gm["type"], json.dumps(gm["opts"]), o["how"], o["v"], " (" + o["exc"] + ")" if o["exc"] else "",
                              obs[0]["how"], obs[0]["v"]))
    chk.sample({"group": group_meta[0]["key"], "observations": [{k: o[k] for k in ("how", "v")} for o in groups[0]]})

    # ---- (d) a file given as "-" (standard input) with an explicit type is parsed like the same bytes given by path ----
    import pickle
    import plistlib
    from harness.common import digest
    stdin_docs = {
        "json": (json.dumps({"a": [1, "caf\u00e9"], "b": None}).encode(), json.dumps({"a": [1, "cafe"], "b": 2}).encode()),
        "yaml": (b"a: [1, x]\nb: caf\xc3\xa9\n", b"a: [1, y]\nb: cafe\n"),
        "xml": ('<?xml version="1.0" encoding="ISO-8859-1"?><root><name>caf\u00e9</name></root>'.encode("latin-1"),
                '<?xml version="1.0" encoding="ISO-8859-1"?><root><name>cafe</name><x/></root>'.encode("latin-1")),
        "plist": (plistlib.dumps({"a": [1, 2], "s": "caf\u00e9"}, fmt=plistlib.FMT_BINARY), plistlib.dumps({"a": [1, 3], "s": "cafe"})),
        "pickle": (pickle.dumps({"a": [1, 2], "s": "x"}, protocol=4), pickle.dumps({"a": [1, 3], "s": "y"}, protocol=2)),
        "csv": (b"a,b\n1,caf\xc3\xa9\n", b"a,b\n1,cafe\n2,3\n"),
    }
    # values with characters that str.splitlines() treats as line breaks (form feed, separators, NEL, LS / PS): whatever
    # buffers the command's output line by line must not touch them
    seps = "al\x0cpha be\x1dta ga\x85mma de\u2028lta ep\u2029silon ze\x0bta e\x1cta"
    stdin_docs["csv-separators"] = (("id,name\n1,%s\n2,x\n" % seps).encode("utf-8"), ("id,name\n1,%s\n3,y\n" % seps).encode("utf-8"))
    stdin_docs["xml-separators"] = (("<r><n>%s</n></r>" % seps.replace("\x0c", "").replace("\x1d", "").replace("\x0b", "").replace("\x1c", "")).encode("utf-8"),
                                    ("<r><n>%s</n><m/></r>" % seps.replace("\x0c", "").replace("\x1d", "").replace("\x0b", "").replace("\x1c", "")).encode("utf-8"))
    sgroups, smeta = [], []
    for typ, (ca, cb) in sorted(stdin_docs.items()):
        for same in (False, True):
            cb2 = ca if same else cb
            fa = mats.file(ca, ".dat", "sa")
            fb = mats.file(cb2, ".dat", "sb")
            ftyp = typ.split("-")[0]
            sel = ["--from-%s" % ftyp, "--to-%s" % ftyp, "--no-status", "--no-color"]
            runs = [("by path", [fa, fb] + sel, None), ("first file on standard input", ["-", fb] + sel, ca),
                    ("second file on standard input", [fa, "-"] + sel, cb2),
                    ("by path, status output left on", [fa, fb] + [x for x in sel if x != "--no-status"], None)]
            obs = []
            from concurrent.futures import ThreadPoolExecutor
            with ThreadPoolExecutor(max_workers=4) as tp:
                outs = list(tp.map(lambda x: clim.run_subprocess(x[1], stdin=x[2]), runs))
            for (how, argv, data), res in zip(runs, outs):
                obs.append({"k": "stdin|%s|%s" % (typ, same), "v": "%s/%s" % (digest(res["out"].decode("latin-1")), res["rc"]),
                            "raised": bool(res["exc"]), "how": how, "exc": res["err"][-200:].decode("latin-1") if res["exc"] else ""})
            sgroups.append(obs)
            smeta.append({"type": typ, "same": same})
    sverdicts, sst = functional.validate_groups(sgroups, name="C14-stdin")
    chk.add_trace_stats(sst, "FunctionalTrace", sum(len(g) for g in sgroups))
    for gm, obs, v in zip(smeta, sgroups, sverdicts):
        for o in obs:
            chk.count(("stdin", gm["type"], gm["same"], o["how"]))
        if v["v"] != "ACCEPT":
            o = obs[v["step"] - 1]
            chk.violation({"clause": v["clause"], "how": "stdin", "type": gm["type"]}, {"stdin": gm},
                          "%s documents (%s): '%s' gives %s %s, but '%s' gave %s" % (
                              gm["type"], "equal" if gm["same"] else "different", o["how"], o["v"], o["exc"][-120:], obs[0]["how"], obs[0]["v"]))
    # ---- (e) the same bytes given twice, read as two DIFFERENT types: each file is parsed as the type given for it ----
    same = {("json", "yaml"): b'{"n": 1e3, "t": [1, "yes", null], "s": "x"}', ("yaml", "json"): b'{"n": 1e3, "t": [1, "no", null]}',
            ("json5", "yaml"): b'{"n": 1e3, "u": "on"}', ("json", "json5"): b'{"a": [1, 2.0]}', ("yaml", "json5"): b'{"k": 1e2, "v": "y"}',
            ("json", "csv"): b'[1, 2]', ("xml", "html"): b"<html><body><p>x</p></body></html>", ("html", "xml"): b"<html><body><p>x</p><br/></body></html>"}
    egroups, emeta = [], []
    _cli._init()
    for (ft_, tt_), content in sorted(same.items()):
        for how in ("copy", "same path"):
            fa = mats.file(content, ".dat", "e1")
            fb = fa if how == "same path" else mats.file(content, ".dat", "e2")
            lib = _lib_job({"lib": (fa, fb, ft_, tt_, docs.ALL_OPTS[0], False, False)})
            rec = _cli.execute([{"argv": [fa, fb, "--no-status", "--no-color", "--from-%s" % ft_, "--to-%s" % tt_], "from": fa, "to": fb,
                                 "cfg": _cli.base_cfg()}])[0]
            obs = [{"k": "same-bytes|%s|%s" % (ft_, tt_), "v": lib["v"], "raised": lib["raised"], "how": "library", "exc": lib["exc"]},
                   {"k": "same-bytes|%s|%s" % (ft_, tt_), "v": "%s/%s" % (rec["out_digest"], rec["rc"]), "raised": bool(rec["exc"]),
                    "how": "cli --from-%s --to-%s (%s)" % (ft_, tt_, how), "exc": rec["exc"]}]
            egroups.append(obs)
            emeta.append({"from": ft_, "to": tt_, "how": how, "content": content.decode()})
    everdicts, est = functional.validate_groups(egroups, name="C14-samebytes")
    chk.add_trace_stats(est, "FunctionalTrace", sum(len(g) for g in egroups))
    for gm, obs, v in zip(emeta, egroups, everdicts):
        for o in obs:
            chk.count(("same-bytes", gm["from"], gm["to"], gm["how"], o["how"]))
        if v["v"] != "ACCEPT":
            o = obs[v["step"] - 1]
            chk.violation({"clause": v["clause"], "how": "same-bytes", "types": gm["from"] + ">" + gm["to"]}, {"same_bytes": gm},
                          "the bytes %r given twice (%s) as %s and as %s: '%s' gives %s %s, but '%s' gave %s" % (
                              gm["content"][:60], gm["how"], gm["from"], gm["to"], o["how"], o["v"], o["exc"][-100:], obs[0]["how"], obs[0]["v"]))
    # ---- (f) what the library refuses, the command refuses (and the other way round): a file the type's loader rejects - a
    # byte-order mark in front of JSON, truncated documents - is an error for both entry points, not a diff for one of them
    good = {"json": b'{"a": 2, "b": [1, 3]}', "json5": b"{a: 2, b: [1, 3],}", "yaml": b"a: 2\nb: [1, 3]\n", "xml": b"<r><a>2</a></r>"}
    refusable = [("json", b"\xef\xbb\xbf" + b'{"a": 1, "b": [1, 2, 3]}', "byte-order mark"), ("json", b'{"a": [1, 2', "truncated"),
                 ("json", b"\xef\xbb\xbf[1, 2]", "byte-order mark"), ("json5", b"\xef\xbb\xbf{a: 1}", "byte-order mark"),
                 ("json5", b"{a: [1, 2", "truncated"), ("yaml", b"a: [1, 2\nb: }", "unbalanced"), ("yaml", b"\xef\xbb\xbfa: 1\n", "byte-order mark"),
                 ("xml", b"<r><a>1</r>", "mismatched tag"), ("xml", b"\xef\xbb\xbf<r><a>1</a></r>", "byte-order mark")]
    fgroups, fmeta = [], []
    for typ_, content, what in refusable:
        for pos in ("from", "to", "both"):
            fbad = mats.file(content, _cli.EXT[typ_], "r1")
            fgood = mats.file(good[typ_], _cli.EXT[typ_], "r2")
            fa, fb = (fbad, fgood) if pos == "from" else (fgood, fbad) if pos == "to" else (fbad, mats.file(content, _cli.EXT[typ_], "r3"))
            lib = _lib_job({"lib": (fa, fb, typ_, typ_, docs.ALL_OPTS[0], False, False)})
            key = "refusal|%s|%s|%s" % (typ_, what, pos)
            for sel in ([], ["--from-%s" % typ_, "--to-%s" % typ_]):
                rec = _cli.execute([{"argv": [fa, fb, "--no-status", "--no-color"] + sel, "from": fa, "to": fb, "cfg": _cli.base_cfg(),
                                     "keep_out": True}])[0]
                cli_refused = (not rec["exc"]) and rec["rc"] not in (0, None) and not (rec.get("out") or "").strip() and \
                    ("rror" in (rec.get("err") or ""))
                obs = [{"k": key, "v": "refused" if lib["raised"] else lib["v"], "raised": False, "how": "library", "exc": lib["exc"]},
                       {"k": key, "v": "refused" if cli_refused else "%s/%s" % (rec["out_digest"], rec["rc"]), "raised": bool(rec["exc"]),
                        "how": "cli " + " ".join(sel), "exc": rec["exc"]}]
                fgroups.append(obs)
                fmeta.append({"type": typ_, "what": what, "position": pos, "content": content.decode("latin-1")})
    fverdicts, fst = functional.validate_groups(fgroups, name="C14-refusal")
    chk.add_trace_stats(fst, "FunctionalTrace", sum(len(g) for g in fgroups))
    for gm, obs, v in zip(fmeta, fgroups, fverdicts):
        for o in obs:
            chk.count(("refusal", gm["type"], gm["what"], gm["position"], o["how"]))
        if v["v"] != "ACCEPT":
            o = obs[v["step"] - 1]
            chk.violation({"clause": v["clause"], "how": "refusal", "type": gm["type"], "what": gm["what"]}, {"refusal": gm},
                          "%s file with a %s (as %s file): '%s' gives %s %s, but '%s' gave %s %s" % (
                              gm["type"], gm["what"], gm["position"], o["how"], o["v"], o["exc"][-100:], obs[0]["how"], obs[0]["v"],
                              obs[0]["exc"][-100:]))
    functional.model_check(chk)
    _cli.model_check(chk)
    # the writer between the command and its real standard output while status output is on (L2 model: spec/Status.tla)
    from props import _status
    _status.check(chk, t)
    chk.rule = ("cases = (c) points of the type-selection space {none, --S-TYPE, --S-mime} x type x file-name extension "
                "{8 types, none} for both files (23 409 points enumerated by TLC, %s), each a real run of main() with the "
                "loaders wrapped; (a)/(b) %d pairs of files x option sets, each observed through the library pipeline and "
                "through 4-6 equivalent command-line spellings; (d) 6 types x (equal | different) documents, incl. non-UTF-8 content "
                "(Latin-1 XML, binary plist, pickles), given by path, with the first and with the second file on standard input; "
                "distinct by point / (pair, spelling); non-trivial = at "
                "least one explicit type option" % ("sampled to %d" % n_sel if n_sel < len(space) else "all run", n_pairs))
    chk.assumptions = ["the library pipeline is Filetype.build_tree -> TreeNode.diff -> default formatter of the first "
                       "file's type -> Printer(ansi_color=False), as documented in docs/library.rst and done by main()",
                       "points whose content cannot be decided valid/invalid by an independent parser (non-pickle bytes "
                       "read as pickle, binary read as text) are skipped"]
    return chk.finish()


def classify(how, ref):
    for flag in ("--to-mime", "--from-mime", "--to-", "--from-", "-k", "--no-key-edits", "-j", "-jl", "-ll", "-l"):
        if flag in how:
            return flag
    return "other"


def replay(path):
    with open(path) as f:
        doc = json.load(f)
    print("C14 replay: re-running the whole quick check (cases are cheap); original case: %s" % json.dumps(doc["replay"])[:300])
    return run()
