"""C12 - printing an unedited document yields text that parses back equal.

spec/Functional.tla with k = (format, document), v = abstract value of the tree: observed after the first
load and again after print -> reload with the same loader (XML text compared modulo surrounding whitespace).
Domains as stated by the property: JSON, JSON5 and CSV over their whole value domain; YAML, plist and XML
over plain alphanumeric content.  What the specification contributes here is small (the history invariant
and the abstract value); character-level fidelity lives in third-party encoders that TLA+ cannot model.
"""
import io
import json
import multiprocessing as mp
import os
import plistlib

from harness import corpus, functional
from harness.common import digest, rng, tier, use_repo
from harness.runner import Check
from props import _cli
from props.c09 import ALNUM

use_repo()

FORMATS = ["json", "json5", "csv", "yaml", "plist", "xml"]
NASTY = ['"', "\\", "/", "\n", "\r", "\t", "\x00", "\x1f", "\x7f", "'", ",", ":", "{", "}", "[", "]", " ", "  ", "->", "~~", "++",
         "é", "ß", "Ω", "中", " ", " ", "﻿", "\U0001F600", "\U0001F468‍\U0001F469", "̶", "̟",
         "null", "true", "1e5", "-0", "NaN", "#", "&", "<", ">", "%", "\\u0041", "\\n"]


def any_string(r):
    n = r.randint(0, 6)
    return "".join(r.choice(NASTY + list("abcXYZ019 ")) for _ in range(n))


def json_value(r, depth=3):
    c = r.random()
    if depth <= 0 or c < 0.4:
        k = r.random()
        if k < 0.4:
            return any_string(r)
        if k < 0.6:
            return r.choice((0, -1, 1, 2 ** 31, 2 ** 63, 2 ** 64 + 1, 10 ** 30, -(10 ** 25)))
        if k < 0.8:
            return r.choice((0.0, -0.0, 1.5, 1e-320, 5e-324, 1.7976931348623157e308, 2.2250738585072014e-308, 0.1, 1e21, 1e-7, 123456.789))
        return r.choice((None, True, False))
    if c < 0.7:
        return [json_value(r, depth - 1) for _ in range(r.randint(0, 4))]
    return {any_string(r): json_value(r, depth - 1) for _ in range(r.randint(0, 4))}


def deep(r, n):
    v = r.choice(([], {}, "x", 1))
    for i in range(n):
        v = [v] if i % 2 else {"k%d" % i: v}
    return v


def alnum_value(r, depth=3, allow_empty=False):
    c = r.random()
    if depth <= 0 or c < 0.4:
        k = r.random()
        if k < 0.5:
            return r.choice(ALNUM)
        if k < 0.75:
            return r.choice((0, 1, 42, 1000, 2 ** 40))
        if k < 0.87:
            return r.choice((True, False))
        return r.choice((0.5, 1.5, 100.125))
    lo = 0 if allow_empty else 1
    if c < 0.7:
        return [alnum_value(r, depth - 1, allow_empty) for _ in range(r.randint(lo, 4))]
    ks = r.sample(("a", "b", "c", "ab", "key", "Name", "x1", "yes", "no", "null", "n1", "true"), r.randint(lo, 4))
    return {k: alnum_value(r, depth - 1, allow_empty) for k in ks}


def csv_text(r):
    import csv
    rows = []
    for _ in range(r.randint(0, 5)):
        row = []
        for _ in range(r.randint(0, 4)):
            k = r.random()
            if k < 0.5:
                row.append(r.choice(ALNUM))
            else:
                row.append("".join(r.choice(['"', ",", "\n", "\r\n", " ", "a", "b", "'", ";", "\t", "é", "x"]) for _ in range(r.randint(0, 5))))
        rows.append(row)
    o = io.StringIO()
    # every third table is written with every field quoted (quoting says nothing about the value: a quoted field may
    # start or end with blanks, and those blanks are part of the value)
    k = r.random()
    if k < 0.33:
        csv.writer(o, quoting=csv.QUOTE_ALL).writerows([[(" " * r.randint(0, 2)) + c + (" " * r.randint(0, 1)) for c in row] for row in rows])
    else:
        csv.writer(o).writerows(rows)
    return o.getvalue().encode()


def xml_text(r):
    import xml.etree.ElementTree as ET

    def el(depth):
        e = ET.Element(r.choice(("a", "b", "item", "Node1", "x9")))
        for k in r.sample(("id", "name", "x1", "Key"), r.randint(0, 2)):
            e.set(k, r.choice(ALNUM))
        if r.random() < 0.5:
            e.text = r.choice(ALNUM)
        if depth > 0:
            for _ in range(r.randint(0, 3)):
                e.append(el(depth - 1))
        return e
    return ET.tostring(el(2))


def make_document(fmt, r, i):
    import yaml
    if fmt in ("json", "json5"):
        v = deep(r, r.choice((5, 20, 40))) if i % 17 == 0 else json_value(r)
        text = json.dumps(v, ensure_ascii=bool(i % 2))
        if fmt == "json5" and i % 3 == 0:
            # what only JSON5 allows (a comment, a trailing comma, single quotes): a file that is NOT also plain JSON, so that a
            # loader with two parsers takes its JSON5 path; with escaped (i odd) and raw (i even) non-ASCII characters
            text = "// a JSON5 document\n" + text
            if text.endswith("]") and len(text) > 24 and v:
                text = text[:-1] + ",]"
            elif text.endswith("}") and v and isinstance(v, dict):
                text = text[:-1] + ",}"
            if i % 6 == 3 and "'" not in text and "\\" not in text:
                text = text.replace('"', "'")
        return text.encode()
    if fmt == "csv":
        return csv_text(r)
    if fmt == "yaml":
        v = alnum_value(r, allow_empty=True)
        return yaml.safe_dump(v, default_flow_style=bool(i % 3 == 0)).encode()
    if fmt == "plist":
        v = alnum_value(r, allow_empty=True)
        while not isinstance(v, (dict, list)):
            v = alnum_value(r, allow_empty=True)
        text = plistlib.dumps(v)
        if i % 4 == 1:
            # integers beyond 64 bits: plistlib's READER (and so the plist loader) takes an <integer> of any size, although its
            # writer refuses them - such a file can only be written by hand or by another tool
            import re
            big = r.choice((b"18446744073709551616", b"-9223372036854775809", b"123456789012345678901234567890"))
            text = re.sub(rb"<integer>-?\d+</integer>", b"<integer>" + big + b"</integer>", text, count=1)
        return text
    return xml_text(r)


def abstract(tree):
    """Abstract value of a tree; XML text modulo surrounding whitespace, string quoting style ignored."""
    from harness.project import Table
    return Table(tree).rows[0]["lh"] if Table(tree).rows[0]["kind"] == "xml" else digest(_plain(tree))


def _plain(tree):
    from harness.project import plain
    return plain(tree)


def _job(args):
    fmt, path, outdir, idx = args
    import graphtage
    from graphtage.printer import Printer
    from harness.cli import _Stream
    from harness.watchdog import Expired, deadline
    ft = graphtage.FILETYPES_BY_TYPENAME[fmt]
    obs = []
    try:
        with deadline(20.0):
            tree = ft.build_tree(path, graphtage.BuildOptions())
            obs.append({"k": "doc", "v": abstract(tree), "raised": False, "how": "loaded"})
            # the formatters are process-wide default instances: what was printed before must not matter.  Every second
            # document is printed right after a plain-text DIFF went through the same formatter (string edits ending in an
            # inserted / a removed run, a multi-line string edit, an inserted and a removed item)
            if idx % 2 == 1:
                try:
                    from graphtage import json as gjson
                    da = gjson.build_tree({"s": "foo", "t": "line one\nline two", "u": "abcd", "l": [1, 2]})
                    db = gjson.build_tree({"s": "foobar", "t": "line one\nline 2", "u": "ab", "l": [2, 3]})
                    ft.get_default_formatter().print(Printer(_Stream(), ansi_color=False, quiet=True), da.diff(db))
                except Exception:
                    pass
            out = _Stream()
            p = Printer(out, ansi_color=False, quiet=True)
            ft.get_default_formatter().print(p, tree)
            text = out.getvalue()
            path2 = os.path.join(outdir, "re%05d%s" % (idx, _cli.EXT[fmt]))
            with open(path2, "w", encoding="utf-8", newline="") as f:
                f.write(text)
            try:
                tree2 = ft.build_tree(path2, graphtage.BuildOptions())
                obs.append({"k": "doc", "v": abstract(tree2), "raised": False, "how": "printed and reloaded", "text": text[:300]})
            except Exception as ex:
                obs.append({"k": "doc", "v": "", "raised": True, "text": text[:300],
                            "how": "the loader rejects the printed text: %s: %s" % (type(ex).__name__, str(ex)[:100])})
    except Expired:
        obs.append({"k": "doc", "v": "", "raised": True, "how": "timeout"})
    except Exception as ex:
        if not obs:
            return [{"k": "doc", "v": "", "raised": False, "how": "generated document not loadable (skipped): %s" % type(ex).__name__, "skip": True}]
        obs.append({"k": "doc", "v": "", "raised": True, "how": "printing raised %s: %s" % (type(ex).__name__, str(ex)[:100])})
    return obs


def _init():
    corpus._quiet_env()


def run():
    chk = Check("C12", "exploration")
    t = tier()
    n = 400 if t == "quick" else 5000
    r = rng("c12")
    mats = _cli.Materials()
    jobs, meta = [], []
    for fmt in FORMATS:
        for i in range(n):
            content = make_document(fmt, r, i)
            v, _ = _cli.valid_for(content, [fmt])
            if fmt not in v:
                continue
            jobs.append((fmt, mats.file(content, _cli.EXT[fmt], fmt), mats.dir, len(jobs)))
            meta.append({"format": fmt, "content": content.decode("utf-8", "replace")[:400],
                         "full": content.decode("utf-8", "replace")})
    ctx = mp.get_context("fork")
    with ctx.Pool(min(16, os.cpu_count() or 4), initializer=_init, maxtasksperchild=500) as pool:
        results = pool.map(_job, jobs, chunksize=8)
    groups, gm = [], []
    skipped = 0
    for m, obs in zip(meta, results):
        if obs and obs[0].get("skip"):
            skipped += 1
            continue
        groups.append(obs)
        gm.append(m)
    chk.extra["documents_skipped_not_loadable"] = skipped
    verdicts, st = functional.validate_groups(groups, name="C12")
    chk.add_trace_stats(st, "FunctionalTrace", sum(len(g) for g in groups))
    per_format = {}
    for m, obs, v in zip(gm, groups, verdicts):
        per_format[m["format"]] = per_format.get(m["format"], 0) + 1
        chk.count((m["format"], m["content"]))
        if v["v"] != "ACCEPT":
            o = obs[v["step"] - 1]
            kind = "rejected" if o["raised"] and "rejects" in o["how"] else "raised" if o["raised"] else "differs"
            sig = {"clause": v["clause"], "format": m["format"], "kind": kind,
                   "astral": any(ord(ch) > 0xFFFF for ch in m["full"])}
            chk.violation(sig, {"format": m["format"], "content": m["content"]}, "%s document %r: %s; printed text %r" % (m["format"], m["content"][:160], o["how"], o.get("text", "")[:160]))
    chk.extra["documents_per_format"] = per_format
    # the default Printer: a fresh interpreter prints the loaded document to its real standard output with the status
    # machinery on (the state a library user gets from `Printer(ansi_color=False)`); the captured text must load back equal
    import subprocess
    from concurrent.futures import ThreadPoolExecutor
    from harness.common import REPO
    seps = "al\x0cpha be\x1dta ga\x85mma de\u2028lta ep\u2029silon ze\x0bta e\x1cta"
    std_docs = [("csv", ("id,name\n1,%s\n2,\"a\nb\"\n" % seps).encode("utf-8")),
                ("csv", b"a,b\n1,plain\n"),
                ("json", json.dumps({"k": seps, "l": [1, "x\ny"]}, ensure_ascii=False).encode("utf-8")),
                ("json5", json.dumps([seps, {"a": "b"}], ensure_ascii=False).encode("utf-8")),
                ("yaml", b"a: [1, x]\nb: {c: d}\n"), ("xml", b"<r a=\"1\"><n>text</n><m/></r>"),
                ("plist", plistlib.dumps({"a": [1, 2], "s": "text"}))]
    for fmt in ("csv", "json"):
        for i in range(6 if t == "quick" else 60):
            std_docs.append((fmt, make_document(fmt, r, 1000 + i)))
    script = ("import sys, graphtage\nfrom graphtage.printer import Printer\nft = graphtage.FILETYPES_BY_TYPENAME[sys.argv[1]]\n"
              "t = ft.build_tree(sys.argv[2], graphtage.BuildOptions())\np = Printer(ansi_color=False)\nwith p:\n    ft.get_default_formatter().print(p, t)\n"
              "p.close()\n")      # (as main() does: the printer is a context manager and is closed at the end)

    def std_job(item):
        k, (fmt, content) = item
        src = mats.file(content, _cli.EXT[fmt], "std%d" % k)
        env = dict(os.environ, PYTHONPATH=REPO, PYTHONDONTWRITEBYTECODE="1")
        try:
            p = subprocess.run(["/venv/bin/python", "-c", script, fmt, src], stdout=subprocess.PIPE, stderr=subprocess.PIPE,
                               env=env, timeout=900, cwd="/")
        except subprocess.TimeoutExpired:
            return None
        back = os.path.join(mats.dir, "stdre%d%s" % (k, _cli.EXT[fmt]))
        with open(back, "wb") as f:
            # closing the status writer terminates the last line: that one line break is not part of the document
            f.write(p.stdout[:-1] if p.stdout.endswith(b"\n") else p.stdout)
        return fmt, src, back, p.returncode, p.stderr[-200:].decode("latin-1")
    with ThreadPoolExecutor(max_workers=12) as tp:
        outs = list(tp.map(std_job, list(enumerate(std_docs))))
    _init()
    import graphtage
    sgroups, smeta = [], []
    for (fmt, content), res in zip(std_docs, outs):
        if res is None:
            continue
        _, src, back, rc, err = res
        ft = graphtage.FILETYPES_BY_TYPENAME[fmt]
        try:
            obs = [{"k": "doc", "v": abstract(ft.build_tree(src, graphtage.BuildOptions())), "raised": False, "how": "loaded"}]
        except Exception:
            continue
        if rc != 0:
            obs.append({"k": "doc", "v": "", "raised": True, "how": "printing to the standard output failed (exit %s): %s" % (rc, err[-120:])})
        else:
            try:
                obs.append({"k": "doc", "v": abstract(ft.build_tree(back, graphtage.BuildOptions())), "raised": False,
                            "how": "printed by the default Printer to the real standard output and reloaded"})
            except Exception as ex:
                obs.append({"k": "doc", "v": "", "raised": True, "how": "the loader rejects the text printed to the standard output: %s" % type(ex).__name__})
        sgroups.append(obs)
        smeta.append({"format": fmt, "content": content.decode("utf-8", "replace")[:300]})
    sverdicts, sst = functional.validate_groups(sgroups, name="C12-stdout")
    chk.add_trace_stats(sst, "FunctionalTrace", sum(len(g) for g in sgroups))
    for m, obs, v in zip(smeta, sgroups, sverdicts):
        chk.count(("stdout", m["format"], m["content"]))
        if v["v"] != "ACCEPT":
            o = obs[v["step"] - 1]
            chk.violation({"clause": v["clause"], "format": m["format"], "kind": "stdout"}, m,
                          "%s document %r: %s" % (m["format"], m["content"][:160], o["how"]))
    chk.extra["documents_printed_to_the_real_standard_output"] = len(sgroups)
    for k in (0, len(gm) // 2, len(gm) - 1):
        chk.sample({"format": gm[k]["format"], "content": gm[k]["content"][:160], "observations": [{q: o[q] for q in ("how", "v")} for o in groups[k]]})
    functional.model_check(chk)
    chk.rule = ("cases = %d generated documents per format inside the stated domains: JSON/JSON5 - strings over quotes, "
                "backslashes, controls, separators, BMP and astral characters, combining marks, JSON-looking text, deep "
                "nesting, empty containers, -0.0, subnormals, 1.797e308, 30-digit integers; CSV - quotes, commas, CR/LF "
                "inside fields, blanks; YAML/plist/XML - alphanumeric content incl. YAML-reserved words; each loaded, printed "
                "by its own formatter to Printer(ansi_color=False) - every second one right after a plain-text diff went through the "
                "same (process-wide) formatter -, reloaded by the same loader; distinct by (format, text)" % n)
    chk.assumptions = ["equal document = equal abstract value (wrapper classes without __eq__ and string quoting style are not "
                       "data); XML text modulo surrounding whitespace",
                       "the abstract value of a CSV table is its list of rows (blank lines are rows without cells)"]
    return chk.finish()


def replay(path):
    with open(path) as f:
        doc = json.load(f)
    print("C12 replay: re-running the quick check; original case: %s" % json.dumps(doc["replay"], default=str)[:300])
    return run()
