"""Binding of the mechanism model spec/Choose.tla (edit selection: which edit TreeNode.edits returns for a pair of
nodes) to the real isinstance ladders of graphtage/graphtage.py.

A pool of small REAL nodes of every kind (leaves of every scalar type, lists under the four list-option settings,
MultiSetNode, DictNode in both matching modes, FixedKeyDictNode, key/value pairs with and without key edits) is built;
every ordered pair (a, b) is given to the real a.edits(b); the descriptors of a and b (computed by this file from the
Python values the nodes were built from - not from the nodes) and what came back (class of the edit, constant cost,
EditDistance penalty) are validated by TLC against the decision table (ChooseTrace.tla).  MODEL-DRIFT only.
"""
import json

from harness import tlc
from harness.common import MachineryError, use_repo

use_repo()


def _canon(v):
    """Canonical text of a Python value as data (kind-tagged scalars, positional lists, dicts / sets as sorted bags)."""
    if v is None:
        return "null"
    if isinstance(v, bool):
        return "bool:%s" % v
    if isinstance(v, int):
        return "int:%d" % v
    if isinstance(v, float):
        return "float:%r" % v
    if isinstance(v, str):
        return "str:" + v
    if isinstance(v, list):
        return "[" + ",".join(_canon(x) for x in v) + "]"
    if isinstance(v, dict):
        return "{" + ",".join(sorted("%s=%s" % (_canon(k), _canon(x)) for k, x in v.items())) + "}"
    if isinstance(v, tuple) and v and v[0] == "bag":
        return "{" + ",".join(sorted(_canon(x) for x in v[1])) + "}"
    raise MachineryError("no canonical text for %r" % (v,))


def _leaf(v):
    import graphtage
    if v is None:
        return graphtage.NullNode()
    if isinstance(v, bool):
        return graphtage.BoolNode(v)
    if isinstance(v, int):
        return graphtage.IntegerNode(v)
    if isinstance(v, float):
        return graphtage.FloatNode(v)
    return graphtage.StringNode(v)


def _node(v, ale=True, alesl=True):
    import graphtage
    if isinstance(v, list):
        return graphtage.ListNode([_node(x, ale, alesl) for x in v], allow_list_edits=ale, allow_list_edits_when_same_length=alesl)
    return _leaf(v)


def _kind(v):
    return ("null" if v is None else "bool" if isinstance(v, bool) else "int" if isinstance(v, int) else
            "float" if isinstance(v, float) else "str")


BASE = {"single": False, "leaves": False, "pos": False, "ale": False, "alesl": False, "keye": False, "key": "-", "len": 0}


def pool():
    """[(descriptor, real node, label)]"""
    import graphtage
    out = []
    for v in (1, 2, 10, 1.5, 1.0, True, False, "a", "b", "ab", "", "1", "True", None):
        d = dict(BASE, kind=_kind(v), canon=_canon(v), single=isinstance(v, str) and len(v) == 1)
        out.append((d, _leaf(v), repr(v)))
    lists = ([], [1], [2], [1, 2], [2, 1], [1, 2, 3], ["a"], [None], [""], [[1]], [1, [2]], [1, ""], ["ab", "a"])
    for ale in (True, False):
        for alesl in (True, False):
            for v in lists:
                leaves = all(not isinstance(x, list) for x in v)
                pos = all((len(str(x)) if x is not None and not isinstance(x, list) else (0 if x is None else 1)) > 0 for x in v)
                n = _node(v, ale, alesl)
                pos = all(c.total_size > 0 for c in n._children)
                d = dict(BASE, kind="list", canon=_canon(v), len=len(v), leaves=leaves, pos=pos, ale=ale, alesl=alesl)
                out.append((d, n, "list%r ale=%s alesl=%s" % (v, ale, alesl)))
    for v in ([], [1], [2], [1, 1], [1, 2]):
        d = dict(BASE, kind="mset", canon=_canon(("bag", v)), len=len(v))
        out.append((d, graphtage.MultiSetNode([_leaf(x) for x in v]), "mset%r" % (v,)))
    maps = ({}, {"k": 1}, {"k": 2}, {"j": 1}, {"k": 1, "j": 1}, {"k": [1]})

    def kvp(k, x, keye):
        return graphtage.KeyValuePairNode(_leaf(k), _node(x), allow_key_edits=keye)
    for v in maps:
        bag = _canon(("bag", [("kv", k, x) for k, x in v.items()])) if False else "{" + ",".join(sorted("%s=%s" % (_canon(k), _canon(x)) for k, x in v.items())) + "}"
        for auto in (True, False):
            n = graphtage.DictNode(sorted(kvp(k, x, True) for k, x in v.items()), auto_match_keys=auto)
            out.append((dict(BASE, kind="dict", canon=bag, len=len(v)), n, "dict%r auto=%s" % (v, auto)))
        n = graphtage.FixedKeyDictNode({_leaf(k): kvp(k, x, False) for k, x in v.items()})
        out.append((dict(BASE, kind="fdict", canon=bag, len=len(v)), n, "fdict%r" % (v,)))
        if v:
            # a plain multiset that holds the same key/value pairs as the mapping
            n = graphtage.MultiSetNode([kvp(k, x, True) for k, x in v.items()])
            out.append((dict(BASE, kind="mset", canon=bag, len=len(v)), n, "mset-of-pairs%r" % (v,)))
    for (k, x) in (("k", 1), ("k", 2), ("j", 1), ("k", [1])):
        for keye in (True, False):
            d = dict(BASE, kind="kvp", canon="%s=%s" % (_canon(k), _canon(x)), len=2, keye=keye, key=_canon(k))
            out.append((d, kvp(k, x, keye), "pair %r:%r keye=%s" % (k, x, keye)))
    return out


def observe(a, b):
    from graphtage.edits import Match, Replace
    from graphtage.levenshtein import EditDistance
    try:
        e = a.edits(b)
    except RuntimeError:
        return {"cls": "RuntimeError", "cost": -1, "penalty": -1}
    if e is None:
        return {"cls": "None", "cost": -1, "penalty": -1}
    cls = type(e).__name__
    cost = -1
    if isinstance(e, (Match, Replace)):
        cost = int(e.bounds().upper_bound)
    return {"cls": cls, "cost": cost, "penalty": int(e.penalty) if isinstance(e, EditDistance) else -1}


def model_check(chk):
    cfg = ('SPECIFICATION Spec\nCONSTANTS Canons = {"c1", "c2"}\nINVARIANT Total\nINVARIANT EqualIsFree\nINVARIANT UnequalIsNotFree\n'
           "INVARIANT ReplaceOnlyAcrossKinds\nINVARIANT ListOptionsHonoured\nCHECK_DEADLOCK FALSE\n")
    try:
        res = tlc.run_tlc("Choose", cfg, workers=8, timeout=600, name="Choose-mc", coverage=False)
    except MachineryError as ex:
        chk.notes.append("model check of Choose.tla did not finish: %s" % str(ex)[:200])
        return
    if not res.completed:
        chk.drift.append("Choose.tla violates one of its properties on the table (lead only): %s" % (res.invariant_violated or res.property_violated))
    chk.add_tlc(res, "Choose", "L2 decision table of edit selection over all pairs of sane descriptors (10 kinds x 2 contents x lengths 0..2 x "
                "flags): Total, EqualIsFree, UnequalIsNotFree, ReplaceOnlyAcrossKinds, ListOptionsHonoured")


def check(chk):
    model_check(chk)
    p = pool()
    recs, labels = [], []
    for da, na, la in p:
        for db, nb, lb in p:
            o = observe(na, nb)
            recs.append({"a": da, "b": db, "cls": o["cls"], "cost": o["cost"], "penalty": o["penalty"]})
            labels.append((la, lb))
    verdicts, st = tlc.validate_traces("ChooseTrace", recs, constants={"Canons": {"c"}}, name="ChooseTrace", chunk=4000)
    chk.add_trace_stats(st, "ChooseTrace", 0)
    bad = 0
    for i, (la, lb) in enumerate(labels, 1):
        v = verdicts[i]
        if v["v"] != "ACCEPT":
            bad += 1
            if len(chk.drift) < 10:
                chk.drift.append("Choose.tla: (%s).edits(%s) returns %s (cost %s, penalty %s), the table says %s [%s]" % (
                    la, lb, recs[i - 1]["cls"], recs[i - 1]["cost"], recs[i - 1]["penalty"], v.get("want"), v["clause"]))
    chk.extra["edit_selection_pairs_observed"] = len(recs)
    chk.extra["edit_selection_pairs_with_drift"] = bad
