"""C09 - the same data compares as equal regardless of input file format.

spec/Functional.tla with
  k = data id                      v = abstract value of the loaded tree        (one value over json/json5/yaml/plist)
  k = (data id, "cost")            v = cost of diffing the data against itself  (0, for every ordered pair of formats)
  k = (data id, third id)          v = cost against a third document            (one value over all format pairs)
  k = (data id, "exit")            v = exit status of the command               (0, for every ordered pair)
The data is serialised by the reference writers (json, yaml.safe_dump, plistlib) and loaded by the code
under test (Filetype.build_tree).
"""
import json
import multiprocessing as mp
import os
import plistlib

from harness import corpus, docs, functional
from harness.common import digest, rng, tier, use_repo
from harness.runner import Check
from props import _cli

use_repo()

FORMATS = ["json", "json5", "yaml", "plist"]
ALNUM = ("a", "b", "ab", "abc", "x1", "Hello", "World42", "yes", "no", "on", "True", "null", "1e3", "0x1F", "007", "A", "z9")


def common_doc(r, depth=3):
    """Data expressible in every one of the formats: string keys, alphanumeric strings, ints, bools, floats with a short
    repr, lists, maps; no null (plist has none)."""
    c = r.random()
    if depth <= 0 or c < 0.35:
        k = r.random()
        if k < 0.05:
            return ""
        if k < 0.10:
            # text beyond ASCII, incl. forms that Unicode normalisation would change (decomposed accents, compatibility
            # singletons): every format stores text verbatim
            return r.choice(("caf\u00e9", "Zoe\u0308", "\u212b", "\u2126m", "\u65e5\u672c", "e\u0301e\u0301", "\U0001F600", "a\u00a0b"))
        if k < 0.35:
            return r.choice(ALNUM)
        if k < 0.65:
            return r.choice((0, 1, 2, 7, 10, 42, 1000, -3, 2 ** 40))
        if k < 0.8:
            return r.choice((True, False))
        # (floats whose shortest text has an exponent and no fraction - 1e+16 - are written differently by every format)
        return r.choice((0.5, 1.5, 2.25, -0.75, 100.125, 1e16, 5e+20, 2e+17, 1e100, 1e-7, 1.5e+16))
    if c < 0.65:
        return [common_doc(r, depth - 1) for _ in range(r.randint(0, 4))]
    ks = r.sample(("a", "b", "c", "ab", "key", "Name", "x1", "yes", "no", "null", "n1"), r.randint(0, 4))
    d = {k: common_doc(r, depth - 1) for k in ks}
    if len(ks) >= 2 and r.random() < 0.25:
        # the SAME sub-object under two keys: YAML writes it once with an anchor and refers to it with an alias
        # (a serialisation detail of that format; the data is the same tree in every format)
        shared = d[ks[0]] if isinstance(d[ks[0]], (list, dict)) else [common_doc(r, 0), common_doc(r, 0)]
        d[ks[0]] = shared
        d[ks[1]] = shared
    return d


def _no_null(x):
    if x is None:
        return "nil"
    if isinstance(x, dict):
        return {k: _no_null(v) for k, v in x.items()}
    if isinstance(x, list):
        return [_no_null(v) for v in x]
    return x


def write(fmt, data) -> bytes:
    import yaml
    if fmt == "json":
        return json.dumps(data).encode()
    if fmt == "json5":
        # raw UTF-8, not \uXXXX escapes: the json5 library reads an escaped surrogate pair as two lone surrogates (the
        # third-party root cause of known finding F23, listed under C12; it would show here in the same way)
        return ("// same data\n" + json.dumps(data, indent=2, ensure_ascii=False) + "\n").encode("utf-8")
    if fmt == "yaml":
        return yaml.safe_dump(data, default_flow_style=False).encode()
    return plistlib.dumps(data)


def abstract(tree):
    """Abstract value with the plist root wrapper transparent (it is a file-format artefact)."""
    from harness.project import kind_of, plain
    v = plain(tree)
    if v[0] == "plist" and len(v[1]) == 1:
        v = v[1][0]
    return digest(v)


def _job(args):
    paths, third_paths, opts = args
    import graphtage
    from harness.watchdog import Expired, deadline
    bo = docs.build_options(opts)
    obs = []
    trees, third = {}, {}
    for fmt, p in paths.items():
        try:
            trees[fmt] = graphtage.FILETYPES_BY_TYPENAME[fmt].build_tree(p, bo)
            obs.append({"k": "value", "v": abstract(trees[fmt]), "raised": False, "how": "loaded from %s" % fmt})
        except Exception as ex:
            obs.append({"k": "value", "v": "", "raised": True, "how": "loading %s: %s: %s" % (fmt, type(ex).__name__, str(ex)[:80])})
    for fmt, p in third_paths.items():
        try:
            third[fmt] = graphtage.FILETYPES_BY_TYPENAME[fmt].build_tree(p, bo)
        except Exception:
            pass
    for f1 in FORMATS:
        for f2 in FORMATS:
            if f1 not in trees or f2 not in trees:
                continue
            for which, other in (("cost", trees), ("third", third)):
                if f2 not in other:
                    continue
                try:
                    with deadline(20.0):
                        d = trees[f1].diff(other[f2])
                        c = d.edited_cost()
                    obs.append({"k": which, "v": str(c) if which == "third" else str(c), "raised": False,
                                "how": "%s vs %s" % (f1, f2), "first": f1, "second": f2})
                except Expired:
                    obs.append({"k": which, "v": "", "raised": True, "how": "%s vs %s: timeout" % (f1, f2), "first": f1, "second": f2})
                except Exception as ex:
                    obs.append({"k": which, "v": "", "raised": True, "first": f1, "second": f2,
                                "how": "%s vs %s: %s: %s" % (f1, f2, type(ex).__name__, str(ex)[:80])})
    return obs


def _init():
    corpus._quiet_env()


def run():
    chk = Check("C09", "exploration")
    t = tier()
    n = 80 if t == "quick" else 600
    r = rng("c09")
    mats = _cli.Materials()
    jobs, datas = [], []
    for i in range(n):
        data = common_doc(r)
        while not isinstance(data, (dict, list)):
            data = common_doc(r)
        third = docs.mutate(data, r)
        if not isinstance(third, (dict, list)) or third == data or docs.has_twins(third) and False:
            third = [data, "x"]
        # whole-document replacements: the two top-level values are of different kinds and one of them is EMPTY (the cost of
        # such a replacement sits exactly on the bound a wrapping edit computes for itself)
        forced = (([], {"a": 1}), ({"a": 1}, []), ({}, [1, 2]), ([1, 2], {}), ([], {}), ({}, []), ([], {"a": []}), ({"k": {}}, []))
        if i % 10 == 1:
            data, third = forced[(i // 10) % len(forced)]
        # every fourth document contains nulls (and an empty container): a plist file cannot hold null, so these are
        # compared across JSON, JSON5 and YAML only
        with_null = i % 4 == 3
        fmts = [f for f in FORMATS if not (with_null and f == "plist")]
        if with_null:
            if isinstance(data, dict):
                data = dict(data, nul=None, e=[], inner={"n": None})
            else:
                data = list(data) + [None, {"n": None, "e": {}}]
            third = docs.mutate(data, r)
            if not isinstance(third, (dict, list)) or third == data:
                third = [data, None]
        else:
            third = _no_null(third)
        paths = {f: mats.file(write(f, data), _cli.EXT[f], "d%d" % i) for f in fmts}
        tpaths = {f: mats.file(write(f, third), _cli.EXT[f], "t%d" % i) for f in fmts}
        opts = r.choice(docs.ALL_OPTS)
        jobs.append((paths, tpaths, opts))
        datas.append({"data": data, "third": third, "opts": opts})
    ctx = mp.get_context("fork")
    with ctx.Pool(min(16, os.cpu_count() or 4), initializer=_init, maxtasksperchild=100) as pool:
        results = pool.map(_job, jobs, chunksize=2)
    # the zero-cost expectation is itself an observation: the first observation of "cost" is the json/json pair, which a
    # comparison of a file with itself fixes; all other ordered pairs must agree with it
    groups = []
    for obs in results:
        g = [{"k": "cost", "v": "0", "raised": False, "how": "definition: the same data costs nothing"}] + obs
        groups.append(g)
    verdicts, st = functional.validate_groups(groups, name="C09")
    chk.add_trace_stats(st, "FunctionalTrace", sum(len(g) for g in groups))
    # TLC names the first failing observation of a group; report every disagreeing observation with its own signature
    for meta, g, v in zip(datas, groups, verdicts):
        for o in g:
            chk.count((json.dumps(meta["data"]), o["how"], o["k"]))
        if v["v"] == "ACCEPT":
            continue
        ref = {}
        for o in g:
            if o["raised"]:
                sig = {"clause": "observation-raised-an-error", "what": o["k"], "first": o.get("first", ""), "second": o.get("second", "")}
                chk.violation(sig, meta, "data %s: %s" % (json.dumps(meta["data"])[:200], o["how"]))
            elif o["k"] in ref and ref[o["k"]] != o["v"]:
                sig = {"clause": "same-abstract-input-gave-a-different-result", "what": o["k"],
                       "first": o.get("first", ""), "second": o.get("second", "")}
                chk.violation(sig, meta, "data %s (options %s): %s gives %s = %s, expected %s" % (
                    json.dumps(meta["data"])[:200], json.dumps(meta["opts"]), o["how"], o["k"], o["v"], ref[o["k"]]))
            else:
                ref.setdefault(o["k"], o["v"])
    chk.sample({"data": datas[0]["data"], "observations": [{k: o[k] for k in ("k", "how", "v")} for o in groups[0][:8]]})
    # command line: exit status 0 for the same data in every ordered pair of formats
    cli_jobs, cli_meta = [], []
    for i, (paths, tpaths, opts) in enumerate(jobs[: (12 if t == "quick" else 100)]):
        for f1 in FORMATS:
            for f2 in FORMATS:
                if f1 not in paths or f2 not in paths:
                    continue
                # under the matching options of the case: every loader has to honour them, or the "same" trees differ in kind
                from harness import cli as clim
                argv = [paths[f1], paths[f2], "--no-status", "--no-color"] + clim.opt_args(opts)
                cli_jobs.append({"argv": argv, "from": paths[f1], "to": paths[f2], "cfg": _cli.base_cfg()})
                cli_meta.append((i, f1, f2))
    recs = _cli.execute(cli_jobs)
    cgroups = {}
    for (i, f1, f2), rec in zip(cli_meta, recs):
        cgroups.setdefault(i, [{"k": "exit", "v": "0", "raised": False, "how": "definition: same data, exit status 0"}]).append(
            {"k": "exit", "v": str(rec["rc"]), "raised": bool(rec["exc"]), "how": "%s vs %s%s" % (f1, f2, (": " + rec["exc"]) if rec["exc"] else ""),
             "first": f1, "second": f2})
    keys = sorted(cgroups)
    verdicts, st = functional.validate_groups([cgroups[k] for k in keys], name="C09-cli")
    chk.add_trace_stats(st, "FunctionalTrace", len(cli_jobs))
    for k, v in zip(keys, verdicts):
        for o in cgroups[k][1:]:
            chk.count(("cli", k, o["how"]))
            if o["raised"] or o["v"] != "0":
                sig = {"clause": "observation-raised-an-error" if o["raised"] else "same-abstract-input-gave-a-different-result",
                       "what": "exit", "first": o["first"], "second": o["second"]}
                chk.violation(sig, datas[k], "command on %s: exit status %s for the same data %s" % (o["how"], o["v"], json.dumps(datas[k]["data"])[:200]))
    functional.model_check(chk)
    chk.rule = ("cases = %d documents from the common domain (string keys, alphanumeric strings incl. YAML-reserved words, "
                "ints, bools, floats, lists, maps; no null) written by json / json (+comment) / yaml.safe_dump / plistlib and "
                "loaded by Filetype.build_tree; observations: abstract value per format, diff cost for all 16 ordered format "
                "pairs, cost against a third document for all 16 pairs, command exit status for all 16 pairs (subset); "
                "distinct by (data, observation)" % n)
    chk.assumptions = ["the plist root wrapper node is a file-format artefact and is transparent in the abstract value",
                       "reference writers produce text that denotes the data"]
    return chk.finish()


def replay(path):
    with open(path) as f:
        doc = json.load(f)
    print("C09 replay: re-running the quick check; original case: %s" % json.dumps(doc["replay"], default=str)[:300])
    return run()
