"""Binding of the mechanism model spec/Levenshtein.tla to graphtage.levenshtein.EditDistance.

TLC simulates behaviours of the model (an environment = one chain of nested intervals per cell, and a
sequence of public operations with the model's answers and state projection after each).  Each is replayed
on the real class over scripted nodes.  Two uses:
  * MODEL-DRIFT: the real answers / the projection of the real object differ from the model's (reported in
    the evidence, never a verdict);
  * the executions are further inputs of the L1 checks: C05 (the final cost and script of one environment
    must not depend on the operation order) and C04 (the object's exposed intervals obey Bounded.tla).
"""
import json

from harness import tlc
from harness.common import MachineryError, seed, use_repo

use_repo()

CONFIGS = {
    # name: (N, M, RC name, RC, IC name, IC, V)
    "2x1": (2, 1, "RC_21", [2, 1], "IC_2", [2], 2),
    "1x1": (1, 1, "RC_1", [1], "IC_2", [2], 3),
    "2x2": (2, 2, "RC_21", [2, 1], "IC_12", [1, 2], 2),
    "3x1": (3, 1, "RC_212", [2, 1, 2], "IC_2", [2], 2),
}


def generate(config, num, maxops, salt=0):
    n, m, rcn, rc, icn, ic, v = CONFIGS[config]
    cfg = ("SPECIFICATION GenSpec\nCONSTANTS N = %d M = %d RC <- %s IC <- %s V = %d MaxOps = %d\nINVARIANT Emit\n"
           "CHECK_DEADLOCK FALSE\n" % (n, m, rcn, icn, v, maxops))
    res = tlc.run_tlc("LevenshteinGen", cfg, workers=1, timeout=1500, simulate="num=%d" % num, depth=maxops + 1,
                      seed=seed() + 11 + salt, name="LevenshteinGen")
    seen, out = set(), []
    for x in res.printed:
        if isinstance(x, dict) and "hist" in x:
            k = json.dumps(x, sort_keys=True)
            if k not in seen:
                seen.add(k)
                out.append(x)
    if not out:
        raise MachineryError("LevenshteinGen produced no behaviour for %s" % config)
    return out, res


def model_check(chk, tier):
    runs = [("2x1", 5), ("1x1", 6)] if tier == "quick" else [("2x1", 6), ("1x1", 7), ("2x2", 6), ("3x1", 6)]
    for config, ops in runs:
        n, m, rcn, rc, icn, ic, v = CONFIGS[config]
        cfg = ("SPECIFICATION Spec\nCONSTANTS N = %d M = %d RC <- %s IC <- %s V = %d MaxOps = %d\nINVARIANT NoError\n"
               "INVARIANT OrderIndependent\nINVARIANT FinalInside\nINVARIANT ScriptLegal\nPROPERTY NeverWidens\n"
               "CHECK_DEADLOCK FALSE\n" % (n, m, rcn, icn, v, ops))
        res = tlc.run_tlc("LevenshteinMC", cfg, workers=16, timeout=1500, name="Levenshtein-mc")
        if not res.completed:
            chk.drift.append("Levenshtein.tla (%s) violates one of its properties on the model (lead only): %s"
                             % (config, res.invariant_violated or res.property_violated))
        chk.add_tlc(res, "Levenshtein", "L2 model of EditDistance %s, cells 0..%d, all orders of <=%d public operations: NoError, "
                    "OrderIndependent, FinalInside, ScriptLegal, NeverWidens" % (config, v, ops))


def build(config, cells):
    """A real EditDistance over scripted nodes for the environment `cells` ([{row, col, chain}])."""
    import graphtage
    from graphtage.bounds import Range
    from graphtage.edits import AbstractEdit
    from graphtage.levenshtein import EditDistance
    n, m, rcn, rc, icn, ic, v = CONFIGS[config]
    chains = {(c["row"], c["col"]): c["chain"] for c in cells}

    class ScriptEdit(AbstractEdit):
        def __init__(self, f, t):
            self.chain = chains[(t.idx, f.idx)]
            self.p = 0
            super().__init__(from_node=f, to_node=t)

        def bounds(self):
            lo, hi = self.chain[self.p]
            return Range(lo, hi)

        def tighten_bounds(self):
            if self.p < len(self.chain) - 1:
                self.p += 1
                return True
            return False

    class SNode(graphtage.TreeNode):
        def __init__(self, idx, size):
            self.idx = idx
            self.size = size

        def to_obj(self):
            return self.idx

        def children(self):
            return ()

        def calculate_total_size(self):
            return self.size

        def edits(self, node):
            return ScriptEdit(self, node)

        def print(self, printer):
            printer.write("S%d" % self.idx)

        def __repr__(self):
            return "S%d" % self.idx

    fs = [SNode(j + 1, rc[j] - 1) for j in range(n)]
    ts = [SNode(i + 1, ic[i] - 1) for i in range(m)]
    fl, tl = graphtage.ListNode(fs), graphtage.ListNode(ts)
    return EditDistance(fl, tl, fl.children(), tl.children(), insert_remove_penalty=1)


def script_of(ed):
    from graphtage.edits import Insert, Remove
    out = []
    for e in ed.edits():
        if isinstance(e, Remove):
            out.append(("rem", e.from_node.idx, e.bounds().upper_bound))
        elif isinstance(e, Insert):
            out.append(("ins", e.from_node.idx, e.bounds().upper_bound))
        else:
            out.append(("pair", e.from_node.idx, e.to_node.idx, e.bounds().upper_bound))
    return out


def replay(config, beh):
    """Returns (drift messages, observation {env key, ops, out, raised})."""
    from harness.watchdog import Expired, deadline
    drift = []
    ops = [h["op"] for h in beh["hist"]]
    obs = {"env": json.dumps(beh["cells"], sort_keys=True), "ops": ops, "raised": False, "out": "", "exc": ""}
    try:
        with deadline(10.0):
            ed = build(config, beh["cells"])
            for k, h in enumerate(beh["hist"]):
                if h["op"] == "tighten":
                    got = [1 if ed.tighten_bounds() else 0]
                elif h["op"] == "bounds":
                    b = ed.bounds()
                    got = [int(b.lower_bound), int(b.upper_bound)]
                elif h["op"] == "is_complete":
                    got = [1 if ed.is_complete() else 0]
                else:
                    list(ed.edits())
                    got = []
                proj = {"fr": ed._fringe_row, "fc": ed._fringe_col, "freed": ed.edit_matrix is None,
                        "complete": bool(ed.is_complete())}
                want = {k2: h["proj"][k2] for k2 in proj}
                if got != list(h["ret"]) and len(drift) < 3:
                    drift.append("step %d %s: model answers %s, code answers %s" % (k + 1, h["op"], h["ret"], got))
                elif proj != want and len(drift) < 3:
                    drift.append("step %d %s: model state %s, code state %s" % (k + 1, h["op"], want, proj))
            n = 0
            while ed.tighten_bounds():
                n += 1
                if n > 10000:
                    raise RuntimeError("does not converge")
            b = ed.bounds()
            obs["out"] = "%s-%s/%s" % (b.lower_bound, b.upper_bound, json.dumps(script_of(ed)))
            if int(b.lower_bound) != beh["final"] and len(drift) < 3:
                drift.append("final cost: model %s, code %s" % (beh["final"], b.lower_bound))
    except Expired:
        obs["raised"], obs["exc"] = True, "watchdog"
    except Exception as ex:
        obs["raised"], obs["exc"] = True, "%s: %s" % (type(ex).__name__, str(ex)[:100])
    return drift, obs
