"""Replay of a recorded comparison case (C01/C02/C03/C10 share the format)."""
import json

from harness import corpus
from harness.runner import Check
from props._script import innermost_class


def replay_script(prop, path):
    with open(path) as f:
        doc = json.load(f)
    if "case" not in doc["replay"]:
        # a violation observed outside the corpus of recorded diffs (command-line runs, ...): the whole check is re-run
        import importlib
        print("%s replay: re-running the quick check; original case: %s" % (prop, json.dumps(doc["replay"], default=str)[:300]))
        return importlib.import_module("props.%s" % prop.lower()).run()
    case = tuple(doc["replay"]["case"])
    chk = Check(prop, "model_checking")
    rec = corpus._record_one((case, 0))
    chk.count("replay")
    chk.count("replay-b")
    chk.rule = "replay of %s" % path
    if rec["status"] == "raised":
        chk.violation({"clause": "comparison-raised-an-internal-error"}, {"case": case}, rec["exc"])
        return chk.finish()
    if rec["status"] != "ok":
        print("replay inconclusive: %s" % rec)
        return chk.finish()
    errs, stats = corpus.validate([rec["trace"]])
    chk.add_trace_stats(stats, "EditScriptTrace", 1)
    v = errs[0][prop]
    chk.sample({"case": case, "events": rec["trace"]["ev"]})
    if v["step"]:
        cls = innermost_class(rec["trace"]["ev"], v["step"])
        chk.violation({"clause": v["clause"], "edit": cls}, {"case": case, "events": rec["trace"]["ev"]},
                      "clause '%s' broken at event %d in a %s frame" % (v["clause"], v["step"], cls))
    return chk.finish()
