"""Binding of the mechanism model spec/Compound.tla to graphtage.graphtage.KeyValuePairEdit,
graphtage.xml.XMLElementEdit and graphtage.sequences.FixedLengthSequenceEdit (the compound edits whose sub-edits are
fixed at construction).

TLC simulates behaviours of the model (environment = one chain of nested intervals per sub-edit; a sequence of
public operations bounds / tighten_bounds / edits / is_complete with the model's answers and the sub-edits'
positions after each).  Each is replayed on a real object of the class whose sub-edits were replaced, after
construction, by scripted ones (the methods under test - bounds, tighten_bounds, edits, is_complete - only read the
attributes key_edit / value_edit resp. tag_edit / attrib_edit / text_edit / child_edit resp. _sub_edits):
  * MODEL-DRIFT: the real answers / positions differ from the model's;
  * the executions are further inputs of the L1 checks: C05 (the final cost must not depend on the operation
    order) and C04 (the object's exposed intervals obey Bounded.tla).
"""
import json

from harness import tlc
from harness.common import MachineryError, seed, use_repo
from props import _coll

use_repo()

CONFIGS = {"kvp": ("kvp", False, 2), "kvp3": ("kvp", False, 3), "xml": ("xml", True, 1), "xmlnt": ("xml", False, 2),
           "xml2": ("xml", True, 2), "seq0": ("fixedseq", False, 2), "seq+2": ("fixedseq", False, 2),
           "seq-1": ("fixedseq", False, 3)}       # name: (Kind, HasText, V)
SURPLUS = {"seq0": 0, "seq+2": 2, "seq-1": -1}      # elements the second list has more (+) / fewer (-) than the first
_SURPLUS_COST = []


def surplus_cost():
    """Cost of removing / inserting one surplus element (an IntegerNode(7)) - asked from the real classes."""
    if not _SURPLUS_COST:
        import graphtage
        from graphtage.sequences import FixedLengthSequenceEdit
        mk = lambda n: graphtage.ListNode([graphtage.IntegerNode(7) for _ in range(n)], allow_list_edits=False)
        e = FixedLengthSequenceEdit(mk(1), mk(2))
        costs = [int(x.bounds().upper_bound) for x in list(e.edits())[1:]]
        r = FixedLengthSequenceEdit(mk(2), mk(1))
        costs += [int(x.bounds().upper_bound) for x in list(r.edits())[1:]]
        if len(set(costs)) != 1:
            raise MachineryError("removing and inserting the same element cost differently: %s" % costs)
        _SURPLUS_COST.append(costs[0])
    return _SURPLUS_COST[0]


def _consts(config, maxops):
    kind, text, v = CONFIGS[config]
    return 'CONSTANTS Kind = "%s" HasText = %s V = %d MaxOps = %d SurplusN = %d SurplusCost = %d\n' % (
        kind, "TRUE" if text else "FALSE", v, maxops, abs(SURPLUS.get(config, 0)), surplus_cost() if kind == "fixedseq" else 0)


def generate(config, num, maxops, salt=0):
    cfg = "SPECIFICATION GenSpec\n" + _consts(config, maxops) + "INVARIANT Emit\nCHECK_DEADLOCK FALSE\n"
    res = tlc.run_tlc("CompoundGen", cfg, workers=1, timeout=1500, simulate="num=%d" % num, depth=maxops + 1,
                      seed=seed() + 23 + salt, name="CompoundGen")
    seen, out = set(), []
    for x in res.printed:
        if isinstance(x, dict) and "hist" in x:
            k = json.dumps(x, sort_keys=True)
            if k not in seen:
                seen.add(k)
                x["config"] = config
                out.append(x)
    if not out:
        raise MachineryError("CompoundGen produced no behaviour for %s" % config)
    return out, res


def model_check(chk, tier):
    runs = ([("kvp", 6), ("xml", 5), ("xmlnt", 4), ("seq+2", 5)] if tier == "quick" else
            [("kvp", 8), ("kvp3", 6), ("xml", 7), ("xmlnt", 6), ("xml2", 3), ("seq0", 7), ("seq+2", 7), ("seq-1", 5)])
    for config, ops in runs:
        cfg = ("SPECIFICATION Spec\n" + _consts(config, ops) + "INVARIANT FinalInside\nINVARIANT QuiescentDefinitive\n"
               "INVARIANT CompleteSettled\nINVARIANT SumOfParts\nPROPERTY NeverWidens\nPROPERTY ProgressShrinks\nCHECK_DEADLOCK FALSE\n")
        try:
            res = tlc.run_tlc("Compound", cfg, workers=16, timeout=900, name="Compound-mc")
        except MachineryError as ex:
            chk.notes.append("model check of Compound.tla (%s) did not finish: %s" % (config, str(ex)[:200]))
            continue
        if not res.completed:
            chk.drift.append("Compound.tla (%s) violates one of its properties on the model (lead only): %s"
                             % (config, res.invariant_violated or res.property_violated))
        kind, text, v = CONFIGS[config]
        chk.add_tlc(res, "Compound", "L2 model of %s, sub-edits over 0..%d, all orders of <=%d public operations: NeverWidens, "
                    "FinalInside, ProgressShrinks, QuiescentDefinitive, CompleteSettled, SumOfParts"
                    % ("KeyValuePairEdit" if kind == "kvp" else "FixedLengthSequenceEdit (surplus %+d)" % SURPLUS[config] if kind == "fixedseq"
                       else "XMLElementEdit (%s text)" % ("with" if text else "without"), v, ops))


def build(config, chains):
    """A real KeyValuePairEdit / XMLElementEdit whose sub-edits follow `chains` (index 0..3 = sub-edit 1..4; [] = absent)."""
    import graphtage
    SNode, ScriptEdit = _coll.script_classes()
    kind, text, _ = CONFIGS[config]
    subs = {i + 1: ScriptEdit(i + 1, c) for i, c in enumerate(chains) if c}
    if kind == "fixedseq":
        from graphtage.sequences import FixedLengthSequenceEdit
        mk = lambda n: graphtage.ListNode([graphtage.IntegerNode(7) for _ in range(n)], allow_list_edits=False)
        k = SURPLUS[config]
        e = FixedLengthSequenceEdit(mk(2 + max(-k, 0)), mk(2 + max(k, 0)))
        if len(e._sub_edits) != 2:
            raise MachineryError("FixedLengthSequenceEdit did not pair the two leading elements")
        e._sub_edits = [subs[1], subs[2]]
    elif kind == "kvp":
        a = graphtage.KeyValuePairNode(graphtage.StringNode("k"), graphtage.IntegerNode(1))
        b = graphtage.KeyValuePairNode(graphtage.StringNode("k"), graphtage.IntegerNode(1))
        e = graphtage.KeyValuePairEdit(a, b)
        e.key_edit, e.value_edit = subs[1], subs[2]
    else:
        from graphtage.xml import XMLElement, XMLElementEdit
        t = (lambda: graphtage.StringNode("t")) if text else (lambda: None)
        a = XMLElement(graphtage.StringNode("e"), {}, t(), ())
        b = XMLElement(graphtage.StringNode("e"), {}, t(), ())
        e = XMLElementEdit(a, b)
        if (e.text_edit is not None) != text:
            raise MachineryError("XMLElementEdit.text_edit presence differs from the configuration")
        e.tag_edit, e.attrib_edit, e.child_edit = subs[1], subs[2], subs[4]
        if text:
            e.text_edit = subs[3]
    return e, subs


def _positions(subs):
    return [subs[i].p + 1 if i in subs else 0 for i in (1, 2, 3, 4)]


def _call(e, op):
    if op == "tighten":
        return [1 if e.tighten_bounds() else 0]
    if op == "bounds":
        b = e.bounds()
        return [int(b.lower_bound), int(b.upper_bound)]
    if op == "edits":
        return [getattr(s, "idx", 9) for s in e.edits()]
    return [1 if e.is_complete() else 0]


def replay(beh):
    """Returns (drift messages, observation {env, ops, out, raised, exc})."""
    from harness.watchdog import Expired, deadline
    drift = []
    ops = [h["op"] for h in beh["hist"]]
    chains = [list(c) for c in beh["chains"]]
    obs = {"env": json.dumps([beh["config"], chains]), "ops": ops, "raised": False, "out": "", "exc": ""}
    try:
        with deadline(10.0):
            e, subs = build(beh["config"], chains)
            for k, h in enumerate(beh["hist"]):
                got = _call(e, h["op"])
                pos = _positions(subs)
                if got != list(h["ret"]) and len(drift) < 3:
                    drift.append("step %d %s: model answers %s, code answers %s" % (k + 1, h["op"], list(h["ret"]), got))
                elif pos != list(h["ptr"]) and len(drift) < 3:
                    drift.append("step %d %s: model positions %s, code positions %s" % (k + 1, h["op"], list(h["ptr"]), pos))
            n = 0
            while e.tighten_bounds():
                n += 1
                if n > 10000:
                    raise RuntimeError("does not converge")
            b = e.bounds()
            obs["out"] = "%s-%s/%s" % (b.lower_bound, b.upper_bound, [getattr(s, "idx", 9) for s in e.edits()])
            if int(b.lower_bound) != beh["final"] and len(drift) < 3:
                drift.append("final cost: model %s, code %s" % (beh["final"], b.lower_bound))
    except Expired:
        obs["raised"], obs["exc"] = True, "watchdog"
    except Exception as ex:
        obs["raised"], obs["exc"] = True, "%s: %s" % (type(ex).__name__, str(ex)[:100])
    return drift, obs


def bounded_trace(config, chains, complete_first=False):
    """A BoundedTrace recording ({final, ev}) of a real fixed-arity compound edit over the environment, driven to quiescence."""
    from harness.watchdog import Expired, deadline
    ev = []
    final = sum(c[-1][0] for c in chains if c) + (abs(SURPLUS.get(config, 0)) * surplus_cost() if config in SURPLUS else 0)
    try:
        with deadline(10.0):
            e, subs = build(config, chains)
            if complete_first:
                e.is_complete()
                list(e.edits())
            b = e.bounds()
            ev.append({"k": "b", "lo": int(b.lower_bound), "hi": int(b.upper_bound)})
            for _ in range(200):
                r = bool(e.tighten_bounds())
                ev.append({"k": "t", "r": r})
                b = e.bounds()
                ev.append({"k": "b", "lo": int(b.lower_bound), "hi": int(b.upper_bound)})
                if not r:
                    break
    except Expired:
        ev.append({"k": "hang"})
    except Exception as ex:
        ev.append({"k": "raise", "in": "compound", "exc": type(ex).__name__})
    return {"final": final, "ev": ev}
