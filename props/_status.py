"""Binding of the mechanism model spec/Status.tla to graphtage.progress.StatusWriter (buffering mode).

TLC simulates behaviours of the model (sequences of write / flush / flush(final) / close with the text on the stream and
the pending text after each).  Each is replayed on a real StatusWriter over an in-memory stream whose fileno() is the
process's standard output (that is what selects the buffering mode); the model's character "n" is the newline, "f" is
replayed as several characters that other line-splitting routines treat as line ends (form feed, NEL, LINE SEPARATOR,
carriage return ...), "a" / "b" as ordinary text.  MODEL-DRIFT: the text on the stream or the pending text differ.
"""
import io
import json
import sys

from harness import tlc
from harness.common import MachineryError, seed, use_repo

use_repo()

F_CHARS = ["\x0c", "\x85", " ", "\r", "\x1c", "\x0b", " ", "\x1e"]


def generate(num, maxops, maxchunk=3, salt=0):
    cfg = ('SPECIFICATION GenSpec\nCONSTANTS Chars = {"a", "n", "f"} MaxChunk = %d MaxOps = %d\nINVARIANT Emit\nCHECK_DEADLOCK FALSE\n'
           % (maxchunk, maxops))
    res = tlc.run_tlc("StatusGen", cfg, workers=1, timeout=900, simulate="num=%d" % num, depth=maxops + 1,
                      seed=seed() + 31 + salt, name="StatusGen")
    seen, out = set(), []
    for x in res.printed:
        if isinstance(x, dict) and "hist" in x:
            k = json.dumps(x, sort_keys=True)
            if k not in seen:
                seen.add(k)
                out.append(x)
    if not out:
        raise MachineryError("StatusGen produced no behaviour")
    return out, res


def model_check(chk, tier):
    runs = [(2, 4)] if tier == "quick" else [(2, 5), (3, 4)]
    for maxchunk, ops in runs:
        cfg = ('SPECIFICATION Spec\nCONSTANTS Chars = {"a", "n", "f"} MaxChunk = %d MaxOps = %d\nINVARIANT NothingLostOrInvented\n'
               "INVARIANT WholeLinesOnly\nINVARIANT PromptDelivery\nINVARIANT ClosedMeansDelivered\nPROPERTY FinalNewlineOnlyIfNeeded\n"
               "CHECK_DEADLOCK FALSE\n" % (maxchunk, ops))
        try:
            res = tlc.run_tlc("Status", cfg, workers=16, timeout=900, name="Status-mc")
        except MachineryError as ex:
            chk.notes.append("model check of Status.tla did not finish: %s" % str(ex)[:200])
            continue
        if not res.completed:
            chk.drift.append("Status.tla violates one of its properties on the model (lead only): %s"
                             % (res.invariant_violated or res.property_violated))
        chk.add_tlc(res, "Status", "L2 model of StatusWriter (buffering mode), chunks of <=%d characters over {a, newline, other "
                    "separator}, all sequences of <=%d operations: NothingLostOrInvented, WholeLinesOnly, PromptDelivery, "
                    "ClosedMeansDelivered, FinalNewlineOnlyIfNeeded" % (maxchunk, ops))


class _Stream(io.StringIO):
    """An in-memory stream that passes for the process's standard output."""
    def fileno(self):
        return sys.__stdout__.fileno()

    def close(self):
        self.was_closed = True       # keep the value readable


def _text(seq, fch):
    return "".join("\n" if c == "n" else fch if c == "f" else c for c in seq)


def replay(beh, fch):
    """Returns the list of drift messages for one behaviour with the model's "f" replayed as the character fch."""
    from graphtage.progress import StatusWriter
    drift = []
    stream = _Stream()
    w = StatusWriter(stream)
    if w.write_raw:
        raise MachineryError("StatusWriter over a stdout look-alike is not in buffering mode")
    for k, h in enumerate(beh["hist"]):
        try:
            if h["op"] == "write":
                w.write(_text(h["arg"], fch))
            elif h["op"] == "flush":
                w.flush(final=(list(h["arg"]) == ["T"]))
            else:
                w.close()
        except Exception as ex:
            drift.append("step %d %s: raised %s: %s" % (k + 1, h["op"], type(ex).__name__, str(ex)[:80]))
            break
        got, pend = stream.getvalue(), "".join(w._buffer)
        if got != _text(h["out"], fch):
            drift.append("step %d %s%r (separator %r): the model has %r on the stream, the code %r" % (
                k + 1, h["op"], _text(h["arg"], fch) if h["op"] == "write" else "", fch, _text(h["out"], fch), got))
            break
        if pend != _text(h["pending"], fch):
            drift.append("step %d %s (separator %r): the model holds back %r, the code %r" % (k + 1, h["op"], fch, _text(h["pending"], fch), pend))
            break
    return drift


def check(chk, tier):
    model_check(chk, tier)
    n = 0
    nd = 0
    for maxchunk, ops, num in (((2, 6, 300), (3, 8, 300)) if tier == "quick" else ((2, 6, 2000), (3, 8, 3000), (3, 12, 2000))):
        behs, res = generate(num, ops, maxchunk)
        chk.add_tlc(res, "StatusGen", "simulation of behaviours of the StatusWriter model (chunks <=%d, %d operations)" % (maxchunk, ops))
        for i, b in enumerate(behs):
            for fch in (F_CHARS[i % len(F_CHARS)], "b"):
                d = replay(b, fch)
                n += 1
                if d:
                    nd += 1
                    if len(chk.drift) < 10:
                        chk.drift.append("Status.tla: " + d[0])
    chk.extra["statuswriter_model_behaviours_replayed"] = n
    chk.extra["statuswriter_model_behaviours_with_drift"] = nd
