"""C01 - the edit script turns the first document into the second (spec/EditScript.tla, C01 clauses)."""
from props._script import run_script_property


def run():
    from props._script import DEFAULT_KINDS
    chk = run_script_property(
        "C01", "model_checking", exceptions_count=True, kinds=DEFAULT_KINDS + ["mixedopts", "dupkeys"],
        extra_rule="C01 clauses: every element accounted for exactly once per side and frame, list order kept per "
                   "side, components paired by role, annotated-tree marks equal the script's removals/insertions; "
                   "EditScriptMC proves (TLC, small documents) that a script breaking no clause reads back both documents.")
    return chk.finish()


def replay(path):
    from props._replay import replay_script
    return replay_script("C01", path)
