"""Shared driver of the properties decided on the flattened edit script (C01, C02-library, C03, C10)."""
import json

from harness import corpus, tlc
from harness.common import MachineryError, digest, tier
from harness.runner import Check

SIZES = {
    # kind -> (quick n, thorough n)
    "small": (1500, 20000),
    "random": (900, 12000),
    "skewed": (300, 3000),
    "mset": (250, 3000),
    "xml": (250, 3000),
    "dupkeys": (150, 1500),
    "cli": (250, 2500),
    "neareq": (1500, 15000),
    "msetdup": (200, 2500),
    "huge": (18, 60),
    "csv": (200, 2500),
    "pyobj": (200, 2500),
    "plist": (150, 2000),
    "loaded": (250, 3000),
    "records": (200, 2500),
    "mixedkeys": (250, 3000),
    "crossplist": (80, 800),
    "wide": (16, 200),
    "mixedopts": (250, 3000),
}
DEFAULT_KINDS = ["small", "random", "skewed", "mset", "msetdup", "xml", "huge", "csv", "pyobj", "plist", "loaded", "records", "mixedkeys", "wide"]


def innermost_class(ev, step):
    """Class name of the compound edit whose frame is open at event `step` (1-based)."""
    stack = []
    for e in ev[:step]:
        if e["e"] == "open":
            stack.append(e.get("cls", "?"))
        elif e["e"] == "close" and stack:
            if e is ev[step - 1]:
                break
            stack.pop()
    return stack[-1] if stack else "root"


def run_script_property(prop, level, kinds=None, extra_rule="", mc=True, signature_extra=None, exceptions_count=False):
    chk = Check(prop, level)
    t = tier()
    kinds = kinds or DEFAULT_KINDS
    salt = 0
    all_cases, all_recs = [], []
    for kind in kinds:
        n = SIZES[kind][0 if t == "quick" else 1]
        cases = corpus.gen_cases(kind, n, salt)
        recs = corpus.record_cases(cases, salt)
        all_cases += cases
        all_recs += recs
    ok = [(c, r) for c, r in zip(all_cases, all_recs) if r["status"] == "ok"]
    for c, r in zip(all_cases, all_recs):
        if r["status"] == "inconclusive":
            chk.inconclusive += 1
        elif r["status"] == "build-error":
            raise MachineryError("could not build a generated document: %s" % r["exc"])
        elif r["status"] == "raised":
            if exceptions_count:
                sig = {"clause": "comparison-raised-an-internal-error", "exc": r["exc"].split(":")[0],
                       "where": r.get("where", "?")}
                chk.violation(sig, {"case": c}, "diff of %s raised %s at %s" % (json.dumps(c)[:300], r["exc"], r.get("where")))
            else:
                chk.inconclusive += 1
    errs, stats = corpus.validate([r["trace"] for _, r in ok])
    chk.add_trace_stats(stats, "EditScriptTrace", len(ok))
    for (c, r), e in zip(ok, errs):
        tr = r["trace"]
        nontrivial = any(x["e"] in ("change", "remove", "insert") for x in tr["ev"])
        chk.count((tr["F"][0]["ch"], tr["T"][0]["ch"], json.dumps(tr["O"], sort_keys=True)), nontrivial=nontrivial)
        v = e[prop]
        if v["step"]:
            cls = innermost_class(tr["ev"], v["step"])
            sig = {"clause": v["clause"], "edit": cls, "strategy": tr["O"]["strategy"], "lists": tr["O"]["lists"],
                   "kind": c[0]}
            if c[0] == "msetdup":
                sig["collide"] = corpus.msetdup_collide(c, salt)
            if signature_extra:
                sig.update(signature_extra(tr, v, cls))
            msg = "%s: clause '%s' broken at event %d (%s) in a %s frame; options %s; from %s to %s" % (
                c[0], v["clause"], v["step"], json.dumps(tr["ev"][v["step"] - 1]), cls, json.dumps(tr["O"]),
                r["repr"][0], r["repr"][1])
            chk.violation(sig, {"case": c, "events": tr["ev"]}, msg)
    # vacuity guard: which event kinds and which compound edit classes the validated scripts actually contain
    kinds_seen, classes_seen = {}, {}
    for _, r in ok:
        for x in r["trace"]["ev"]:
            kinds_seen[x["e"]] = kinds_seen.get(x["e"], 0) + 1
            if x["e"] in ("open", "change"):
                classes_seen[x.get("cls", "?")] = classes_seen.get(x.get("cls", "?"), 0) + 1
    chk.extra["events_by_kind"] = kinds_seen
    chk.extra["frames_and_changes_by_edit_class"] = classes_seen
    if ok:
        mid = ok[len(ok) // 3]
        chk.sample({"case": mid[0], "events": mid[1]["trace"]["ev"]})
        chk.sample({"case": ok[-1][0], "events": ok[-1][1]["trace"]["ev"]})
    if mc:
        model_check(chk, t)
    chk.rule = ("cases = pairs of documents x build options (3 dictionary strategies x 3 list modes): sampled from the "
                "small exhaustive domain (scalars, lists <=3, maps <=2 keys, one nesting level), random JSON trees of "
                "depth <=4 with one tree a few atomic mutations away from the other, size-skewed containers, "
                "MultiSetNode trees, XML elements; each diffed by the real code and its flattened script validated by "
                "TLC; distinct by (content hash of first, of second, options); non-trivial = the script contains at "
                "least one change/remove/insert. " + extra_rule)
    chk.assumptions = [
        "projection harness/project.py (tree -> node table, content hashes) and harness/flatten.py (edit tree -> "
        "events, node identity -> table id) are trusted",
        "cross-type numeric twins (1 / 1.0 / true) are different values: a number is not a boolean, `1` is not `1.0`",
    ]
    return chk


def model_check(chk, t):
    """EditScriptMC: every clause-respecting script over small projected documents reads back both documents."""
    import os
    from harness import docs
    from harness.common import scratch, use_repo
    from harness.project import Table
    use_repo()
    objs = [[], [1], [1, 2], [2, 1], [1, 1], {"a": 1}, {"a": 2, "b": 1}, [[1], 2], [[1, 2]], {"a": [1]}]
    if t != "quick":
        objs += [[1, 2, 1], {"b": 1}, [{"a": 1}, 1], {"a": {"b": 1}}]
    tables = [Table(docs.build(o, {"strategy": "auto", "lists": "on"})).json() for o in objs]
    path = os.path.join(scratch(), "mcdocs.json")
    with open(path, "w") as f:
        json.dump(tables, f)
    cfg = tlc.cfg_text(spec="MCSpec", constants={"MaxCost": 1},
                       invariants=["BothDocumentsReadBack", "NoClauseBroken", "ZeroCostMeansEqual"])
    res = tlc.run_tlc("EditScriptMC", cfg, env={"DOCS_FILE": path}, name="EditScriptMC", timeout=900)
    chk.model_violation_must_hold(res, "EditScriptMC", "BothDocumentsReadBack / NoClauseBroken / ZeroCostMeansEqual")
    chk.add_tlc(res, "EditScriptMC", "all clause-respecting scripts over %d x %d projected documents x 9 option sets; "
                "invariants BothDocumentsReadBack, NoClauseBroken, ZeroCostMeansEqual" % (len(tables), len(tables)))
