"""C11 - string changes are minimal.

spec/StringScript.tla (character-level script contract, LCS by the textbook recurrence),
spec/StringScriptGen.tla (TLC enumerates all pairs of strings over a small alphabet),
spec/StringScriptTrace.tla (trace validation of the scripts the real code produced).
"""
import json
import multiprocessing as mp
import os

from harness import corpus, tlc
from harness.common import MachineryError, rng, tier, use_repo
from harness.runner import Check

use_repo()


def _script_of(ed, a, b):
    """Character script (event language of StringScript) of a refined EditDistance."""
    from graphtage.edits import Insert, Match, Remove
    ev = []
    subs = list(ed.edits())
    fidx = {id(n): k + 1 for k, n in enumerate(ed.from_node.children())}
    tidx = {id(n): k + 1 for k, n in enumerate(ed.to_node.children())}
    for s in subs:
        if isinstance(s, Remove):
            ev.append({"e": "remove", "i": fidx.get(id(s.from_node), 0)})
        elif isinstance(s, Insert):
            ev.append({"e": "insert", "j": tidx.get(id(s.from_node), 0)})
        elif isinstance(s, Match):
            i, j = fidx.get(id(s.from_node), 0), tidx.get(id(s.to_node), 0)
            if s.bounds().upper_bound == 0:
                ev.append({"e": "keep", "i": i, "j": j})
            else:
                ev.append({"e": "subst", "i": i, "j": j})
        else:
            ev.append({"e": "raise", "exc": "unexpected sub-edit %s" % type(s).__name__})
    ev.append({"e": "end"})
    return ev


def char_events(a, b, via):
    """Character script of the real code for strings a -> b (code points), in the event language of StringScript."""
    import graphtage
    from graphtage.edits import Match
    from harness.watchdog import Expired, deadline
    sa, sb = "".join(map(chr, a)), "".join(map(chr, b))
    ev = []
    try:
        with deadline(15.0):
            if via == "node":
                e = graphtage.StringNode(sa).edits(graphtage.StringNode(sb))
                if isinstance(e, Match):
                    # whole-string special cases of StringNode.edits
                    if e.bounds().upper_bound == 0:
                        ev = [{"e": "keep", "i": k + 1, "j": k + 1} for k in range(len(a))]
                        if len(a) != len(b):
                            ev.append({"e": "raise", "exc": "zero-cost match of strings of different length"})
                    else:
                        ev = [{"e": "subst", "i": k + 1, "j": k + 1} for k in range(min(len(a), len(b)))]
                        ev += [{"e": "remove", "i": k + 1} for k in range(len(b), len(a))]
                        ev += [{"e": "insert", "j": k + 1} for k in range(len(a), len(b))]
                    ev.append({"e": "end"})
                    return ev
                while e.tighten_bounds():
                    pass
                ed = e.edit_distance
            else:
                ed = graphtage.graphtage.string_edit_distance(sa, sb)
                while ed.tighten_bounds():
                    pass
            ev = _script_of(ed, a, b)
    except Expired:
        ev.append({"e": "raise", "exc": "watchdog"})
    except Exception as ex:
        ev.append({"e": "raise", "exc": "%s: %s" % (type(ex).__name__, str(ex)[:100])})
    return ev


def side_by_side(group):
    """Several string edits ALIVE AT ONCE (as the candidate pairings of renamed keys are inside a mapping diff): all are
    created first, then refined in turns, one step each, and only then are their scripts read.  Returns one event list per
    pair of the group."""
    import graphtage
    from harness.watchdog import Expired, deadline
    out = [[] for _ in group]
    try:
        with deadline(30.0):
            eds = [graphtage.graphtage.string_edit_distance("".join(map(chr, a)), "".join(map(chr, b))) for a, b in group]
            live = list(range(len(eds)))
            n = 0
            while live:
                live = [k for k in live if eds[k].tighten_bounds()]
                n += 1
                if n > 100000:
                    raise RuntimeError("does not converge")
            for k, (a, b) in enumerate(group):
                out[k] = _script_of(eds[k], a, b)
    except Expired:
        out = [[{"e": "raise", "exc": "watchdog"}] for _ in group]
    except Exception as ex:
        out = [[{"e": "raise", "exc": "%s: %s" % (type(ex).__name__, str(ex)[:100])}] for _ in group]
    return out


def document_strings(args):
    """Strings edited into strings INSIDE documents (mapping keys with scalar and with container values, mapping values, list
    elements, the root): the pair of documents is diffed by the real code, and for every edit of the finished script that
    turns one string node into another, the character script is taken - from the StringEdit's own EditDistance, or, when the
    code paired the two strings by a whole-value edit, as "nothing kept".  Returns [(a, b, events)]."""
    da, db, opts = args
    import graphtage
    from graphtage.edits import Match, Replace
    from graphtage.tree import explode_edits
    from harness import docs
    from harness.watchdog import Expired, deadline
    out = []
    try:
        with deadline(30.0):
            if isinstance(da, str):
                import xml.etree.ElementTree as ET
                ta, tb = docs.build_xml(ET.fromstring(da), opts), docs.build_xml(ET.fromstring(db), opts)
            else:
                ta, tb = docs.build(da, opts), docs.build(db, opts)
            top = ta.edits(tb)
            n = 0
            while top.tighten_bounds() and n < 100000:
                n += 1
            for e in explode_edits(top):
                f, t = e.from_node, getattr(e, "to_node", None)
                if not (isinstance(f, graphtage.StringNode) and isinstance(t, graphtage.StringNode)):
                    continue
                if not (isinstance(f.object, str) and isinstance(t.object, str)) or f.object == t.object:
                    continue
                a, b = [ord(c) for c in f.object], [ord(c) for c in t.object]
                if isinstance(e, graphtage.StringEdit):
                    ed = e.edit_distance
                    while ed.tighten_bounds():
                        pass
                    out.append((a, b, _script_of(ed, a, b)))
                elif isinstance(e, (Match, Replace)):
                    ev = [{"e": "subst", "i": k + 1, "j": k + 1} for k in range(min(len(a), len(b)))]
                    ev += [{"e": "remove", "i": k + 1} for k in range(len(b), len(a))]
                    ev += [{"e": "insert", "j": k + 1} for k in range(len(a), len(b))]
                    out.append((a, b, ev + [{"e": "end"}]))
    except Expired:
        out.append(([97], [98], [{"e": "raise", "exc": "watchdog"}]))
    except Exception as ex:
        out.append(([97], [98], [{"e": "raise", "exc": "%s: %s" % (type(ex).__name__, str(ex)[:100])}]))
    return out


def string_documents(r, n):
    """Pairs of documents in which strings are edited at every kind of position."""
    from harness import docs
    words = ("colour", "color", "settings_v1", "settings_v2", "name", "names", "abcabc", "bcabca", "address", "adress", "x", "xy",
             "caf\u00e9", "cafe", "depth", "width")
    out = []
    for _ in range(n):
        w1, w2 = r.sample(words, 2)
        v1, v2 = r.sample(words, 2)
        shape = r.randrange(7)
        if shape == 0:
            a, b = {w1: [1, 2, 3], "b": 2}, {w2: [1, 2, 3], "b": 2}              # renamed key, container value
        elif shape == 1:
            a, b = {w1: {"depth": 3}}, {w2: {"depth": 4}}                        # renamed key, both values mappings
        elif shape == 2:
            a, b = {w1: 1, "k": v1}, {w2: 1, "k": v2}                            # renamed key with scalar value; edited value
        elif shape == 3:
            a, b = [v1, w1, [w2]], [v2, w1, [v1]]                                # list elements
        elif shape == 4:
            a, b = {w1: [v1], "n": {"m": w1}}, {w2: [v2], "n": {"m": w2}}        # key and the string inside its container value
        elif shape == 5:
            a, b = {w1: v1, w2: [v2]}, {w1 + "_": v1, w2 + "2": [v2, 1]}         # two renamed keys competing in the matcher
        else:
            a, b = {"k": {w1: [1]}}, {"k": {w2: [1], "z": 1}}
        out.append((a, b, r.choice(docs.ALL_OPTS[:3] + docs.ALL_OPTS[3:6])))
        if len(out) % 4 == 0:
            # XML: text of elements without and WITH child elements (mixed content), attribute values, tags
            t1, t2 = r.choice((("hello world", "hello brave world"), ("intro", "introduction"), (w1, w2), (v1 + " " + w1, v1 + " " + w2)))
            xa = "<doc><item k=\"%s\">%s<sub/></item><leaf>%s</leaf><p>%s<em>x</em>tail</p></doc>" % (v1, t1, t1, w1)
            xb = "<doc><item k=\"%s\">%s<sub/></item><leaf>%s</leaf><p>%s<em>x</em>tail</p></doc>" % (v2, t2, t2, w2)
            out.append((xa, xb, r.choice(docs.ALL_OPTS[:3])))
    return out


def _job(args):
    a, b, via = args
    return char_events(a, b, via)


def _group_job(group):
    return side_by_side(group)


def same_shape_groups(r, n):
    """Groups of 2-4 pairs of strings whose (from, to) lengths coincide and that share neither a first nor a last
    character (so that the trimmed problems have the same shape too), over small alphabets."""
    groups = []
    for _ in range(n):
        la, lb = r.randint(3, 9), r.randint(3, 9)
        alpha = r.choice(("abc", "abcd", "ab", "aeiou", "xy\u00e9"))
        g = []
        while len(g) < r.randint(2, 4):
            a = [ord(r.choice(alpha)) for _ in range(la)]
            b = [ord(r.choice(alpha)) for _ in range(lb)]
            if a[0] == b[0] or a[-1] == b[-1]:
                continue
            g.append((a, b))
        groups.append(g)
    return groups


def _init():
    corpus._quiet_env()


def random_pairs(r, n, maxlen):
    out = []
    for _ in range(n):
        alpha = list(range(97, 97 + r.choice((1, 2, 2, 3, 4, 26))))
        if r.random() < 0.25:
            alpha = r.choice(([233, 252], [97, 233], [26085, 26412, 35486], [97, 128512, 233], [65, 97, 196, 228],
                              [101, 769, 233], [8486, 937, 107, 8490], [4352, 4449, 44032]))     # canonically equivalent spellings
        la = r.randint(0, maxlen)
        a = [r.choice(alpha) for _ in range(la)]
        c = r.random()
        if c < 0.5:
            b = list(a)
            for _ in range(r.randint(1, 6)):
                d = r.random()
                if b and d < 0.35:
                    del b[r.randrange(len(b))]
                elif d < 0.7:
                    b.insert(r.randint(0, len(b)), r.choice(alpha))
                elif b:
                    b[r.randrange(len(b))] = r.choice(alpha)
        elif c < 0.65:
            k = r.randint(0, len(a))
            b = a[:k] + [r.choice(alpha) for _ in range(r.randint(0, 5))] + a[k:]      # shared prefix and suffix
        elif c < 0.75:
            b = a[::-1]
        elif c < 0.85:
            b = a + a[: r.randint(0, len(a))]
        else:
            b = [r.choice(alpha) for _ in range(r.randint(0, maxlen))]
        if r.random() < 0.1:
            a = [ord(x) for x in r.choice(("ééa", "\U0001F600ab", "a̶b", "\n\t\"\\"))] + a
        out.append((a, b))
    return out


def long_pairs(r, n):
    """Long strings (33-64 characters) whose common subsequences lie far from the main diagonal: a short block moved from one
    end to the other of an otherwise rewritten string, rotations, a common block in the middle of different lengths."""
    out = []
    for _ in range(n):
        la, lb = r.randint(33, 64), r.randint(33, 64)
        block = [r.choice((120, 121, 122, 69, 82)) for _ in range(r.randint(1, 6))]
        xa = [r.choice((97, 98, 99)) for _ in range(la - len(block))]
        xb = [r.choice((48, 49, 50, 45)) for _ in range(lb - len(block))]
        c = r.random()
        if c < 0.4:
            a, b = block + xa, xb + block                       # the block moves from the start to the end
        elif c < 0.6:
            a, b = xa + block, block + xb
        elif c < 0.75:
            k = r.randint(1, len(xa) - 1)
            a, b = xa[:k] + block + xa[k:], block + xb          # middle -> start
        elif c < 0.9:
            k = r.randint(1, la - 1)
            a = block + xa
            b = a[k:] + a[:k]                                   # rotation
        else:
            a, b = block + xa, (xb + block)[::-1]
        if r.random() < 0.3:
            a, b = b, a
        out.append((a, b))
    return out


def run():
    chk = Check("C11", "model_checking")
    t = tier()
    bin_len, tern_len, n_rand, rand_len = (6, 3, 1500, 30) if t == "quick" else (7, 4, 8000, 48)
    # the contract itself
    cfg = tlc.cfg_text(spec="MCSpec", constants={"Alphabet": {1, 2}, "MaxLen": 3 if t == "quick" else 4},
                       invariants=["LCSIsUpperBound", "LCSSane"])
    res = tlc.run_tlc("StringScript", cfg, workers=8, timeout=900, name="StringScript-mc")
    chk.model_violation_must_hold(res, "StringScript", "LCSIsUpperBound, LCSSane")
    chk.add_tlc(res, "StringScript", "every clause-respecting script over binary strings keeps at most LCS characters; LCS sane")
    pairs = []
    # characters of 1, 2, 3 and 4 bytes in UTF-8: the script must not depend on how a character is encoded
    for alpha, mlen in (({97, 98}, bin_len), ({97, 98, 99}, tern_len), ({233, 26085}, 4), ({97, 233, 128512}, 3),
                        ({101, 769, 233}, 3)):      # e, combining acute, precomposed e-acute: three different characters
        cfg = tlc.cfg_text(spec="GenSpec", constants={"Alphabet": alpha, "MaxLen": mlen}, invariants=["Emit"])
        res = tlc.run_tlc("StringScriptGen", cfg, workers=1, timeout=900, name="StringScriptGen")
        got = [p for p in res.printed if isinstance(p, list) and len(p) == 2]
        want = sum(len(alpha) ** k for k in range(mlen + 1)) ** 2
        if len(got) != want:
            raise MachineryError("string generator produced %d pairs, expected %d" % (len(got), want))
        chk.add_tlc(res, "StringScriptGen", "all %d pairs of strings over %d letters up to length %d" % (want, len(alpha), mlen))
        pairs += [(a, b, "exhaustive") for a, b in got]
    chk.exhaustive = True
    chk.extra["exhaustive_pairs"] = len(pairs)
    pairs += [(a, b, "random") for a, b in random_pairs(rng("c11"), n_rand, rand_len)]
    pairs += [(a, b, "long") for a, b in long_pairs(rng("c11-long"), 80 if t == "quick" else 600)]
    jobs = []
    for k, (a, b, origin) in enumerate(pairs):
        jobs.append((a, b, "node" if k % 3 else "function"))
    ctx = mp.get_context("fork")
    with ctx.Pool(min(16, os.cpu_count() or 4), initializer=_init, maxtasksperchild=2000) as pool:
        results = pool.map(_job, jobs, chunksize=64)
    # several edits alive at once, refined in turns
    groups = same_shape_groups(rng("c11-groups"), 250 if t == "quick" else 2500)
    with ctx.Pool(min(16, os.cpu_count() or 4), initializer=_init, maxtasksperchild=2000) as pool:
        gres = pool.map(_group_job, groups, chunksize=8)
    group_of = {}
    for g, evs in zip(groups, gres):
        for k, ((a, b), ev) in enumerate(zip(g, evs)):
            group_of[len(jobs)] = (g, k)
            jobs.append((a, b, "side-by-side"))
            results.append(ev)
    chk.extra["side_by_side_groups"] = len(groups)
    # strings edited inside documents
    sdocs = string_documents(rng("c11-docs"), 200 if t == "quick" else 2000)
    with ctx.Pool(min(16, os.cpu_count() or 4), initializer=_init, maxtasksperchild=500) as pool:
        dres = pool.map(document_strings, sdocs, chunksize=8)
    doc_of = {}
    n_doc_strings = 0
    for sd, found in zip(sdocs, dres):
        for a, b, ev in found:
            doc_of[len(jobs)] = sd
            jobs.append((a, b, "document"))
            results.append(ev)
            n_doc_strings += 1
    chk.extra["string_edits_found_inside_documents"] = n_doc_strings
    traces = [{"a": list(a), "b": list(b), "ev": ev} for (a, b, _), ev in zip(jobs, results)]
    shards = 8
    from concurrent.futures import ThreadPoolExecutor
    parts = [list(range(len(traces)))[k::shards] for k in range(shards)]

    def job(k):
        return tlc.validate_traces("StringScriptTrace", [traces[i] for i in parts[k]],
                                   constants={"Alphabet": {1}, "MaxLen": 0}, name="SST-%d" % k)
    with ThreadPoolExecutor(max_workers=shards) as ex:
        res = list(ex.map(job, range(shards)))
    for k, (verdicts, st) in enumerate(res):
        chk.add_trace_stats(st, "StringScriptTrace", len(parts[k]))
        for pos, i in enumerate(parts[k], 1):
            a, b, via = jobs[i]
            chk.count((tuple(a), tuple(b), via), nontrivial=(a != b and len(a) > 0 and len(b) > 0))
            v = verdicts[pos]
            if v["v"] == "ACCEPT":
                continue
            if v["clause"].startswith("machinery:"):
                raise MachineryError("string trace rejected by %s" % v["clause"])
            sa, sb = "".join(map(chr, a)), "".join(map(chr, b))
            sig = {"clause": v["clause"], "via": via}
            rp = {"a": a, "b": b, "via": via}
            if i in group_of:
                rp["group"], rp["k"] = [[list(x), list(y)] for x, y in group_of[i][0]], group_of[i][1]
            if i in doc_of:
                rp["doc"] = list(doc_of[i])
            chk.violation(sig, rp,
                          "%r -> %r via %s: clause '%s' at event %d; script %s" % (
                              sa, sb, via, v["clause"], v["step"], json.dumps(traces[i]["ev"])[:400]))
    mid = len(traces) // 2
    chk.sample({"a": "".join(map(chr, traces[mid]["a"])), "b": "".join(map(chr, traces[mid]["b"])), "script": traces[mid]["ev"]})
    chk.sample({"a": "".join(map(chr, traces[-1]["a"])), "b": "".join(map(chr, traces[-1]["b"])), "script": traces[-1]["ev"][:30]})
    chk.rule = ("cases = all pairs of strings over {a,b} up to length %d and over {a,b,c} up to length %d (enumerated by "
                "TLC), plus long pairs (33-64 characters: a short common block moved across an otherwise rewritten string, rotations) and "
                "random pairs up to length %d (tiny and large alphabets, mutated copies, shared prefix/suffix, "
                "reversals, repeats, non-ASCII); each diffed through StringNode.edits (2/3) or string_edit_distance (1/3); plus groups of 2-4 "
                "same-shaped pairs whose edits are all created first and then refined in turns (side-by-side); plus every string-to-string "
                "edit found in the scripts of documents with renamed keys (scalar and container values), edited values and list elements; "
                "distinct by (a, b, entry point); non-trivial = both non-empty and different" % (bin_len, tern_len, rand_len))
    chk.assumptions = ["characters are mapped to script positions by node identity in the per-character lists",
                       "LCS is computed by TLC from the textbook recurrence on the recorded strings"]
    return chk.finish()


def replay(path):
    with open(path) as f:
        doc = json.load(f)
    rp = doc["replay"]
    corpus._quiet_env()
    chk = Check("C11", "model_checking")
    if rp["via"] == "document":
        found = [x for x in document_strings(tuple(rp["doc"])) if x[0] == rp["a"] and x[1] == rp["b"]]
        ev = found[0][2] if found else [{"e": "raise", "exc": "the string pair no longer occurs in the script"}]
    elif rp["via"] == "side-by-side":
        ev = side_by_side([(a, b) for a, b in rp["group"]])[rp["k"]]
    else:
        ev = char_events(rp["a"], rp["b"], rp["via"])
    verdicts, st = tlc.validate_traces("StringScriptTrace", [{"a": rp["a"], "b": rp["b"], "ev": ev}],
                                       constants={"Alphabet": {1}, "MaxLen": 0})
    chk.add_trace_stats(st, "StringScriptTrace", 1)
    chk.count("a")
    chk.count("b")
    if verdicts[1]["v"] != "ACCEPT":
        chk.violation({"clause": verdicts[1]["clause"]}, rp, "clause '%s' at event %d: %s" % (
            verdicts[1]["clause"], verdicts[1]["step"], json.dumps(ev)[:400]))
    chk.rule = "replay"
    return chk.finish()
