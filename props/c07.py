"""C07 - diffing is a pure, deterministic function of its inputs.

spec/Functional.tla (write-once map).  Observations:
  (a) k = (files, argv), v = (stdout bytes digest, exit status) from real sub-processes
      `python -m graphtage` started with PYTHONHASHSEED 0, 1, 2, 3 (more in the thorough tier) and from
      repeated in-process calls;
  (b) k = (tree, which side), v = structural snapshot (node table with parents, sizes, content hashes and
      node classes) taken before and after diff(), edits()+refinement, get_all_edits().
"""
import json
import multiprocessing as mp
import os

from harness import corpus, docs, functional
from harness.common import digest, rng, tier, use_repo
from harness.runner import Check
from props import _cli

use_repo()


def snapshot(tree):
    """Structural snapshot of an input tree: per node class, kind, parent index, slot, content hash, size, flags."""
    from harness.project import Table
    t = Table(tree)
    rows = []
    idx = {id(n): i for i, n in enumerate(t.nodes)}
    for row, node in zip(t.rows, t.nodes):
        parent = getattr(node, "_parent", None)
        flags = {k: getattr(node, k) for k in ("allow_list_edits", "allow_list_edits_when_same_length", "auto_match_keys",
                                               "allow_key_edits", "quoted") if hasattr(node, k)}
        rows.append((type(node).__name__, row["kind"], row["parent"], row["slot"], row["ch"],
                     idx.get(id(parent), -1) if parent is not None else -2,
                     bool(getattr(node, "edited", False)), sorted(flags.items()),
                     sorted(k for k in vars(node) if k in ("removed", "inserted", "matched_to", "edit", "edit_list", "_edit_modifiers"))))
    return digest(rows)


def _subprocess_job(job):
    from harness import cli
    # every run of a group differs from the others in what is NOT an input of the comparison: the string-hash seed, the
    # wall clock (shifted by days), the working directory, the user / home / time zone / terminal width of the environment
    k = job["seed"]
    res = cli.run_subprocess(job["argv"], hashseed=k, clock_shift=k * 86400.0 * 37 + k * 4271.0,
                             cwd=("/", "/var/tmp", "/usr", "/etc")[k % 4],
                             extra_env={"TZ": ("UTC", "Asia/Tokyo", "America/New_York", "Europe/Berlin")[k % 4],
                                        "COLUMNS": str((80, 20, 200, 132)[k % 4]), "USER": "user%d" % k, "LOGNAME": "user%d" % k,
                                        "HOME": ("/root", "/nonexistent", "/var/tmp", "/")[k % 4]})
    return {"v": "%s/%s" % (digest(res["out"].decode("latin-1")), res["rc"]), "raised": bool(res["exc"]),
            "err": res["err"][-300:].decode("latin-1") if res["exc"] else ""}


def _purity_job(args):
    case, salt = args
    from harness.watchdog import Expired, deadline
    obs = []
    try:
        a, b = corpus.build_pair(case, salt)
    except Exception as ex:
        return [{"k": "build", "v": "", "raised": True, "how": repr(ex)}]
    try:
        with deadline(20.0):
            sa, sb = snapshot(a), snapshot(b)
            obs.append({"k": "first-tree", "v": sa, "raised": False, "how": "before"})
            obs.append({"k": "second-tree", "v": sb, "raised": False, "how": "before"})
            d1 = a.diff(b)
            obs.append({"k": "first-tree", "v": snapshot(a), "raised": False, "how": "after diff()"})
            obs.append({"k": "second-tree", "v": snapshot(b), "raised": False, "how": "after diff()"})
            cost1 = d1.edited_cost()
            e = a.edits(b)
            while e.tighten_bounds():
                pass
            if hasattr(e, "edits"):
                list(e.edits())
            obs.append({"k": "first-tree", "v": snapshot(a), "raised": False, "how": "after edits()+refinement"})
            obs.append({"k": "second-tree", "v": snapshot(b), "raised": False, "how": "after edits()+refinement"})
            flat = sum(x.bounds().upper_bound for x in a.get_all_edits(b))
            obs.append({"k": "first-tree", "v": snapshot(a), "raised": False, "how": "after get_all_edits()"})
            obs.append({"k": "second-tree", "v": snapshot(b), "raised": False, "how": "after get_all_edits()"})
            # the first tree against itself and against its own copy (nothing to report, nothing altered), then the
            # original comparison once more: trees are reusable values
            for other, how in ((a, "itself"), (a.copy(), "its own copy")):
                ds = a.diff(other)
                obs.append({"k": "self-cost", "v": "%s" % ds.edited_cost(), "raised": False, "how": "first tree against " + how})
                obs.append({"k": "first-tree", "v": snapshot(a), "raised": False, "how": "after a diff against " + how})
            obs.append({"k": "self-cost", "v": "0", "raised": False, "how": "definition: a document against itself costs nothing"})
            # repeated invocation in one process: same result
            d2 = a.diff(b)
            obs.append({"k": "result", "v": "%s" % cost1, "raised": False, "how": "first diff()"})
            obs.append({"k": "result", "v": "%s" % d2.edited_cost(), "raised": False, "how": "second diff()"})
            obs.append({"k": "rendering", "v": render(d1), "raised": False, "how": "first diff()"})
            obs.append({"k": "rendering", "v": render(d2), "raised": False, "how": "second diff()"})
    except Expired:
        obs.append({"k": "result", "v": "", "raised": True, "how": "watchdog"})
    except Exception as ex:
        obs.append({"k": "result", "v": "", "raised": True, "how": "%s: %s" % (type(ex).__name__, str(ex)[:100])})
    return obs


def _object_rounds(n_rec, rounds):
    """The same two lists of Record objects diffed `rounds` times in this process, the allocator disturbed in between."""
    import gc
    import graphtage.printer as gp
    from graphtage import pydiff
    from harness.cli import _Stream
    from harness.watchdog import Expired, deadline

    class Record:
        def __init__(self, n, name):
            self.n, self.name = n, name

        @property
        def rows(self):
            return [[self.n, self.n + 1], [self.name]]      # a fresh nested list on every access

    a = [Record(i, "r%d" % i) for i in range(n_rec)]
    b = [Record(i + (1 if i == 1 else 0), "r%d" % i) for i in range(n_rec)]
    obs = []
    keep = []
    for k in range(rounds):
        # disturb the allocator: keep some lists alive, free others
        junk = [[[j], [j, j]] for j in range(13 * (k % 5) + k)]
        if k % 2:
            keep.append(junk[::3])
        del junk
        if k % 3 == 0:
            keep.clear()
            gc.collect()
        o = {"k": "pydiff of %d records with computed members" % n_rec, "v": "", "raised": False, "how": "round %d" % (k + 1)}
        try:
            with deadline(20.0):
                out = _Stream()
                pr = gp.Printer(out, ansi_color=False, quiet=True)
                ta, tb = pydiff.build_tree(a), pydiff.build_tree(b)
                d = ta.diff(tb)
                with pr:
                    pydiff.PyDiffFormatter.DEFAULT_INSTANCE.print(pr, d)
                o["v"] = "%s/%s" % (digest(out.getvalue()), d.edited_cost())
        except Expired:
            o["raised"], o["why"] = True, "timeout"
        except Exception as ex:
            o["raised"], o["why"] = True, "%s: %s" % (type(ex).__name__, str(ex)[:120])
        obs.append(o)
    return obs


def _deep_job(depths):
    """The same operation on the same deep documents before and after an unrelated comparison of even deeper ones:
    whatever the outcome is (a result, or RecursionError at the interpreter's default limit), it must be the same."""
    import sys
    from graphtage import json as gjson
    d1, d2 = depths

    def nest(n, leaf):
        v = leaf
        for i in range(n):
            v = {"k": [v, i]}
        return v

    def outcome(f):
        try:
            return "ok:%s" % f()
        except RecursionError:
            return "RecursionError"
        except Exception as ex:
            return "raised:%s" % type(ex).__name__
    lim = sys.getrecursionlimit()
    try:
        a, b = gjson.build_tree(nest(d1, 1)), gjson.build_tree(nest(d1, 2))
    except RecursionError:
        return [{"k": "deep", "v": "unbuildable", "raised": False, "how": "skipped"}]
    edits = lambda: sum(e.bounds().upper_bound for e in a.get_all_edits(b))        # noqa: E731
    whole = lambda: a.diff(b).edited_cost()                                        # noqa: E731
    obs = [{"k": "deep-edits", "v": outcome(edits), "raised": False, "how": "get_all_edits at depth %d, first" % d1},
           {"k": "deep-diff", "v": outcome(whole), "raised": False, "how": "diff at depth %d, first" % d1}]
    try:
        c, d = gjson.build_tree(nest(d2, 1)), gjson.build_tree(nest(d2, 3))
        outcome(lambda: c.diff(d).edited_cost())
        outcome(lambda: [list(c.get_all_edits(d))])
    except RecursionError:
        pass
    obs.append({"k": "deep-edits", "v": outcome(edits), "raised": False, "how": "get_all_edits at depth %d, after comparing documents of depth %d" % (d1, d2)})
    obs.append({"k": "deep-diff", "v": outcome(whole), "raised": False, "how": "diff at depth %d, after comparing documents of depth %d" % (d1, d2)})
    obs.append({"k": "recursion-limit", "v": str(lim), "raised": False, "how": "before"})
    obs.append({"k": "recursion-limit", "v": str(sys.getrecursionlimit()), "raised": False, "how": "after (interpreter-wide state)"})
    sys.setrecursionlimit(lim)
    return obs


FORMATS = ("json", "yaml", "plist", "xml", "csv")


def render(diff):
    """Digest of the diff rendered by every output formatter (process-wide default instances, as the command uses them)."""
    import graphtage
    from graphtage.printer import Printer
    from harness.cli import _Stream
    out = []
    for name in FORMATS:
        s = _Stream()
        p = Printer(s, ansi_color=False, quiet=True)
        try:
            graphtage.FILETYPES_BY_TYPENAME[name].get_default_formatter().print(p, diff)
            out.append(name + ":" + digest(s.getvalue()))
        except Exception as ex:
            out.append(name + ":raised:" + type(ex).__name__)
    return " ".join(out)


def _init():
    corpus._quiet_env()


def run():
    chk = Check("C07", "exploration")
    t = tier()
    n_pairs, seeds = (20, [0, 1, 2, 3]) if t == "quick" else (110, [0, 1, 2, 3, 4, 5])
    r = rng("c07")
    mats = _cli.Materials()
    from harness import cli as clim
    # (a) processes with different hash seeds -------------------------------------------------------------
    jobs, groups_meta = [], []
    for i in range(n_pairs):
        # biased to mappings with many unshared keys, so that hash order can show
        def wide(depth=2):
            ks = r.sample(docs.RKEYS + ("k1", "k2", "k3", "k4", "k5", "zeta", "eta", "theta"), r.randint(4, 9))
            return {k: (docs.random_doc(r, depth=1) if depth else r.choice(docs.WORDS)) for k in ks}
        a = wide() if i % 3 else [wide(0), wide(0)]
        b = wide() if i % 3 else [wide(0)]
        if i % 4 == 0:
            b = docs.mutate(a, r)
        if i % 5 == 4:
            # long containers (more than 64 children): lists, and mappings that become FixedKeyDictNodes under strategy none
            n_long = r.randint(65, 90)
            if i % 2:
                a = list(range(n_long))
                b = [x for x in a if x != 5] + [100]
            else:
                a = {"k%02d" % j: j for j in range(n_long)}
                b = dict(a)
                b.pop("k05")
                b["new"] = [1, 2]
        fa = mats.file(json.dumps(a).encode(), ".json", "a")
        fb = mats.file(json.dumps(b).encode(), ".json", "b")
        variants = [(docs.ALL_OPTS[6], []), (docs.ALL_OPTS[0], []), (docs.ALL_OPTS[6], ["-e"])][: (2 if t == "quick" and i % 2 and i % 5 != 4 else 3)]
        # every way of producing output: HTML, colour, other output formats, the digest
        variants.append((docs.ALL_OPTS[i % len(docs.ALL_OPTS)],
                         (["--html"], ["--color"], ["--format", "yaml"], ["-d"], ["--html", "-e"], ["--format", "xml"], ["--join-lists"],
                          ["--join-dict-items"], ["--condensed"])[i % 9]))
        for opts, mode in variants:
            argv = [fa, fb, "--no-status"] + ([] if "--color" in mode else ["--no-color"]) + clim.opt_args(opts) + mode
            gi = len(groups_meta)
            groups_meta.append({"a": a, "b": b, "argv": argv[2:]})
            for s in seeds:
                jobs.append({"argv": argv, "seed": s, "group": gi})
    # documents with the native date types of YAML and plist (naive and offset-carrying timestamps, dates): the runs of a
    # group differ in their time zone, among other things
    import datetime
    import plistlib
    ya = b"when: 2001-12-14 21:59:43\nd: 2002-01-01\nt: 2001-12-14T21:59:43+02:00\nl: [2001-12-14 21:59:43, x]\n"
    yb = b"when: 2001-12-14T21:59:43+00:00\nd: 2002-01-02\nt: 2001-12-14T19:59:43Z\nl: [2001-12-14 21:59:43, y]\n"
    pa = plistlib.dumps({"d": datetime.datetime(2020, 1, 1, 10, 0, 0), "x": [datetime.datetime(1999, 12, 31, 23, 59, 59)]})
    pb = plistlib.dumps({"d": datetime.datetime(2020, 1, 1, 11, 0, 0), "x": [datetime.datetime(1999, 12, 31, 23, 59, 59), 1]})
    for (ca, cb, ext) in ((ya, yb, ".yml"), (ya, ya, ".yml"), (pa, pb, ".plist"), (pa, pa, ".plist")):
        fa, fb = mats.file(ca, ext, "da"), mats.file(cb, ext, "db")
        for mode in ([], ["-e"], ["--format", "json"], ["--html"]):
            argv = [fa, fb, "--no-status", "--no-color"] + mode
            gi = len(groups_meta)
            groups_meta.append({"a": ca.decode("latin-1")[:200], "b": cb.decode("latin-1")[:200], "argv": argv[2:]})
            for s_ in seeds:
                jobs.append({"argv": argv, "seed": s_, "group": gi})
    ctx = mp.get_context("fork")
    with ctx.Pool(min(16, os.cpu_count() or 4)) as pool:
        results = pool.map(_subprocess_job, jobs, chunksize=2)
    groups = [[] for _ in groups_meta]
    for job, res in zip(jobs, results):
        groups[job["group"]].append({"k": "run", "v": res["v"], "raised": res["raised"], "how": "PYTHONHASHSEED=%d, clock +%d days, its own cwd / TZ / USER / HOME / COLUMNS" % (job["seed"], job["seed"] * 37),
                                     "err": res["err"]})
    verdicts, st = functional.validate_groups(groups, name="C07-seeds")
    chk.add_trace_stats(st, "FunctionalTrace", len(jobs))
    for gm, obs, v in zip(groups_meta, groups, verdicts):
        chk.count(("seeds", json.dumps(gm, sort_keys=True)))
        if v["v"] != "ACCEPT":
            o = obs[v["step"] - 1]
            sig = {"clause": v["clause"], "what": "hash-seed", "strategy": "none" if "none" in gm["argv"] else "other",
                   "mode": "-e" if "-e" in gm["argv"] else "full"}
            chk.violation(sig, {"group": gm}, "graphtage %s on the same two files: %s gives %s, %s gave %s %s" % (
                " ".join(gm["argv"]), o["how"], o["v"], obs[0]["how"], obs[0]["v"], o.get("err", "")[-150:]))
    chk.sample({"argv": groups_meta[0]["argv"], "observations": [{k: o[k] for k in ("how", "v")} for o in groups[0]]})
    # (b) purity and repeated calls in one process -----------------------------------------------------------
    cases = corpus.gen_cases("random", 250 if t == "quick" else 4000, 7) + corpus.gen_cases("skewed", 60 if t == "quick" else 600, 7) \
        + corpus.gen_cases("xml", 60 if t == "quick" else 600, 7) + corpus.gen_cases("mset", 40 if t == "quick" else 400, 7) \
        + corpus.gen_cases("repeatstr", 1500 if t == "quick" else 12000, 7) \
        + corpus.gen_cases("multiline", 150 if t == "quick" else 1500, 7)
    with ctx.Pool(min(16, os.cpu_count() or 4), initializer=_init, maxtasksperchild=300) as pool:
        pur = pool.map(_purity_job, [(c, 7) for c in cases], chunksize=8)
    # deep documents (process-wide interpreter state such as the recursion limit must not be left changed)
    deep_args = [(40, 70), (60, 120), (130, 230), (180, 230), (100, 300), (250, 320)]
    with ctx.Pool(6, initializer=_init, maxtasksperchild=1) as pool:
        deep = pool.map(_deep_job, deep_args, chunksize=1)
    dverdicts, dst = functional.validate_groups(deep, name="C07-deep")
    chk.add_trace_stats(dst, "FunctionalTrace", sum(len(g) for g in deep))
    for args_, obs, v in zip(deep_args, deep, dverdicts):
        chk.count(("deep", args_))
        if v["v"] != "ACCEPT":
            o = obs[v["step"] - 1]
            ref = next(x for x in obs if x["k"] == o["k"])
            chk.violation({"clause": v["clause"], "what": o["k"], "when": "deep-documents"}, {"depths": list(args_)},
                          "documents nested %d levels: %s gives %s, but %s gave %s" % (args_[0], o["how"], o["v"], ref["how"], ref["v"]))
    verdicts, st = functional.validate_groups(pur, name="C07-purity")
    chk.add_trace_stats(st, "FunctionalTrace", sum(len(g) for g in pur))
    for case, obs, v in zip(cases, pur, verdicts):
        chk.count(("pure", json.dumps(case, sort_keys=True, default=str)))
        if v["v"] != "ACCEPT":
            o = obs[v["step"] - 1]
            if o["raised"]:
                chk.inconclusive += 1        # an internal error is C01/C05's business
                continue
            sig = {"clause": v["clause"], "what": o["k"], "when": o["how"]}
            chk.violation(sig, {"case": case}, "%s: %s changed %s (case %s)" % (o["k"], o["k"], o["how"], json.dumps(case, default=str)[:300]))
    # (c) Python objects whose members are computed afresh on every access (a property returning a new nested list): the
    # same pair diffed again and again in one process while the allocator's state is disturbed - temporaries die, addresses
    # are re-used; nothing of that is an input
    corpus._quiet_env()          # (runs in this process: the progress bars of diff() go to a null stderr)
    ogroups = []
    for n_rec in (2, 3, 6, 9, 14):
        ogroups.append(_object_rounds(n_rec, 30 if t == "quick" else 80))
    overdicts, ost = functional.validate_groups(ogroups, name="C07-objects")
    chk.add_trace_stats(ost, "FunctionalTrace", sum(len(g) for g in ogroups))
    for g, v in zip(ogroups, overdicts):
        for o in g:
            chk.count(("objects", g[0]["k"], o["how"]))
        if v["v"] != "ACCEPT":
            o = g[v["step"] - 1]
            chk.violation({"clause": v["clause"], "what": "python-objects", "when": "repetition"}, {"objects": g[0]["k"]},
                          "%s: %s gives %s, the first round gave %s" % (g[0]["k"], o["how"], (o["v"] or o.get("why", ""))[:200], g[0]["v"][:100]))
    chk.sample({"case": cases[0], "observations": [{k: o[k] for k in ("k", "how", "v")} for o in pur[0]][:8]})
    functional.model_check(chk)
    chk.rule = ("cases = (a) %d pairs of JSON files biased to mappings with 4-9 unshared keys x 2-3 option sets (incl. "
                "dictionary strategy none and -e), each run as a real sub-process under PYTHONHASHSEED in %s; (b) corpus "
                "pairs (random JSON, skewed, XML, multisets) diffed in-process with structural snapshots of both input "
                "trees before/after diff(), edits()+refinement, get_all_edits(), and a second diff() compared with the "
                "first (cost and the rendering by every output formatter: json, yaml, plist, xml, csv); plus pairs with repeated "
                "strings and with multi-line strings; distinct by case; all non-trivial" % (n_pairs, seeds))
    chk.assumptions = ["object addresses (allocation order) cannot be scheduled from outside the interpreter: only hash seeds "
                       "and repetition are varied",
                       "a snapshot covers node classes, structure, content hashes, parent links, option flags and the "
                       "presence of edit annotations"]
    return chk.finish()


def replay(path):
    with open(path) as f:
        doc = json.load(f)
    print("C07 replay: re-running the quick check; original case: %s" % json.dumps(doc["replay"], default=str)[:300])
    return run()
