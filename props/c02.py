"""C02 - no edits are reported exactly when the two documents are equal.

Library entry point: spec/EditScript.tla, C02 clauses (zero-cost match only between equal data, paid
change only between different data, total cost zero / nothing marked <=> documents equal, library
'had edits' flag <=> total > 0).  Command-line entry point: spec/Cli.tla exit-status clause.
"""
from props._script import run_script_property


def run():
    chk = run_script_property(
        "C02", "model_checking", kinds=["neareq", "small", "random", "huge", "records", "mixedkeys", "wide", "xml", "loaded", "csv", "dupkeys"],
        extra_rule="C02 adds the near-equality generator: half of its pairs are equal (identity + key permutation at "
                   "all depths), half differ by one atomic perturbation (scalar type change keeping the text, one "
                   "character, string <-> empty string, swap of two unequal list elements, added/removed empty "
                   "element, dropped key, value -> null).")
    try:
        from props import _cli
    except ImportError:
        _cli = None
    if _cli is not None:
        _cli.exit_status_runs(chk)
    # which edit a pair of nodes gets in the first place (L2 decision table: spec/Choose.tla): equal nodes a free Match, unequal
    # ones never; every ordered pair of a pool of small real nodes of every kind against the table
    from props import _choose
    _choose.check(chk)
    return chk.finish()


def replay(path):
    from props._replay import replay_script
    return replay_script("C02", path)
