"""C05 - results do not depend on how the edit API is driven or on status settings.

spec/EditApi.tla (contract: one result per input pair, write-once reference, no call raises),
spec/EditApiGen.tla (TLC enumerates all histories of public operations up to a bound),
spec/EditApiTrace.tla (trace validation of the replayed histories).
"""
import json
import multiprocessing as mp
import os

from harness import corpus, docs, tlc
from harness.common import MachineryError, digest, rng, tier, use_repo
from harness.runner import Check

use_repo()

TOP_OPS = ["bounds", "tighten", "complete", "valid", "edits", "nonzero"]
# "pairs": a client that inspects candidate pairings itself - it creates further edits between the members of the two
# documents (TreeNode.edits on every pair of children), refines each completely and lists it.  These are OTHER edit objects
# over the same trees; what they leave behind must not change what the edit under observation reports.
OPS = TOP_OPS + ["sub." + o for o in TOP_OPS] + ["pairs"]


def other_edits(a, b):
    try:
        xs, ys = list(a.children())[:4], list(b.children())[:4]
    except Exception:
        return
    for x in xs:
        for y in ys:
            try:
                e = x.edits(y)
            except Exception:
                continue            # e.g. key/value pairs with different keys under -k: no edit exists for that pair
            e.bounds()
            n = 0
            while e.tighten_bounds() and n < 5000:
                n += 1
            e.is_complete()
            if hasattr(e, "edits"):
                list(e.edits())


def apply_op(edit, op):
    if op == "bounds":
        edit.bounds()
    elif op == "tighten":
        edit.tighten_bounds()
    elif op == "complete":
        edit.is_complete()
    elif op == "valid":
        _ = edit.valid
    elif op == "edits":
        if hasattr(edit, "edits"):
            list(edit.edits())
    elif op == "nonzero":
        edit.has_non_zero_cost()


def known_sub_edits(top):
    """Nested edits a client can get hold of right now without driving anything: attributes of the edits it
    already holds (sub-edit lists, matcher edges already created)."""
    out, seen, todo = [], {id(top)}, [top]
    while todo and len(out) < 12:
        e = todo.pop(0)
        for name in ("_sub_edits", "slot_edits", "_matched_kvp_edits", "key_edit", "value_edit", "tag_edit",
                     "attrib_edit", "text_edit", "child_edit", "edit_distance"):
            v = getattr(e, name, None)
            if v is None:
                continue
            cand = list(v) if isinstance(v, (list, tuple)) else [v]
            for c in cand:
                if id(c) not in seen and hasattr(c, "tighten_bounds") and hasattr(c, "bounds"):
                    seen.add(id(c))
                    out.append(c)
                    todo.append(c)
        m = getattr(e, "edit_matrix", None)
        if m:
            for row in m:
                for c in row:
                    if c is not None and id(c) not in seen:
                        seen.add(id(c))
                        out.append(c)
                        todo.append(c)
    return out


def run_history(case, salt, ops, quiet, color):
    """Replay one history on a fresh edit for the pair; returns the event for EditApiTrace."""
    import graphtage.printer as gp
    from harness.flatten import Flattener, Inconclusive, _cost, tighten_fully
    from harness.project import Table
    from harness.watchdog import Expired, deadline
    a, b = corpus.build_pair(case, salt)
    pr = gp.DEFAULT_PRINTER
    old = (pr.quiet, pr.ansi_color)
    pr.quiet, pr.ansi_color = quiet, color
    ev = {"ops": list(ops), "raised": False, "out": "", "exc": ""}
    try:
        with deadline(10.0):
            edit = a.edits(b)
            for op in ops:
                if op == "pairs":
                    other_edits(a, b)
                elif op.startswith("sub."):
                    for s in known_sub_edits(edit):
                        apply_op(s, op[4:])
                else:
                    apply_op(edit, op)
            tighten_fully(edit)
            # what the client sees once the edit reports no more progress - BEFORE anything else touches the sub-edits
            # (listing the script below refines them as a side effect)
            b0 = edit.bounds()
            seen = "%s..%s" % (b0.lower_bound, b0.upper_bound)
            fl = Flattener(Table(a), Table(b))
            fl.flatten(edit)
            script = [{k: v for k, v in e.items() if k != "cls"} for e in fl.events]
            ev["out"] = "%s=%d/%s" % (seen, _cost(edit), digest(script))
    except Expired:
        ev["raised"], ev["exc"] = True, "watchdog: did not terminate"
    except Inconclusive as ex:
        ev["raised"], ev["exc"] = True, "does not converge: %s" % ex
    except Exception as ex:
        import traceback
        tb = traceback.extract_tb(ex.__traceback__)
        where = "%s:%d" % (os.path.basename(tb[-1].filename), tb[-1].lineno) if tb else "?"
        ev["raised"], ev["exc"] = True, "%s at %s: %s" % (type(ex).__name__, where, str(ex)[:120])
    finally:
        pr.quiet, pr.ansi_color = old
    return ev


def _job(args):
    case, salt, hists = args
    events = [run_history(case, salt, [], False, True)]      # the reference: canonical completion only
    for ops, quiet, color in hists:
        events.append(run_history(case, salt, ops, quiet, color))
    return events


def _init():
    corpus._quiet_env()


def pick_cases(n, salt):
    """Pairs whose top-level edit has nested refinable edits (lists of lists/maps, maps of lists, strings, XML)."""
    r = rng("c05", salt)
    cases = []
    pool = corpus.gen_cases("random", n * 6, salt) + corpus.gen_cases("skewed", n, salt) + corpus.gen_cases("xml", n, salt)
    r.shuffle(pool)
    for c in pool:
        if c[0] == "json":
            nested = lambda d: isinstance(d, (list, dict)) and any(isinstance(x, (list, dict, str)) and x
                                                                    for x in (d if isinstance(d, list) else d.values()))
            if not (nested(c[1]) and nested(c[2])) or c[1] == c[2]:
                continue
        cases.append(c)
        if len(cases) >= n:
            break
    # every history of a case runs in ONE process, one after the other, on trees rebuilt from the same documents: whatever an
    # earlier edit of the same strings leaves behind in the process is part of "how the API was driven"
    return cases + corpus.gen_cases("rekeyed", max(n // 3, 8), salt)


def run():
    chk = Check("C05", "model_checking")
    t = tier()
    n_cases, depth_full, n_sampled, sample_len = (36, 2, 260, 6) if t == "quick" else (200, 3, 1500, 8)
    # 1. the design and the history generator (TLC)
    cfg = tlc.cfg_text(spec="Spec", constants={"Ops": {"bounds", "tighten", "edits"}, "MaxOps": 3, "Results": {"r1", "r2"}},
                       invariants=["Deterministic"])
    res = tlc.run_tlc("EditApi", cfg, workers=4, timeout=300, name="EditApi-mc")
    chk.model_violation_must_hold(res, "EditApi", "Deterministic")
    chk.add_tlc(res, "EditApi", "design: a function of the inputs satisfies the clauses")
    cfg = tlc.cfg_text(spec="GenSpec", constants={"Ops": set(OPS), "MaxOps": depth_full, "Results": {"r"}},
                       invariants=["Emit"])
    res = tlc.run_tlc("EditApiGen", cfg, workers=1, timeout=600, name="EditApiGen")
    chk.add_tlc(res, "EditApiGen", "enumeration of all histories over 13 operations up to length %d" % depth_full)
    full = [h for h in res.printed if isinstance(h, list)]
    if len(full) < 13:
        raise MachineryError("history generator produced %d histories" % len(full))
    chk.extra["histories_enumerated_by_tlc"] = len(full)
    # longer histories: TLC simulation of the same generator
    cfg = tlc.cfg_text(spec="GenSpec", constants={"Ops": set(OPS), "MaxOps": sample_len, "Results": {"r"}},
                       invariants=["Emit"])
    res = tlc.run_tlc("EditApiGen", cfg, workers=1, timeout=600, simulate="num=%d" % n_sampled, depth=sample_len + 1,
                      seed=tlc_seed(), name="EditApiGen-sim")
    chk.add_tlc(res, "EditApiGen", "simulation of %d histories of length %d" % (n_sampled, sample_len))
    sampled = [h for h in res.printed if isinstance(h, list) and len(h) == sample_len]
    # de-duplicate
    seen, long_hists = set(), []
    for h in sampled:
        k = tuple(h)
        if k not in seen:
            seen.add(k)
            long_hists.append(h)
    chk.extra["histories_simulated_by_tlc"] = len(long_hists)
    # histories over a 6-operation core alphabet, exhaustively to depth 4 (list sub-edits, query, refine a sub-edit,
    # refine the parent: the orders in which caches and lazily expanded iterators can go stale)
    core = ["edits", "bounds", "tighten", "sub.tighten", "sub.edits", "pairs"]
    cfg = tlc.cfg_text(spec="GenSpec", constants={"Ops": set(core), "MaxOps": 4, "Results": {"r"}}, invariants=["Emit"])
    res = tlc.run_tlc("EditApiGen", cfg, workers=1, timeout=600, name="EditApiGen-core")
    chk.add_tlc(res, "EditApiGen", "enumeration of all histories over the 6-operation core alphabet up to length 4")
    core_hists = [h for h in res.printed if isinstance(h, list) and len(h) >= 3]
    chk.extra["core_histories_enumerated_by_tlc"] = len(core_hists)
    # 2. replay on the real code
    cases = pick_cases(n_cases, 5)
    r = rng("c05-assign")
    jobs = []
    for ci, case in enumerate(cases):
        hs = []
        for h in full:
            hs.append((h, bool(r.getrandbits(1)), bool(r.getrandbits(1))))
        for h in r.sample(long_hists, min(len(long_hists), 40 if t == "quick" else 150)):
            hs.append((h, bool(r.getrandbits(1)), bool(r.getrandbits(1))))
        # every history both quiet and not quiet for a few of them
        for h in full[: 30]:
            hs.append((h, True, False))
        for h in (core_hists if ci % 3 == 0 or t != "quick" else r.sample(core_hists, 120)):
            hs.append((h, bool(r.getrandbits(1)), True))
        jobs.append((case, 5, hs))
    ctx = mp.get_context("fork")
    with ctx.Pool(min(16, os.cpu_count() or 4), initializer=_init, maxtasksperchild=4) as pool:
        results = pool.map(_job, jobs, chunksize=1)
    traces = []
    for (case, salt, hs), events in zip(jobs, results):
        traces.append({"ev": [{"ops": e["ops"], "raised": e["raised"], "out": e["out"]} for e in events]})
    verdicts, st = tlc.validate_traces("EditApiTrace", traces,
                                       constants={"Ops": {"x"}, "MaxOps": 1000, "Results": {"r"}}, name="EditApiTrace")
    chk.add_trace_stats(st, "EditApiTrace", sum(len(tr["ev"]) for tr in traces))
    for i, ((case, salt, hs), events) in enumerate(zip(jobs, results), 1):
        for k, e in enumerate(events):
            chk.count((i, k), nontrivial=len(e["ops"]) > 0)
        v = verdicts[i]
        if v["v"] == "ACCEPT":
            continue
        # report every failing history of this pair with its own signature (TLC named the first)
        ref = next((e["out"] for e in events if not e["raised"]), "")
        for k, e in enumerate(events):
            cfgq = (([None] + hs)[k] or (None, False, True))
            if e["raised"]:
                sig = {"clause": "a-call-raised-an-internal-error", "exc": e["exc"].split(":")[0]}
                msg = "history %s (quiet=%s) on %s raised %s" % (e["ops"], cfgq[1], json.dumps(case)[:300], e["exc"])
            elif e["out"] != ref:
                sig = {"clause": "result-depends-on-how-the-edit-api-was-driven", "kind": case[0]}
                msg = "history %s (quiet=%s) on %s ends with cost/script %s, the reference history with %s" % (
                    e["ops"], cfgq[1], json.dumps(case)[:300], e["out"], ref)
            else:
                continue
            chk.violation(sig, {"case": case, "ops": e["ops"], "quiet": cfgq[1], "color": cfgq[2]}, msg)
    # 2b. status-setting sweep: many more pairs (incl. the "list of records" shape), each completed canonically under
    #     all four quiet / colour settings of the default printer and after listing the sub-edits first
    sweep_cases = corpus.gen_cases("records", 260 if t == "quick" else 3000, 5) + corpus.gen_cases("random", 200 if t == "quick" else 3000, 9) \
        + corpus.gen_cases("skewed", 60 if t == "quick" else 600, 9)
    sweep_hists = [([], True, True), ([], True, False), ([], False, False), (["edits"], True, True), (["edits"], False, True),
                   (["sub.tighten", "bounds"], True, False)]
    sweep_jobs = [(c, 5 if c[3] is not None and i < (260 if t == "quick" else 3000) else 9, sweep_hists) for i, c in enumerate(sweep_cases)]
    with ctx.Pool(min(16, os.cpu_count() or 4), initializer=_init, maxtasksperchild=200) as pool:
        sweep_results = pool.map(_job, sweep_jobs, chunksize=4)
    straces = [{"ev": [{"ops": e["ops"], "raised": e["raised"], "out": e["out"]} for e in events]} for events in sweep_results]
    sverdicts, sst = tlc.validate_traces("EditApiTrace", straces, constants={"Ops": {"x"}, "MaxOps": 1000, "Results": {"r"}},
                                         name="EditApiTrace-sweep")
    chk.add_trace_stats(sst, "EditApiTrace", sum(len(tr["ev"]) for tr in straces))
    for i, ((case, salt, hs), events) in enumerate(zip(sweep_jobs, sweep_results), 1):
        for k, e in enumerate(events):
            chk.count(("sweep", i, k), nontrivial=k > 0)
        v = sverdicts[i]
        if v["v"] == "ACCEPT":
            continue
        ref = next((e["out"] for e in events if not e["raised"]), "")
        for k, e in enumerate(events):
            cfgq = (([None] + hs)[k] or (None, False, True))
            if e["raised"]:
                sig = {"clause": "a-call-raised-an-internal-error", "exc": e["exc"].split(":")[0]}
                msg = "history %s (quiet=%s) on %s raised %s" % (e["ops"], cfgq[1], json.dumps(case)[:300], e["exc"])
            elif e["out"] != ref:
                sig = {"clause": "result-depends-on-how-the-edit-api-was-driven", "kind": case[0], "setting": "quiet" if cfgq[1] else "status"}
                msg = "history %s (quiet=%s, colour=%s) on %s ends with cost/script %s, the reference (status on) with %s" % (
                    e["ops"], cfgq[1], cfgq[2], json.dumps(case)[:300], e["out"], ref)
            else:
                continue
            chk.violation(sig, {"case": case, "ops": e["ops"], "quiet": cfgq[1], "color": cfgq[2], "salt": salt}, msg)
    chk.extra["status_setting_sweep_pairs"] = len(sweep_jobs)
    # 3. the mechanism model of EditDistance (spec/Levenshtein.tla): model-checked, and its simulated behaviours -
    #    environments of scripted cells x orders of public operations - replayed on the real class
    from props import _lev
    _lev.model_check(chk, t)
    corpus._quiet_env()
    lev_groups = {}
    n_beh = 0
    drift_count = 0
    for config, num in (("2x1", 300), ("1x1", 200), ("2x2", 300)) if t == "quick" else (("2x1", 3000), ("1x1", 1500), ("2x2", 3000), ("3x1", 2000)):
        behs, res = _lev.generate(config, num, 6)
        chk.add_tlc(res, "LevenshteinGen", "simulation of %d behaviours of the EditDistance model (%s)" % (num, config))
        for b in behs:
            drift, obs = _lev.replay(config, b)
            n_beh += 1
            if drift:
                drift_count += 1
                if len(chk.drift) < 5:
                    chk.drift.append("Levenshtein.tla %s: %s (environment %s, operations %s)" % (config, drift[0], obs["env"][:200], obs["ops"]))
            lev_groups.setdefault((config, obs["env"]), []).append(obs)
    chk.extra["editdistance_model_behaviours_replayed"] = n_beh
    chk.extra["editdistance_model_behaviours_with_drift"] = drift_count
    keys = sorted(lev_groups)
    ltraces = [{"ev": [{"ops": o["ops"], "raised": o["raised"], "out": o["out"]} for o in lev_groups[k]]} for k in keys]
    lverdicts, lst = tlc.validate_traces("EditApiTrace", ltraces, constants={"Ops": {"x"}, "MaxOps": 1000, "Results": {"r"}},
                                         name="EditApiTrace-lev")
    chk.add_trace_stats(lst, "EditApiTrace", sum(len(tr["ev"]) for tr in ltraces))
    for i, k in enumerate(keys, 1):
        for o in lev_groups[k]:
            chk.count(("lev", k[0], k[1], tuple(o["ops"])))
        v = lverdicts[i]
        if v["v"] != "ACCEPT":
            o = lev_groups[k][v["step"] - 1]
            sig = {"clause": v["clause"], "kind": "scripted-editdistance", "exc": o["exc"].split(":")[0]}
            chk.violation(sig, {"config": k[0], "cells": json.loads(k[1]), "ops": o["ops"]},
                          "EditDistance %s over scripted cells %s: operations %s end with %s %s, the first history with %s" % (
                              k[0], k[1][:300], o["ops"], o["out"], o["exc"], lev_groups[k][0]["out"]))
    # 4. the mechanism model of EditCollection (spec/Collection.tla), same treatment
    from props import _coll
    _coll.model_check(chk, t)
    coll_groups = {}
    n_cb = 0
    cdrift = 0
    for config, num in (("2", 150), ("1", 100), ("3", 150)) if t == "quick" else (("2", 1500), ("1", 800), ("3", 1500), ("2w", 1000)):
        behs, res = _coll.generate(config, num, 6)
        chk.add_tlc(res, "CollectionGen", "simulation of behaviours of the EditCollection model (%s)" % config)
        for b in behs:
            # the model never consults is_complete() of a sub-edit: each behaviour is replayed over sub-edits with the default
            # answer and over sub-edits that claim to be complete from the start
            for early in (False, True):
                drift, obs = _coll.replay(b, early)
                n_cb += 1
                if drift:
                    cdrift += 1
                    if len(chk.drift) < 8:
                        chk.drift.append("Collection.tla %s%s: %s (environment %s, operations %s)" % (
                            config, " (sub-edits complete early)" if early else "", drift[0], obs["env"][:200], obs["ops"]))
                # a group = one environment: histories over early-complete sub-edits are compared among themselves
                coll_groups.setdefault((config + ("/early-complete" if early else ""), obs["env"]), []).append(obs)
    chk.extra["editcollection_model_behaviours_replayed"] = n_cb
    chk.extra["editcollection_model_behaviours_with_drift"] = cdrift
    ckeys = sorted(coll_groups)
    ctraces = [{"ev": [{"ops": o["ops"], "raised": o["raised"], "out": o["out"]} for o in coll_groups[k]]} for k in ckeys]
    cverdicts, cst = tlc.validate_traces("EditApiTrace", ctraces, constants={"Ops": {"x"}, "MaxOps": 1000, "Results": {"r"}},
                                         name="EditApiTrace-coll")
    chk.add_trace_stats(cst, "EditApiTrace", sum(len(tr["ev"]) for tr in ctraces))
    for i, k in enumerate(ckeys, 1):
        for o in coll_groups[k]:
            chk.count(("coll", k[0], k[1], tuple(o["ops"])))
        v = cverdicts[i]
        if v["v"] != "ACCEPT":
            o = coll_groups[k][v["step"] - 1]
            sig = {"clause": v["clause"], "kind": "scripted-editcollection", "exc": o["exc"].split(":")[0]}
            chk.violation(sig, {"config": k[0], "env": json.loads(k[1]), "ops": o["ops"]},
                          "EditSequence over scripted sub-edits %s: operations %s end with %s %s, the first history with %s" % (
                              k[1][:300], o["ops"], o["out"], o["exc"], coll_groups[k][0]["out"]))
    # 5. the mechanism model of the compound edits with sub-edits fixed at construction: KeyValuePairEdit / XMLElementEdit /
    # FixedLengthSequenceEdit (spec/Compound.tla)
    from props import _compound
    _compound.model_check(chk, t)
    cmp_groups = {}
    n_pb = pdrift = 0
    for config, num in ((("kvp", 120), ("xml", 120), ("xmlnt", 80), ("seq+2", 80), ("seq-1", 60)) if t == "quick" else
                        (("kvp", 800), ("kvp3", 800), ("xml", 1000), ("xmlnt", 800), ("xml2", 1000), ("seq0", 600), ("seq+2", 800),
                         ("seq-1", 800))):
        behs, res = _compound.generate(config, num, 6)
        chk.add_tlc(res, "CompoundGen", "simulation of behaviours of the KeyValuePairEdit / XMLElementEdit / FixedLengthSequenceEdit model (%s)" % config)
        for b in behs:
            drift, obs = _compound.replay(b)
            n_pb += 1
            if drift:
                pdrift += 1
                if len(chk.drift) < 8:
                    chk.drift.append("Compound.tla %s: %s (environment %s, operations %s)" % (config, drift[0], obs["env"][:200], obs["ops"]))
            cmp_groups.setdefault((config, obs["env"]), []).append(obs)
    chk.extra["compound_model_behaviours_replayed"] = n_pb
    chk.extra["compound_model_behaviours_with_drift"] = pdrift
    pkeys = sorted(cmp_groups)
    ptraces = [{"ev": [{"ops": o["ops"], "raised": o["raised"], "out": o["out"]} for o in cmp_groups[k]]} for k in pkeys]
    pverdicts, pst = tlc.validate_traces("EditApiTrace", ptraces, constants={"Ops": {"x"}, "MaxOps": 1000, "Results": {"r"}},
                                         name="EditApiTrace-compound")
    chk.add_trace_stats(pst, "EditApiTrace", sum(len(tr["ev"]) for tr in ptraces))
    for i, k in enumerate(pkeys, 1):
        for o in cmp_groups[k]:
            chk.count(("compound", k[0], k[1], tuple(o["ops"])))
        v = pverdicts[i]
        if v["v"] != "ACCEPT":
            o = cmp_groups[k][v["step"] - 1]
            sig = {"clause": v["clause"], "kind": "scripted-compound", "exc": o["exc"].split(":")[0]}
            chk.violation(sig, {"config": k[0], "env": json.loads(k[1]), "ops": o["ops"]},
                          "%s over scripted sub-edits %s: operations %s end with %s %s, the first history with %s" % (
                              "KeyValuePairEdit" if k[0].startswith("kvp") else "FixedLengthSequenceEdit" if k[0].startswith("seq")
                              else "XMLElementEdit", k[1][:300], o["ops"], o["out"], o["exc"],
                              cmp_groups[k][0]["out"]))
    chk.sample({"case": jobs[0][0], "histories": [e for e in results[0][:6]]})
    chk.sample({"case": jobs[-1][0], "histories": [e for e in results[-1][-3:]]})
    chk.rule = ("cases = (pair of documents with nested containers, history) where histories are all sequences over 13 "
                "public operations (6 on the top-level edit, 6 on every nested edit currently reachable) up to length %d "
                "enumerated by TLC plus TLC-simulated ones of length %d, each under a random quiet / colour setting of "
                "the default printer; after each history the edit is completed canonically and (cost, script digest) "
                "compared by TLC with the write-once reference; non-trivial = non-empty history" % (depth_full, sample_len))
    chk.assumptions = ["nested edits are reached through the attributes of edits the client already holds",
                       "the reference result is whatever the canonical completion alone produces"]
    return chk.finish()


def tlc_seed():
    from harness.common import seed
    return seed() + 5


def replay(path):
    with open(path) as f:
        doc = json.load(f)
    rp = doc["replay"]
    corpus._quiet_env()
    chk = Check("C05", "model_checking")
    case = tuple(rp["case"])
    salt = rp.get("salt", 5)
    events = [run_history(case, salt, [], False, True), run_history(case, salt, rp["ops"], rp["quiet"], rp["color"])]
    traces = [{"ev": [{"ops": e["ops"], "raised": e["raised"], "out": e["out"]} for e in events]}]
    verdicts, st = tlc.validate_traces("EditApiTrace", traces, constants={"Ops": {"x"}, "MaxOps": 1000, "Results": {"r"}})
    chk.add_trace_stats(st, "EditApiTrace", 2)
    chk.count("a")
    chk.count("b")
    if verdicts[1]["v"] != "ACCEPT":
        chk.violation({"clause": verdicts[1]["clause"]}, rp, "history %s: %s" % (rp["ops"], events[1]))
    chk.rule = "replay"
    return chk.finish()
