"""Binding of the mechanism model spec/Driver.tla to the driving loops of graphtage.tree:
TreeNode.get_all_edit_contexts (flat view), TreeNode.diff + Edit.on_diff (annotated tree) and
EditedTreeNode.edited_cost.

Driver.tla is deterministic once the environment (one chain of nested intervals per leaf edit; whether the compound
claims to be complete early) is chosen; TLC's exhaustive run prints one end state per environment.  Each environment is
rebuilt out of real objects: a TreeNode subclass whose edits() returns a compound edit (sum of its parts, refines its
first refinable part) over scripted leaf edits attached to the node's children.  The REAL get_all_edit_contexts / diff /
edited_cost are then called and what they hand out is compared with the model: which leaves are yielded, in which order,
every leaf's position at the moment of each yield and at the end, the cost the annotated tree reports and how often
each edit was entered in an edit_list.  MODEL-DRIFT only.
"""
import json

from harness import tlc
from harness.common import MachineryError, use_repo
from props import _coll

use_repo()

_CLS = []


def classes():
    if _CLS:
        return _CLS[0]
    import graphtage
    from graphtage.bounds import Range
    from graphtage.edits import AbstractCompoundEdit
    SNode, ScriptEdit = _coll.script_classes()

    class Top(AbstractCompoundEdit):
        def __init__(self, from_node, to_node, subs, early):
            self.subs = subs
            self.early = early
            super().__init__(from_node=from_node, to_node=to_node)

        def bounds(self):
            lo = sum(int(s.bounds().lower_bound) for s in self.subs)
            hi = sum(int(s.bounds().upper_bound) for s in self.subs)
            return Range(lo, hi)

        def tighten_bounds(self):
            for s in self.subs:
                if s.tighten_bounds():
                    return True
            return False

        def is_complete(self):
            return True if self.early else self.bounds().definitive()

        def edits(self):
            return iter(self.subs)

        def print(self, formatter, printer):
            printer.write("TOP")

    class DNode(graphtage.TreeNode):
        """A container with up to three children held in attributes (so that make_edited copies them)."""
        def __init__(self, n, chains=None, early=False):
            self.n = n
            self.chains = chains
            self.early = early
            self.made = []
            for i in range(n):
                setattr(self, "c%d" % (i + 1), SNode(i + 1, 1))

        def to_obj(self):
            return [getattr(self, "c%d" % (i + 1)).to_obj() for i in range(self.n)]

        def children(self):
            return [getattr(self, "c%d" % (i + 1)) for i in range(self.n)]

        def calculate_total_size(self):
            return self.n

        def print(self, printer):
            printer.write("D")

        def edits(self, node):
            subs = []
            for i, c in enumerate(self.chains):
                e = ScriptEdit(i + 1, c)
                e.from_node = getattr(self, "c%d" % (i + 1))       # the (possibly editable) child of THIS tree
                e.to_node = getattr(node, "c%d" % (i + 1))
                subs.append(e)
            top = Top(self, node, subs, self.early)
            self.made.append(top)
            return top

    _CLS.append((DNode, Top))
    return _CLS[0]


def environments(n, v, early, view):
    cfg = ('SPECIFICATION Spec\nCONSTANTS N = %d V = %d Early = %s View = "%s"\nINVARIANT FlatIsExactlyTheCostlyEdits\n'
           "INVARIANT FlatTotal\nINVARIANT TreeTotal\nINVARIANT AnnotatedOnce\nINVARIANT Emit\nPROPERTY Terminates\nCHECK_DEADLOCK FALSE\n"
           % (n, v, "TRUE" if early else "FALSE", view))
    res = tlc.run_tlc("DriverGen", cfg, workers=1, timeout=900, name="DriverGen", coverage=True)
    out = [x for x in res.printed if isinstance(x, dict) and "chains" in x]
    if not out:
        raise MachineryError("DriverGen printed no environment")
    return out, res


def replay(env):
    from harness.watchdog import Expired, deadline
    DNode, Top = classes()
    chains = [[list(p) for p in c] for c in env["chains"]]
    n = len(chains)
    drift = []
    try:
        with deadline(10.0):
            a, b = DNode(n, chains, env["early"]), DNode(n)
            if env["view"] == "flat":
                got = []
                for ancestors, e in a.get_all_edit_contexts(b):
                    top = a.made[-1]
                    got.append({"leaf": e.idx, "lo": int(e.bounds().lower_bound), "ptr": [s.p + 1 for s in top.subs]})
                want = [{"leaf": y["leaf"], "lo": y["lo"], "ptr": list(y["ptr"])} for y in env["yielded"]]
                top = a.made[-1]
                if got != want:
                    drift.append("flat view hands out %s, the model %s" % (json.dumps(got), json.dumps(want)))
                elif [s.p + 1 for s in top.subs] != list(env["ptr"]):
                    drift.append("flat view leaves the edits at %s, the model at %s" % ([s.p + 1 for s in top.subs], list(env["ptr"])))
            else:
                ret = a.diff(b)
                top = ret.made[-1] if getattr(ret, "made", None) else None
                if top is None or top is not ret.edit:
                    drift.append("the annotated root does not carry the edit that edits() returned")
                else:
                    before = [s.p + 1 for s in top.subs]
                    cost = int(ret.edited_cost())
                    lists = [len(ret.edit_list)] + [len(getattr(ret, "c%d" % (i + 1)).edit_list) for i in range(n)]
                    if cost != env["cost"]:
                        drift.append("edited_cost() = %s, the model %s" % (cost, env["cost"]))
                    elif lists != list(env["lists"]):
                        drift.append("edit_list entries %s, the model %s" % (lists, list(env["lists"])))
                    elif [s.p + 1 for s in top.subs] != list(env["ptr"]):
                        drift.append("tree view leaves the edits at %s (after diff(): %s), the model at %s" % (
                            [s.p + 1 for s in top.subs], before, list(env["ptr"])))
    except Expired:
        drift.append("the real driver did not return (watchdog)")
    except Exception as ex:
        drift.append("the real driver raised %s: %s" % (type(ex).__name__, str(ex)[:120]))
    return drift


def check(chk, tier):
    from harness import corpus
    corpus._quiet_env()          # the real loops draw a progress bar on standard error
    n_env = n_drift = 0
    configs = [(2, 2), (3, 1)] if tier == "quick" else [(2, 2), (3, 2), (2, 3), (1, 3)]
    for n, v in configs:
        for early in (False, True):
            for view in ("flat", "tree"):
                try:
                    envs, res = environments(n, v, early, view)
                except MachineryError as ex:
                    chk.notes.append("Driver.tla (N=%d V=%d) did not finish: %s" % (n, v, str(ex)[:200]))
                    continue
                if not res.completed:
                    chk.drift.append("Driver.tla (N=%d V=%d early=%s %s) violates one of its properties on the model (lead only): %s"
                                     % (n, v, early, view, res.invariant_violated or res.property_violated))
                chk.add_tlc(res, "DriverGen", "L2 model of the driving loops of tree.py (%s view, %d leaf edits over 0..%d, compound %s): "
                            "Terminates, FlatIsExactlyTheCostlyEdits, FlatTotal, TreeTotal, AnnotatedOnce; one end state per environment"
                            % (view, n, v, "complete early" if early else "complete when definitive"))
                for env in envs:
                    d = replay(env)
                    n_env += 1
                    if d:
                        n_drift += 1
                        if len(chk.drift) < 10:
                            chk.drift.append("Driver.tla: %s (environment %s, early=%s)" % (d[0], json.dumps(env["chains"])[:200], early))
    chk.extra["driver_model_environments_replayed"] = n_env
    chk.extra["driver_model_environments_with_drift"] = n_drift
