"""C08 - mappings are unordered, lists are ordered.

spec/Functional.tla: k = (data of both documents, options), v = (total cost, the set of pairings with
their costs, removed items, inserted items - all named by permutation-invariant paths), observed for
every key permutation of the pair (all depths, both documents).  spec/EditScript.tla (C02 clauses):
a document against its key-permuted copy has total cost 0 and nothing marked; swapping two unequal
list elements gives a positive cost.
"""
import itertools
import json
import multiprocessing as mp
import os

from harness import corpus, docs, functional
from harness.common import digest, rng, tier, use_repo
from harness.runner import Check

use_repo()


def node_paths(table):
    """Permutation-invariant path of every node id of a table."""
    rows = table.rows
    paths = {0: ()}
    for i, row in enumerate(rows, 1):
        p = row["parent"]
        pk = rows[p - 1]["kind"] if p else "root"
        if pk in ("map", "mset"):
            label = "k=" + row["key"] if row["kind"] == "kvp" else "e=" + row["ch"]
        else:
            label = str(row["slot"])
        paths[i] = paths[p] + (label,)
    return paths


def canonical_script(trace):
    """(total, canonical multiset of events) of a recorded comparison, named by invariant paths."""
    from harness.project import Table

    class T:
        pass
    ft, tt = T(), T()
    ft.rows, tt.rows = trace["F"], trace["T"]
    fp, tp = node_paths(ft), node_paths(tt)
    items = []
    total = None
    depth = 0
    for e in trace["ev"]:
        if e["e"] in ("keep", "change", "open"):
            items.append((e["e"], fp.get(e["i"], ("?",)), tp.get(e["j"], ("?",)), e.get("c", 0)))
        elif e["e"] == "remove":
            items.append(("remove", fp.get(e["i"], ("?",)), (), e["c"]))
        elif e["e"] == "insert":
            items.append(("insert", (), tp.get(e["j"], ("?",)), e["c"]))
        elif e["e"] == "close":
            total = e["r"]
    return "%s/%s" % (total, digest(sorted(items)))


def permutations_of(doc, r, limit):
    """Key-order variants of a document: all of them when there are few, random ones otherwise."""
    def count(d):
        if isinstance(d, dict):
            n = 1
            for k in range(2, len(d) + 1):
                n *= k
            for v in d.values():
                n *= count(v)
            return n
        if isinstance(d, list):
            n = 1
            for v in d:
                n *= count(v)
            return n
        return 1

    def all_variants(d):
        if isinstance(d, dict):
            keys = list(d)
            sub = [all_variants(d[k]) for k in keys]
            for perm in itertools.permutations(range(len(keys))):
                for combo in itertools.product(*sub):
                    yield {keys[i]: combo[i] for i in perm}
        elif isinstance(d, list):
            for combo in itertools.product(*[all_variants(x) for x in d]):
                yield list(combo)
        else:
            yield d
    if count(doc) <= limit:
        return list(all_variants(doc)), True
    out = [doc]
    seen = {json.dumps(doc)}
    for _ in range(limit * 3):
        v = docs.permute_keys(doc, r)
        k = json.dumps(v)
        if k not in seen:
            seen.add(k)
            out.append(v)
        if len(out) >= limit:
            break
    return out, False


XML_NS = 'xmlns:a="urn:example:vendor-a" xmlns:b="urn:example:vendor-b" xmlns:xsi="http://www.w3.org/2001/XMLSchema-instance"'


def xml_text(items):
    """An XML document <root> of <item> elements; items = [(attribute list in WRITTEN order, text)]."""
    body = "".join("<item %s>%s</item>" % (" ".join('%s="%s"' % kv for kv in attrs), text) for attrs, text in items)
    return "<root %s>%s</root>" % (XML_NS, body)


def _job(args):
    a, b, opts = args
    from harness.flatten import Inconclusive, record_diff
    try:
        if isinstance(a, str):
            import xml.etree.ElementTree as ET
            ta, tb = docs.build_xml(ET.fromstring(a), opts), docs.build_xml(ET.fromstring(b), opts)
        else:
            ta, tb = docs.build(a, opts), docs.build(b, opts)
        trace, _ = record_diff(ta, tb, opts, views=False)
        return {"v": canonical_script(trace), "raised": False, "trace": trace if a is b or len(json.dumps(a)) < 400 else None}
    except Inconclusive as ex:
        return {"v": "", "raised": True, "why": "inconclusive: %s" % ex}
    except Exception as ex:
        return {"v": "", "raised": True, "why": "%s: %s" % (type(ex).__name__, str(ex)[:100])}


def _init():
    corpus._quiet_env()


def run():
    chk = Check("C08", "exploration")
    t = tier()
    n_base, limit = (300, 8) if t == "quick" else (1200, 24)
    r = rng("c08")
    jobs, meta = [], []
    exhaustive_groups = 0
    for gi in range(n_base):
        if gi % 6 == 4:
            # mappings whose keys mix integers, floats and strings (YAML, pickles, Python objects), incl. look-alikes
            # (1 and "1") and key sets whose text order is cyclic with the numeric one (9 < 10 < "5" < 9)
            a, b = docs.random_mixedkeys_docs(r)
        elif gi % 3 == 2:
            # tie-biased: keys that differ only in case or in one letter, values from a tiny pool, so that several
            # pairings have exactly the same cost and only a canonical order can make the choice stable
            pool = r.choice((("k", "K"), ("id", "ID", "Id", "iD"), ("ka", "kb", "kc", "kd"), ("a", "A", "b", "B"), ("xy", "xY", "Xy", "yx")))
            vals = r.choice(((1, 2), ("v", "w"), (True, {}), ([1], [2]), ("bar", "baz", {})))
            def tied(m):
                return {k: r.choice(vals) for k in r.sample(pool, min(len(pool), m))}
            a = tied(r.randint(2, 4))
            b = {r.choice(("c", "zz", "q")): r.choice(vals + ("bar",)) for _ in range(r.randint(1, 2))}
            if r.random() < 0.3:
                a = {"outer": a, "n": 1}
                b = {"outer": b, "n": 1}
            if r.random() < 0.5:
                a, b = b, a
        else:
            a = docs.random_doc(r, depth=r.choice((2, 3)), width=3)
            while not (isinstance(a, dict) or (isinstance(a, list) and any(isinstance(x, dict) for x in a))):
                a = docs.random_doc(r, depth=r.choice((2, 3)), width=3)
            b = docs.mutate(a, r) if r.random() < 0.85 else docs.random_doc(r, depth=2, width=3)
        va, ea = permutations_of(a, r, limit)
        vb, eb = permutations_of(b, r, limit)
        exhaustive_groups += ea and eb
        pairs = list(itertools.product(va, vb))
        if len(pairs) > limit * 2:
            pairs = [pairs[0]] + r.sample(pairs[1:], limit * 2 - 1)
        for opts in (docs.ALL_OPTS[0], docs.ALL_OPTS[3], docs.ALL_OPTS[6]):
            for (x, y) in pairs:
                jobs.append((x, y, opts))
                meta.append((gi, opts["strategy"]))
    # one very large mapping (more than 2048 keys): size-dependent shortcuts must not make the result order-dependent
    big = {"k%04d" % j: j % 7 for j in range(2100)}
    a_big = dict(big, k3=True, x=[2])
    b_big = dict(big, k2=True, j2=None, k1=12)
    def shuffled(d):
        ks = list(d)
        r.shuffle(ks)
        return {k: d[k] for k in ks}

    def extras_first(d, names):
        return dict([(k, d[k]) for k in names] + [(k, v) for k, v in d.items() if k not in names])
    big_pairs = [(a_big, b_big), (a_big, shuffled(b_big)), (shuffled(a_big), b_big), (shuffled(a_big), shuffled(b_big)),
                 (extras_first(a_big, ["x", "k3"]), extras_first(b_big, ["k1", "j2", "k2"])),
                 (extras_first(a_big, ["k3", "x"]), extras_first(b_big, ["j2", "k1", "k2"]))]
    for (x, y) in big_pairs:
        jobs.append((x, y, docs.ALL_OPTS[0]))
        meta.append((n_base, "auto"))
    # mappings whose values SHARE one object (a YAML anchor / alias, a Python object referenced twice) under the list options:
    # which key comes first decides which value is "the first occurrence" - and must decide nothing else
    for si in range(12 if t == "quick" else 60):
        shared = [r.randint(0, 3) for _ in range(r.randint(3, 5))]
        k1, k2 = r.sample(("base", "copy", "a", "zz"), 2)
        d1 = {k1: shared, k2: shared, "n": 1}
        d2 = {"n": 1, k2: shared, k1: shared}
        d3 = {k2: shared, "n": 1, k1: shared}
        other = {k1: shared[1:], k2: list(shared), "n": 1}
        if si % 3 == 2:
            inner = {"l": shared}
            d1, d2, d3 = {k1: inner, k2: inner}, {k2: inner, k1: inner}, {k2: inner, k1: inner, }
            other = {k1: {"l": shared[1:]}, k2: {"l": list(shared)}}
        for opts in (docs.ALL_OPTS[1], docs.ALL_OPTS[2], docs.ALL_OPTS[7], docs.ALL_OPTS[0]):
            for dd in (d1, d2, d3):
                jobs.append((dd, other, opts))
                meta.append((n_base + 5000 + si, "%s/%s" % (opts["strategy"], opts["lists"])))
    # XML attributes are a mapping too: the same elements with their attributes written in every order, incl. attributes of
    # the same LOCAL name in different namespaces (two different names), namespaced next to plain ones, xml: / xsi: ones
    apool = ("id", "name", "a:id", "b:id", "a:name", "xml:lang", "xsi:type", "x", "b:x")
    n_xml = 40 if t == "quick" else 300
    for xi in range(n_xml):
        def items():
            out = []
            for _ in range(r.randint(1, 2)):
                names = r.sample(apool, r.randint(2, 4))
                if xi % 2 == 0 and "a:id" not in names:
                    names = ["a:id", "b:id"] + names[:1]
                out.append(([(n, r.choice(("1", "4", "17", "v"))) for n in names], r.choice(("", "t", "text"))))
            return out
        ia = items()
        ib = [(list(at), tx) for at, tx in ia]
        for at, _ in ib[:1]:
            k = r.randrange(len(at))
            at[k] = (at[k][0], at[k][1] + "0")              # one attribute value changed
        variants_a = [[(list(p), tx) for p, (_, tx) in zip(perm, ia)] for perm in
                      itertools.islice(itertools.product(*[itertools.permutations(at) for at, _ in ia]), 6)]
        variants_b = [[(list(p), tx) for p, (_, tx) in zip(perm, ib)] for perm in
                      itertools.islice(itertools.product(*[itertools.permutations(at) for at, _ in ib]), 6)]
        for opts in (docs.ALL_OPTS[0], docs.ALL_OPTS[6]):
            for va_, vb_ in [(variants_a[0], variants_b[0])] + [(r.choice(variants_a), r.choice(variants_b)) for _ in range(5)]:
                jobs.append((xml_text(va_), xml_text(vb_), opts))
                meta.append((n_base + 1 + xi, opts["strategy"]))
            # and each document against its own re-ordered copy: equal as data
            jobs.append((xml_text(variants_a[0]), xml_text(variants_a[-1]), opts))
            meta.append((n_base + 1000 + xi, opts["strategy"]))
            jobs.append((xml_text(variants_a[-1]), xml_text(variants_a[0]), opts))
            meta.append((n_base + 1000 + xi, opts["strategy"]))
            jobs.append((xml_text(variants_a[0]), xml_text(variants_a[0]), opts))
            meta.append((n_base + 1000 + xi, opts["strategy"]))
    ctx = mp.get_context("fork")
    with ctx.Pool(min(16, os.cpu_count() or 4), initializer=_init, maxtasksperchild=500) as pool:
        results = pool.map(_job, jobs, chunksize=16)
    groups, gmeta = {}, {}
    for job, m, res in zip(jobs, meta, results):
        groups.setdefault(m, []).append({"k": "pair%d|%s" % m, "v": res["v"], "raised": res["raised"],
                                         "how": json.dumps([job[0], job[1]])[:600], "why": res.get("why", "")})
        gmeta[m] = job
    keys = sorted(groups)
    verdicts, st = functional.validate_groups([groups[k] for k in keys], name="C08-perm")
    chk.add_trace_stats(st, "FunctionalTrace", len(jobs))
    for k, v in zip(keys, verdicts):
        for o in groups[k]:
            chk.count((k, o["how"]))
        if v["v"] != "ACCEPT":
            o = groups[k][v["step"] - 1]
            if o["raised"]:
                chk.inconclusive += 1
                continue
            sig = {"clause": v["clause"], "strategy": k[1]}
            chk.violation(sig, {"pair": json.loads(o["how"]) if len(o["how"]) < 600 else o["how"], "reference": groups[k][0]["how"],
                                "strategy": k[1]},
                          "strategy %s: the key order %s gives cost/pairing %s, the order %s gave %s" % (
                              k[1], o["how"][:300], o["v"], groups[k][0]["how"][:300], groups[k][0]["v"]))
    chk.extra["groups_with_all_permutations"] = exhaustive_groups
    chk.sample({"strategy": keys[0][1], "observations": [{"pair": o["how"][:200], "v": o["v"]} for o in groups[keys[0]][:4]]})
    # equal modulo key order => cost 0; swapped unequal list elements => cost > 0 (C02 clauses of EditScript)
    cases = []
    for i in range(200 if t == "quick" else 3000):
        a = docs.random_doc(r, depth=3, width=3)
        if i % 10 == 9:
            # lists whose unequal elements are EMPTY containers of different kinds, empty strings, nulls, zeros
            pool = ([], {}, "", None, 0, False, [[]], [{}], {"k": []}, {"k": {}})
            a = [r.choice(pool) for _ in range(r.randint(2, 4))]
            if r.random() < 0.5:
                a = {"k": a, "n": 1}
        if i % 2 == 0:
            b, how = docs.permute_keys(a, r), "permuted"
        else:
            b, how = None, None
            for path, v in docs._paths(a):
                if isinstance(v, list) and len(v) >= 2:
                    idx = [(p, q) for p in range(len(v)) for q in range(p + 1, len(v)) if v[p] != v[q]]
                    if idx:
                        p, q = r.choice(idx)
                        w = list(v)
                        w[p], w[q] = w[q], w[p]
                        b, how = docs._replace(a, path, w), "swapped"
                        break
            if b is None:
                b, how = docs.permute_keys(a, r), "permuted"
        cases.append(("json", a, b, r.choice(docs.ALL_OPTS), how))
    recs = corpus.record_cases(cases, 8)
    ok = [(c, x) for c, x in zip(cases, recs) if x["status"] == "ok"]
    errs, st = corpus.validate([x["trace"] for _, x in ok])
    chk.add_trace_stats(st, "EditScriptTrace", len(ok))
    for (c, x), e in zip(ok, errs):
        chk.count(("eq", json.dumps(c[1:3]), c[4]))
        v = e["C02"]
        if v["step"]:
            sig = {"clause": v["clause"], "how": c[4]}
            chk.violation(sig, {"case": c}, "%s pair %s: %s" % (c[4], json.dumps(c[1:3])[:300], v["clause"]))
    functional.model_check(chk)
    chk.rule = ("cases = %d base pairs of documents containing mappings x 3 dictionary strategies x key-order variants of "
                "both documents at all depths (all permutations when there are at most %d, random ones otherwise); the "
                "canonical script (cost + pairings/removals/insertions named by key paths) must be one value per base "
                "pair; plus %d pairs 'document vs key-permuted copy' (cost 0) and 'two unequal list elements swapped' "
                "(cost > 0) validated against the C02 clauses of EditScript; distinct by (pair, variant)"
                % (n_base, limit, len(cases)))
    chk.assumptions = ["mapping keys are scalars: strings, and (every sixth base pair) mixed integers / floats / strings",
                       "permutation = Python dict insertion order, which is what every loader hands to the builder"]
    return chk.finish()


def replay(path):
    with open(path) as f:
        doc = json.load(f)
    print("C08 replay: re-running the quick check; original case: %s" % json.dumps(doc["replay"], default=str)[:300])
    return run()
