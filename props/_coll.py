"""Binding of the mechanism model spec/Collection.tla to graphtage.edits.EditSequence (EditCollection).

TLC simulates behaviours of the model (environment = one chain of nested intervals per sub-edit and the
collection's cost_upper_bound; a sequence of public operations with the model's answers and state projection
after each).  Each is replayed on the real class over scripted sub-edits:
  * MODEL-DRIFT: the real answers / the projection of the real object differ from the model's;
  * the executions are further inputs of the L1 checks: C05 (final cost must not depend on the operation
    order) and C04 (the object's exposed intervals obey Bounded.tla).
"""
import json

from harness import tlc
from harness.common import MachineryError, seed, use_repo

use_repo()

CONFIGS = {"2": (2, 2, 1), "3": (3, 2, 1), "1": (1, 3, 2), "2w": (2, 3, 0)}     # name: (NSub, V, Slack)


def generate(config, num, maxops, salt=0):
    n, v, slack = CONFIGS[config]
    cfg = ("SPECIFICATION GenSpec\nCONSTANTS NSub = %d V = %d Slack = %d MaxOps = %d\nINVARIANT Emit\nCHECK_DEADLOCK FALSE\n"
           % (n, v, slack, maxops))
    res = tlc.run_tlc("CollectionGen", cfg, workers=1, timeout=1500, simulate="num=%d" % num, depth=maxops + 1,
                      seed=seed() + 17 + salt, name="CollectionGen")
    seen, out = set(), []
    for x in res.printed:
        if isinstance(x, dict) and "hist" in x:
            k = json.dumps(x, sort_keys=True)
            if k not in seen:
                seen.add(k)
                out.append(x)
    if not out:
        raise MachineryError("CollectionGen produced no behaviour for %s" % config)
    return out, res


def model_check(chk, tier):
    runs = [("2", 5), ("1", 6)] if tier == "quick" else [("2", 7), ("1", 8), ("3", 5), ("2w", 5)]
    for config, ops in runs:
        n, v, slack = CONFIGS[config]
        cfg = ("SPECIFICATION Spec\nCONSTANTS NSub = %d V = %d Slack = %d MaxOps = %d\nINVARIANT FinalInside\n"
               "INVARIANT QuiescentDefinitive\nINVARIANT CacheSound\nPROPERTY NeverWidens\nPROPERTY ProgressShrinks\n"
               "CHECK_DEADLOCK FALSE\n" % (n, v, slack, ops))
        res = tlc.run_tlc("Collection", cfg, workers=16, timeout=1500, name="Collection-mc")
        if not res.completed:
            chk.drift.append("Collection.tla (%s) violates one of its properties on the model (lead only): %s"
                             % (config, res.invariant_violated or res.property_violated))
        chk.add_tlc(res, "Collection", "L2 model of EditCollection, %d sub-edits over 0..%d, all orders of <=%d public operations: "
                    "NeverWidens, FinalInside, ProgressShrinks, QuiescentDefinitive, CacheSound" % (n, v, ops))


_CLASSES = []


def script_classes():
    """(SNode, ScriptEdit): a leaf-like node of a given size and an edit that follows a scripted chain of intervals."""
    if _CLASSES:
        return _CLASSES[0]
    import graphtage
    from graphtage.bounds import Range
    from graphtage.edits import AbstractEdit

    class SNode(graphtage.TreeNode):
        def __init__(self, idx, size):
            self.idx = idx
            self.size = size

        def to_obj(self):
            return self.idx

        def children(self):
            return ()

        def calculate_total_size(self):
            return self.size

        def edits(self, node):
            raise NotImplementedError()

        def print(self, printer):
            printer.write("S%d" % self.idx)

        def __repr__(self):
            return "S%d" % self.idx

    class ScriptEdit(AbstractEdit):
        def __init__(self, idx, chain, early=False):
            self.idx = idx
            self.chain = chain
            self.p = 0
            self.early = early
            super().__init__(from_node=SNode(idx, 0), to_node=SNode(idx, 0))

        def is_complete(self):
            # early: "my shape is final" long before the cost is (as MultiSetEdit once its matching is known)
            return True if self.early else super().is_complete()

        def bounds(self):
            lo, hi = self.chain[self.p]
            return Range(lo, hi)

        def tighten_bounds(self):
            if self.p < len(self.chain) - 1:
                self.p += 1
                return True
            return False

        def print(self, formatter, printer):
            printer.write("E%d" % self.idx)

    _CLASSES.append((SNode, ScriptEdit))
    return _CLASSES[0]


def build(chains, u, early=False):
    """A real EditSequence over scripted sub-edits following `chains`, with cost_upper_bound u; early: the sub-edits claim
    to be complete from the start."""
    from graphtage.edits import EditSequence
    SNode, ScriptEdit = script_classes()
    subs = [ScriptEdit(i + 1, c, early) for i, c in enumerate(chains)]
    # cost_upper_bound = from_node.total_size + 1 (to_node None)
    seq = EditSequence(from_node=SNode(0, u - 1), to_node=None, edits=iter(subs))
    return seq, subs


def projection(seq, subs):
    return {"k": len(seq._sub_edits), "done": seq._edit_iter is None, "cached": seq._cost is not None,
            "ptr": [s.p + 1 for s in subs]}


def replay(beh, early=False):
    """Returns (drift messages, observation {env, ops, out, raised, exc})."""
    from harness.watchdog import Expired, deadline
    drift = []
    ops = [h["op"] for h in beh["hist"]]
    obs = {"env": json.dumps([beh["chains"], beh["U"]]), "ops": ops, "raised": False, "out": "", "exc": ""}
    try:
        with deadline(10.0):
            seq, subs = build(beh["chains"], beh["U"], early)
            for k, h in enumerate(beh["hist"]):
                if h["op"] == "tighten":
                    got = [1 if seq.tighten_bounds() else 0]
                elif h["op"] == "bounds":
                    b = seq.bounds()
                    got = [int(b.lower_bound), int(b.upper_bound)]
                else:
                    list(seq.edits())
                    got = []
                proj = projection(seq, subs)
                want = {"k": h["proj"]["k"], "done": h["proj"]["done"], "cached": h["proj"]["cached"], "ptr": list(h["proj"]["ptr"])}
                if got != list(h["ret"]) and len(drift) < 3:
                    drift.append("step %d %s: model answers %s, code answers %s" % (k + 1, h["op"], list(h["ret"]), got))
                elif proj != want and len(drift) < 3:
                    drift.append("step %d %s: model state %s, code state %s" % (k + 1, h["op"], want, proj))
            n = 0
            while seq.tighten_bounds():
                n += 1
                if n > 10000:
                    raise RuntimeError("does not converge")
            b = seq.bounds()
            obs["out"] = "%s-%s/%s" % (b.lower_bound, b.upper_bound, [e.idx for e in seq.edits()])
            if int(b.lower_bound) != beh["final"] and len(drift) < 3:
                drift.append("final cost: model %s, code %s" % (beh["final"], b.lower_bound))
    except Expired:
        obs["raised"], obs["exc"] = True, "watchdog"
    except Exception as ex:
        obs["raised"], obs["exc"] = True, "%s: %s" % (type(ex).__name__, str(ex)[:100])
    return drift, obs


def bounded_trace(chains, u, edits_first=False, early=False):
    """A BoundedTrace recording ({final, ev}) of a real EditSequence over the environment, driven to quiescence."""
    from harness.watchdog import Expired, deadline
    seq, subs = build(chains, u, early)
    ev = []
    final = sum(c[-1][0] for c in chains)
    try:
        with deadline(10.0):
            if edits_first:
                list(seq.edits())
            b = seq.bounds()
            ev.append({"k": "b", "lo": int(b.lower_bound), "hi": int(b.upper_bound)})
            for _ in range(200):
                r = bool(seq.tighten_bounds())
                ev.append({"k": "t", "r": r})
                b = seq.bounds()
                ev.append({"k": "b", "lo": int(b.lower_bound), "hi": int(b.upper_bound)})
                if not r:
                    break
    except Expired:
        ev.append({"k": "hang"})
    except Exception as ex:
        ev.append({"k": "raise", "in": "collection", "exc": type(ex).__name__})
    return {"final": final, "ev": ev}
