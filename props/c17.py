"""C17 - bound-driven search, ordering and separation are correct.

spec/Selection.tla (L1 contract + schedule space), spec/SelectionGen.tla (TLC enumerates every
tightening schedule within constants), spec/SelectionTrace.tla (trace validation of the outcomes
of the real algorithms), spec/Search.tla (L2 model of IterativeTighteningSearch: TLC checks
correctness and termination over all schedules on the model).
"""
import json
import multiprocessing as mp
import os

from harness import corpus, tlc
from harness.common import MachineryError, rng, tier, use_repo
from harness.runner import Check

use_repo()


def make_items(chains, log=None, falsy=False):
    """Scripted bounded items; falsy: items that are EMPTY containers (len() == 0, so bool(item) is False) - as an edit
    collection without sub-edits is - which nothing in the selection routines may mistake for "no item"."""
    from graphtage.bounds import Range

    class Item:
        __slots__ = ("idx", "chain", "p", "steps")

        def __init__(self, idx, chain):
            self.idx = idx
            self.chain = chain
            self.p = 0
            self.steps = 0

        def bounds(self):
            lo, hi = self.chain[self.p]
            return Range(lo, hi)

        def tighten_bounds(self):
            self.steps += 1
            if log is not None:
                log.append(self.idx)
            if self.p < len(self.chain) - 1:
                self.p += 1
                return True
            return False

        def __repr__(self):
            return "Item%d%s" % (self.idx, self.chain[self.p])

    if falsy:
        class EmptyItem(Item):
            __slots__ = ()

            def __len__(self):
                return 0
        return [EmptyItem(i + 1, c) for i, c in enumerate(chains)]
    return [Item(i + 1, c) for i, c in enumerate(chains)]


def run_schedule(chains, with_search_history=False):
    """Run the four real algorithms on fresh scripted items; returns the events for SelectionTrace."""
    from graphtage import bounds as gb
    from graphtage.bounds import Range
    from graphtage.search import IterativeTighteningSearch
    from harness.watchdog import Expired, deadline
    vmax = max(c[0][1] for c in chains)
    ev = []
    hist = None
    for variant in ("plain", "initial"):
        items = make_items(chains)
        o = {"alg": "search", "variant": variant, "finished": False, "exc": "", "best": 0, "lo": -1, "hi": -1}
        try:
            with deadline(2.0):
                if variant == "plain":
                    s = IterativeTighteningSearch(iter(items))
                else:
                    s = IterativeTighteningSearch(iter(items), initial_bounds=Range(0, vmax))
                if with_search_history and variant == "plain":
                    h = []
                    b = s.bounds()
                    h.append({"k": "b", "lo": enc(b.lower_bound), "hi": enc(b.upper_bound)})
                    n = 0
                    while True:
                        r = s.tighten_bounds()
                        h.append({"k": "t", "r": bool(r)})
                        b = s.bounds()
                        h.append({"k": "b", "lo": enc(b.lower_bound), "hi": enc(b.upper_bound)})
                        n += 1
                        if not r or n > 10000:
                            break
                    hist = h
                    best = s.best_match
                else:
                    best = s.search()
                b = s.bounds()
                o["best"] = getattr(best, "idx", 0)
                o["lo"], o["hi"] = enc(b.lower_bound), enc(b.upper_bound)
                o["finished"] = True
        except Expired:
            pass
        except Exception as ex:
            o["finished"], o["exc"] = True, "%s: %s" % (type(ex).__name__, str(ex)[:100])
        ev.append(o)
    items = make_items(chains)
    o = {"alg": "sort", "finished": False, "exc": "", "order": []}
    try:
        with deadline(2.0):
            o["order"] = [it.idx for it in gb.sort(items)]
            o["finished"] = True
    except Expired:
        pass
    except Exception as ex:
        o["finished"], o["exc"] = True, "%s: %s" % (type(ex).__name__, str(ex)[:100])
    ev.append(o)
    # the same through a one-shot iterator and through a generator (the signature says Iterable)
    for how in ("iterator", "generator"):
        items = make_items(chains)
        o = {"alg": "sort", "finished": False, "exc": "", "order": [], "how": how}
        try:
            with deadline(2.0):
                src = iter(items) if how == "iterator" else (it for it in items)
                o["order"] = [it.idx for it in gb.sort(src)]
                o["finished"] = True
        except Expired:
            pass
        except Exception as ex:
            o["finished"], o["exc"] = True, "%s: %s" % (type(ex).__name__, str(ex)[:100])
        ev.append(o)
    items = make_items(chains)
    o = {"alg": "min", "finished": False, "exc": "", "best": 0}
    try:
        with deadline(2.0):
            o["best"] = getattr(gb.min_bounded(iter(items)), "idx", 0)
            o["finished"] = True
    except Expired:
        pass
    except Exception as ex:
        o["finished"], o["exc"] = True, "%s: %s" % (type(ex).__name__, str(ex)[:100])
    ev.append(o)
    # the same three selections over items that are empty containers (falsy): an item is an item whatever bool() says
    items = make_items(chains, falsy=True)
    o = {"alg": "min", "finished": False, "exc": "", "best": 0, "how": "falsy items"}
    try:
        with deadline(2.0):
            o["best"] = getattr(gb.min_bounded(iter(items)), "idx", 0)
            o["finished"] = True
    except Expired:
        pass
    except Exception as ex:
        o["finished"], o["exc"] = True, "%s: %s" % (type(ex).__name__, str(ex)[:100])
    ev.append(o)
    items = make_items(chains, falsy=True)
    o = {"alg": "sort", "finished": False, "exc": "", "order": [], "how": "falsy items"}
    try:
        with deadline(2.0):
            o["order"] = [it.idx for it in gb.sort(items)]
            o["finished"] = True
    except Expired:
        pass
    except Exception as ex:
        o["finished"], o["exc"] = True, "%s: %s" % (type(ex).__name__, str(ex)[:100])
    ev.append(o)
    items = make_items(chains, falsy=True)
    o = {"alg": "search", "variant": "plain", "finished": False, "exc": "", "best": 0, "lo": -1, "hi": -1, "how": "falsy items"}
    try:
        with deadline(2.0):
            s = IterativeTighteningSearch(iter(items))
            best = s.search()
            b = s.bounds()
            o["best"] = getattr(best, "idx", 0)
            o["lo"], o["hi"] = enc(b.lower_bound), enc(b.upper_bound)
            o["finished"] = True
    except Expired:
        pass
    except Exception as ex:
        o["finished"], o["exc"] = True, "%s: %s" % (type(ex).__name__, str(ex)[:100])
    ev.append(o)
    calls = []
    items = make_items(chains, calls)
    o = {"alg": "distinct", "finished": False, "exc": "", "iv": [list(c[0]) for c in chains], "calls": calls}
    try:
        with deadline(2.0):
            gb.make_distinct(*items)
            o["iv"] = [list(it.chain[it.p]) for it in items]
            o["finished"] = True
    except Expired:
        pass
    except Exception as ex:
        o["finished"], o["exc"] = True, "%s: %s" % (type(ex).__name__, str(ex)[:100])
    ev.append(o)
    return ev, hist


def validate_distinct(recs, name="DistinctTrace"):
    """Recordings [{chain, calls, final}] against the L2 model spec/DistinctTrace.tla.
    Returns (set of accepted 0-based indices, TLC stats)."""
    if not recs:
        return set(), {"generated": 0, "distinct": 0, "runs": 0, "wall": 0.0}
    import os as _os
    from harness.common import scratch
    path = _os.path.join(scratch(), "traces-%s.json" % name)
    with open(path, "w") as f:
        json.dump(recs, f)
    cfg = tlc.cfg_text(spec="TraceSpec", constants={"NItems": 1, "V": 0}, invariants=["Report"])
    res = tlc.run_tlc("DistinctTrace", cfg, workers=1, env={"TRACE_FILE": path}, timeout=1500, name=name)
    if not res.completed:
        raise MachineryError("trace validation with DistinctTrace did not complete:\n%s" % res.out[-2000:])
    _os.unlink(path)
    acc = {x["tid"] - 1 for x in res.printed if isinstance(x, dict) and x.get("v") == "ACCEPT"}
    return acc, {"generated": res.generated, "distinct": res.distinct, "runs": 1, "wall": res.wall}


def enc(v):
    from graphtage.bounds import Infinity
    if isinstance(v, Infinity):
        return 2 ** 30 if v.positive else -(2 ** 30)
    return int(v)


_hangs = [0]


def _job(chains):
    # a worker that has already seen several non-terminating runs stops executing further schedules:
    # the violation is established, the remaining schedules are counted as not explored
    if _hangs[0] >= 3:
        return None
    ev = run_schedule(chains)[0]
    if any(not e["finished"] for e in ev):
        _hangs[0] += 1
    return ev


def _init():
    corpus._quiet_env()


def random_schedules(r, n):
    out = []
    for _ in range(n):
        k = r.choice((1, 2, 3, 4, 5, 6, 8))
        vmax = r.choice((1, 2, 3, 6, 12, 40))
        chains = []
        for _ in range(k):
            lo, hi = sorted((r.randint(0, vmax), r.randint(0, vmax)))
            fin = r.randint(lo, hi)
            c = [[lo, hi]]
            mode = r.choice(("unit", "lower-first", "upper-first", "jump", "mixed"))
            while lo < hi:
                if mode == "unit":
                    if lo < fin and (hi == fin or r.random() < 0.5):
                        lo += 1
                    else:
                        hi -= 1
                elif mode == "lower-first":
                    if lo < fin:
                        lo += r.randint(1, fin - lo)
                    else:
                        hi -= r.randint(1, hi - fin)
                elif mode == "upper-first":
                    if hi > fin:
                        hi -= r.randint(1, hi - fin)
                    else:
                        lo += r.randint(1, fin - lo)
                elif mode == "jump":
                    lo = hi = fin
                else:
                    nl, nh = r.randint(lo, fin), r.randint(fin, hi)
                    if (nl, nh) == (lo, hi):
                        continue
                    lo, hi = nl, nh
                c.append([lo, hi])
            chains.append(c)
        out.append(chains)
    return out


def run():
    chk = Check("C17", "model_checking")
    t = tier()
    domains = [(2, 2), (3, 2), (2, 3), (4, 1)] if t == "quick" else [(2, 2), (3, 2), (2, 3), (4, 1), (3, 3), (4, 2)]
    # L2 model of the search: correctness + termination for all schedules on the model
    for n, v in ([(2, 2), (3, 2)] if t == "quick" else [(2, 3), (3, 3)]):
        cfg = "SPECIFICATION Spec\nCONSTANTS NItems = %d V = %d\nINVARIANT Correct\nPROPERTY Terminates\nCHECK_DEADLOCK FALSE\n" % (n, v)
        res = tlc.run_tlc("Search", cfg, workers=16, timeout=1500, name="Search-mc")
        if not res.completed:
            chk.drift.append("Search.tla (N=%d,V=%d) reports a counterexample on the model; lead only" % (n, v))
        chk.add_tlc(res, "Search", "L2 model of IterativeTighteningSearch, all schedules N=%d V=0..%d: Correct + Terminates" % (n, v))
    for n, v in ([(3, 2)] if t == "quick" else [(3, 3), (4, 2)]):
        cfg = ("SPECIFICATION Spec\nCONSTANTS NItems = %d V = %d\nINVARIANT Separated\nINVARIANT TreeFresh\nPROPERTY Terminates\n"
               "CHECK_DEADLOCK FALSE\n" % (n, v))
        res = tlc.run_tlc("Distinct", cfg, workers=16, timeout=1500, name="Distinct-mc")
        if not res.completed:
            chk.drift.append("Distinct.tla (N=%d,V=%d) reports a counterexample on the model; lead only" % (n, v))
        chk.add_tlc(res, "Distinct", "L2 model of make_distinct, all schedules and all choices of biggest/second N=%d V=0..%d: "
                    "Separated + TreeFresh + Terminates" % (n, v))
    schedules = []
    for n, v in domains:
        cfg = tlc.cfg_text(spec="GenSpec", constants={"NItems": n, "V": v}, invariants=["Emit"])
        res = tlc.run_tlc("SelectionGen", cfg, workers=1, timeout=1500, name="SelectionGen")
        got = [s for s in res.printed if isinstance(s, list)]
        if not got:
            raise MachineryError("schedule generator produced nothing for N=%d V=%d" % (n, v))
        chk.add_tlc(res, "SelectionGen", "all %d schedules for %d items over values 0..%d" % (len(got), n, v))
        schedules += got
    chk.exhaustive = True
    chk.extra["schedules_enumerated_by_tlc"] = len(schedules)
    rnd = random_schedules(rng("c17"), 1500 if t == "quick" else 20000)
    schedules += rnd
    ctx = mp.get_context("fork")
    with ctx.Pool(min(16, os.cpu_count() or 4), initializer=_init, maxtasksperchild=5000) as pool:
        results = pool.map(_job, schedules, chunksize=64)
    skipped = sum(1 for ev in results if ev is None)
    chk.inconclusive += skipped
    schedules = [ch for ch, ev in zip(schedules, results) if ev is not None]
    results = [ev for ev in results if ev is not None]
    traces = [{"chain": ch, "ev": ev} for ch, ev in zip(schedules, results)]
    shards = 8
    from concurrent.futures import ThreadPoolExecutor
    parts = [list(range(len(traces)))[k::shards] for k in range(shards)]

    def job(k):
        return tlc.validate_traces("SelectionTrace", [traces[i] for i in parts[k]],
                                   constants={"NItems": 1, "V": 0}, name="SelT-%d" % k)
    with ThreadPoolExecutor(max_workers=shards) as ex:
        res = list(ex.map(job, range(shards)))
    for k, (verdicts, st) in enumerate(res):
        chk.add_trace_stats(st, "SelectionTrace", len(parts[k]))
        for pos, i in enumerate(parts[k], 1):
            ch = schedules[i]
            chk.count(json.dumps(ch), nontrivial=len(ch) > 1 and any(len(c) > 1 for c in ch))
            v = verdicts[pos]
            if v["v"] == "ACCEPT":
                continue
            if v["clause"].startswith("machinery:"):
                raise MachineryError(v["clause"])
            e = traces[i]["ev"][v["step"] - 1]
            sig = {"clause": v["clause"], "alg": e["alg"]}
            chk.violation(sig, {"chains": ch}, "schedule %s: %s breaks clause '%s' (outcome %s)" % (
                json.dumps(ch), e["alg"], v["clause"], json.dumps(e)))
    # L2 binding: the order in which the real make_distinct tightened its items must be a behaviour of Distinct.tla
    drecs, didx = [], []
    for i, ev in enumerate(results):
        d = ev[-1]
        if d["alg"] == "distinct" and d["finished"] and not d["exc"]:
            drecs.append({"chain": schedules[i], "calls": d["calls"], "final": d["iv"]})
            didx.append(i)
    dparts = [list(range(len(drecs)))[k::shards] for k in range(shards)]
    with ThreadPoolExecutor(max_workers=shards) as ex:
        dres = list(ex.map(lambda k: validate_distinct([drecs[j] for j in dparts[k]], "DistT-%d" % k), range(shards)))
    unexplained = 0
    for k, (acc, st) in enumerate(dres):
        chk.add_trace_stats(st, "DistinctTrace", len(dparts[k]))
        for pos, j in enumerate(dparts[k]):
            if pos not in acc:
                unexplained += 1
                if unexplained <= 3:
                    chk.drift.append("make_distinct on %s tightened items in the order %s and ended on %s: not a behaviour of "
                                     "Distinct.tla" % (json.dumps(drecs[j]["chain"]), drecs[j]["calls"], drecs[j]["final"]))
    chk.extra["make_distinct_runs_explained_by_Distinct_tla"] = "%d of %d" % (len(drecs) - unexplained, len(drecs))
    chk.sample({"schedule": schedules[len(schedules) // 3], "outcomes": results[len(schedules) // 3]})
    chk.sample({"schedule": schedules[-1], "outcomes": results[-1]})
    chk.rule = ("cases = tightening schedules (item -> chain of strictly nested intervals ending in a point): all schedules "
                "for (items, max value) in %s enumerated by TLC, plus random schedules with up to 8 items (unit steps, "
                "one-sided convergence, jumps, ties); on each the real search (with and without initial bounds), sort, "
                "min_bounded and make_distinct run on fresh scripted items; distinct by schedule; non-trivial = at least "
                "two items and one item that is not definitive from the start" % (domains,))
    chk.assumptions = ["scripted items are honest: each step moves exactly one link down a chain of nested intervals",
                       "initial bounds handed to the search are correct ([0, max value])"]
    return chk.finish()


def replay(path):
    with open(path) as f:
        doc = json.load(f)
    corpus._quiet_env()
    ch = doc["replay"]["chains"]
    chk = Check("C17", "model_checking")
    ev, _ = run_schedule(ch)
    verdicts, st = tlc.validate_traces("SelectionTrace", [{"chain": ch, "ev": ev}], constants={"NItems": 1, "V": 0})
    chk.add_trace_stats(st, "SelectionTrace", 1)
    chk.count("a")
    chk.count("b")
    if verdicts[1]["v"] != "ACCEPT":
        chk.violation({"clause": verdicts[1]["clause"]}, doc["replay"], "clause '%s': %s" % (verdicts[1]["clause"], json.dumps(ev)))
    chk.rule = "replay"
    return chk.finish()
