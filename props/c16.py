"""C16 - the priority queue always yields a minimum.

Specification: spec/PQ.tla (L1 contract), spec/PQGen.tla (behaviour generator), spec/PQTrace.tla
(trace validation), spec/FibHeap.tla (L2 structure model, drift/generator only).

spec -> code: TLC enumerates every behaviour of PQ up to a length bound (and simulates long ones);
each is replayed on the real FibonacciHeap and MaxFibonacciHeap.
code -> spec: what the real heap returned at every step is recorded and validated by TLC against
PQTrace; a step PQ does not allow is a violation.
"""
import json

from harness import tlc
from harness.common import MachineryError, rng, seed, tier, use_repo
from harness.runner import Check
from harness.watchdog import Expired, deadline

use_repo()

KEYS = {0, 1, 2}


class Item:
    __slots__ = ("id", "k")

    def __init__(self, id_, k):
        self.id = id_
        self.k = k

    def __repr__(self):
        return "Item(%d,%d)" % (self.id, self.k)


_cascades = [0]
_probe = [False]


def install_cascade_probe():
    """Coverage probe (outside wrap, no verdict): count cascading cuts through a marked node in the real heap."""
    if _probe[0]:
        return
    from graphtage import fibonacci as fb
    orig = fb.FibonacciHeap._cascading_cut

    def _cascading_cut(self, y):
        if y.parent is not None and y.mark:
            _cascades[0] += 1
        return orig(self, y)
    fb.FibonacciHeap._cascading_cut = _cascading_cut
    _probe[0] = True


def _heap(maxheap):
    from graphtage.fibonacci import FibonacciHeap, MaxFibonacciHeap
    if maxheap:
        return MaxFibonacciHeap(key=lambda it: it.k)
    return FibonacciHeap(key=lambda it: it.k)


def _plain_key(node, maxheap):
    """The plain integer key of a heap node (a max-heap wraps keys in ReversedComparator; however often it did so, the
    observation is the integer inside, or -1 if there is none)."""
    k = node.key
    for _ in range(8):
        if isinstance(k, int):
            return k
        k = getattr(k, "key", None)
    return k if isinstance(k, int) else -1


def execute(ops, maxheap, follow=None):
    """Run abstract operations on a real heap and record what it did.

    ops: list of dicts with op in push/pop/peek/dec/rem (+ id/key where needed).
    Returns (trace, diverged) - `diverged` when the heap legally chose another minimum than the
    generated behaviour did (the sibling behaviour covers that choice)."""
    from graphtage.fibonacci import ReversedComparator
    from harness.watchdog import patient
    state = {}

    def attempt():
        state.clear()
        state.update(heap=_heap(maxheap), nodes={}, live=set(), trace=[], next_id=1, diverged=False)
        return _execute_body(ops, maxheap, state, ReversedComparator)
    try:
        patient(attempt, 5.0, long_budget=30.0)
    except Expired:
        state["trace"].append({"op": "raise", "exc": "watchdog: operation did not terminate"})
    except MachineryError:
        raise
    except Exception as ex:  # the code under test raised: a recorded event, judged by the specification
        state["trace"].append({"op": "raise", "exc": "%s: %s" % (type(ex).__name__, str(ex)[:200])})
    return state["trace"], state["diverged"]


def _execute_body(ops, maxheap, state, ReversedComparator):
    heap, nodes, live, trace = state["heap"], state["nodes"], state["live"], state["trace"]
    next_id = 1
    if True:
        if True:
            for o in ops:
                op = o["op"]
                if op in ("dec", "rem", "baddec") and o["id"] not in live:
                    # the heap legally popped another one of several equal minima than the generated behaviour
                    # assumed: the target is gone, the rest of the behaviour does not apply to this execution
                    state["diverged"] = True
                    break
                if op == "push":
                    it = Item(next_id, o["key"])
                    nodes[next_id] = heap.push(it)
                    live.add(next_id)
                    trace.append({"op": "push", "id": next_id, "key": o["key"], "len": len(heap), "truth": bool(heap)})
                    next_id += 1
                elif op in ("pop", "peek"):
                    it = heap.pop() if op == "pop" else heap.peek()
                    nid = getattr(it, "id", -1)
                    node = nodes.get(nid)
                    key = _plain_key(node, maxheap) if node is not None else -1
                    trace.append({"op": op, "id": nid, "key": key, "len": len(heap), "truth": bool(heap)})
                    if op == "pop":
                        live.discard(nid)
                    if "id" in o and o["id"] != nid:
                        state["diverged"] = True
                        break
                elif op == "dec":
                    node = nodes[o["id"]]
                    heap.decrease_key(node, ReversedComparator(o["key"]) if maxheap else o["key"])
                    trace.append({"op": "dec", "id": o["id"], "key": o["key"], "len": len(heap), "truth": bool(heap)})
                elif op == "baddec":
                    node = nodes[o["id"]]
                    refused = False
                    try:
                        heap.decrease_key(node, ReversedComparator(o["key"]) if maxheap else o["key"])
                    except ValueError:
                        refused = True
                    trace.append({"op": "baddec", "id": o["id"], "key": o["key"], "len": len(heap), "truth": bool(heap),
                                  "refused": refused})
                elif op == "clear":
                    heap.clear()
                    live.clear()
                    trace.append({"op": "clear", "len": len(heap), "truth": bool(heap)})
                elif op == "rem":
                    node = nodes[o["id"]]
                    heap.remove(node)
                    live.discard(o["id"])
                    trace.append({"op": "rem", "id": o["id"], "key": _plain_key(node, maxheap), "len": len(heap),
                                  "truth": bool(heap)})
                else:
                    raise MachineryError("unknown op %r" % (op,))


def run_program_adaptive(r, length, keys, maxheap):
    """Random long run where each next operation is chosen against the heap's own current contents."""
    from graphtage.fibonacci import ReversedComparator
    heap = _heap(maxheap)
    nodes, livekeys, trace = {}, {}, []
    nid = 1
    try:
        with deadline(20.0):
            for _ in range(length):
                c = r.random()
                if r.random() < 0.04:
                    heap.clear()
                    livekeys.clear()
                    trace.append({"op": "clear", "len": len(heap), "truth": bool(heap)})
                    continue
                if livekeys and r.random() < 0.06:
                    i = r.choice(sorted(livekeys))
                    worse = [k for k in keys if (k < livekeys[i] if maxheap else k > livekeys[i])]
                    if worse:
                        k = r.choice(worse)
                        refused = False
                        try:
                            heap.decrease_key(nodes[i], ReversedComparator(k) if maxheap else k)
                        except ValueError:
                            refused = True
                        trace.append({"op": "baddec", "id": i, "key": k, "len": len(heap), "truth": bool(heap), "refused": refused})
                        continue
                if not livekeys or c < 0.38:
                    k = r.choice(keys)
                    nodes[nid] = heap.push(Item(nid, k))
                    livekeys[nid] = k
                    trace.append({"op": "push", "id": nid, "key": k, "len": len(heap), "truth": bool(heap)})
                    nid += 1
                elif c < 0.58:
                    it = heap.pop()
                    i = getattr(it, "id", -1)
                    key = _plain_key(nodes[i], maxheap) if i in nodes else -1
                    trace.append({"op": "pop", "id": i, "key": key, "len": len(heap), "truth": bool(heap)})
                    if i not in livekeys:
                        break
                    del livekeys[i]
                elif c < 0.66:
                    it = heap.peek()
                    i = getattr(it, "id", -1)
                    key = _plain_key(nodes[i], maxheap) if i in nodes else -1
                    trace.append({"op": "peek", "id": i, "key": key, "len": len(heap), "truth": bool(heap)})
                elif c < 0.86:
                    i = r.choice(sorted(livekeys))
                    cur = livekeys[i]
                    cands = [k for k in keys if (k >= cur if maxheap else k <= cur)]
                    k = r.choice(cands)
                    heap.decrease_key(nodes[i], ReversedComparator(k) if maxheap else k)
                    livekeys[i] = k
                    trace.append({"op": "dec", "id": i, "key": k, "len": len(heap), "truth": bool(heap)})
                else:
                    i = r.choice(sorted(livekeys))
                    heap.remove(nodes[i])
                    trace.append({"op": "rem", "id": i, "key": livekeys[i], "len": len(heap), "truth": bool(heap)})
                    del livekeys[i]
    except Expired:
        trace.append({"op": "raise", "exc": "watchdog: operation did not terminate"})
    except Exception as ex:
        trace.append({"op": "raise", "exc": "%s: %s" % (type(ex).__name__, str(ex)[:200])})
    return trace


def run_program_thinning(r, n_items, maxheap):
    """Directed run suggested by the mechanism model: a tree keeps its degree when only grandchildren (and deeper
    nodes) are cut, one per parent, so its size can fall far below 2^degree - the regime in which any bound on
    root degrees derived from the heap size matters.  Push n items, pop once (consolidation), then remove non-root
    nodes whose parent is unmarked and is not a root, as long as there are any; then drain with pops."""
    from graphtage.fibonacci import ReversedComparator  # noqa
    heap = _heap(maxheap)
    nodes, trace = {}, []
    try:
        with deadline(20.0):
            for i in range(1, n_items + 1):
                k = (n_items - i) if maxheap else i
                nodes[i] = heap.push(Item(i, k))
                trace.append({"op": "push", "id": i, "key": k, "len": len(heap), "truth": bool(heap)})
            live = set(nodes)

            def pop():
                it = heap.pop()
                i = getattr(it, "id", -1)
                key = _plain_key(nodes[i], maxheap) if i in nodes else -1
                trace.append({"op": "pop", "id": i, "key": key, "len": len(heap), "truth": bool(heap)})
                live.discard(i)
            pop()
            def big_root():
                best = None
                for i in live:
                    nd = nodes[i]
                    if nd.parent is None and (best is None or nd.degree > best.degree):
                        best = nd
                return best

            def keeps_degree(nd, root):
                """Would removing nd (with its cascading cuts) leave every child of `root` in place?"""
                if nd is root or nd.parent is None:
                    return False
                x, y = nd, nd.parent
                while True:
                    if y is root:
                        return False          # x would be cut from the root
                    if y.parent is None or not y.mark:
                        return True           # the chain stops here (y is a root or only gets marked)
                    x, y = y, y.parent        # y is marked: it is cut from its parent as well
            while True:
                root = big_root()
                if root is None or root.degree < 3:
                    break
                cands = [i for i in sorted(live) if keeps_degree(nodes[i], root)]
                if not cands:
                    break
                leaves = [i for i in cands if nodes[i].child is None]
                pool = leaves or cands
                i = pool[-1] if r.random() < 0.7 else r.choice(pool)
                key = _plain_key(nodes[i], maxheap)
                heap.remove(nodes[i])
                live.discard(i)
                trace.append({"op": "rem", "id": i, "key": key, "len": len(heap), "truth": bool(heap)})
            while live:
                pop()
    except Expired:
        trace.append({"op": "raise", "exc": "watchdog: operation did not terminate"})
    except Exception as ex:
        trace.append({"op": "raise", "exc": "%s: %s" % (type(ex).__name__, str(ex)[:200])})
    return trace


def helper_traces(r, n_cases):
    """utils.smallest / utils.largest expressed as PQ histories: push everything, then the results as pops.

    The helpers promise the n extreme items, not an order (they return short inputs unsorted), so the
    results are fed to the specification in rank order."""
    from graphtage.utils import largest, smallest
    out = []
    for _ in range(n_cases):
        seq = [r.randint(0, 4) for _ in range(r.randint(0, 7))]
        n = r.randint(0, 8)
        for maxheap, fn in ((False, smallest), (True, largest)):
            form = r.randint(0, 1)
            try:
                from harness.watchdog import patient
                res = patient(lambda: list(fn(seq, n=n)) if form == 0 or not seq else list(fn(*seq, n=n)) if len(seq) > 1 else list(fn(seq, n=n)),
                              3.0, long_budget=30.0)
            except Expired:
                res = None
            except Exception as ex:
                out.append((maxheap, [{"op": "raise", "exc": "%s: %s" % (type(ex).__name__, ex)}],
                            {"helper": fn.__name__, "seq": seq, "n": n}))
                continue
            trace = []
            for i, k in enumerate(seq):
                trace.append({"op": "push", "id": i + 1, "key": k, "len": i + 1, "truth": True})
            if res is None:
                trace.append({"op": "raise", "exc": "watchdog"})
            else:
                want = min(n, len(seq))
                if len(res) != want:
                    trace.append({"op": "raise", "exc": "helper returned %d items, %d expected" % (len(res), want)})
                else:
                    unused = {i + 1: k for i, k in enumerate(seq)}
                    for k in sorted(res, reverse=maxheap):
                        ids = [i for i, kk in sorted(unused.items()) if kk == k]
                        i = ids[0] if ids else -1
                        unused.pop(i, None)
                        trace.append({"op": "pop", "id": i, "key": k, "len": len(unused), "truth": len(unused) > 0})
            out.append((maxheap, trace, {"helper": fn.__name__, "seq": seq, "n": n}))
    return out


def _validate(chk, batches):
    """batches: {maxheap: [(trace, origin)]} -> violations recorded on chk."""
    for maxheap, items in batches.items():
        if not items:
            continue
        traces = [t for t, _ in items]
        verdicts, stats = tlc.validate_traces(
            "PQTrace", traces, constants={"Keys": {0}, "MaxLive": 1000000, "MaxOps": 1000000, "MaxHeap": maxheap},
            name="PQTrace-%s" % ("max" if maxheap else "min"), chunk=20000)
        chk.add_trace_stats(stats, "PQTrace", len(traces))
        for i, (trace, origin) in enumerate(items, 1):
            v = verdicts[i]
            if v["v"] == "ACCEPT":
                continue
            if v["clause"].startswith("machinery:"):
                raise MachineryError("trace %r rejected by a machinery clause %s at step %d"
                                     % (origin, v["clause"], v["step"]))
            step = v["step"]
            sig = {"heap": "max" if maxheap else "min", "clause": v["clause"]}
            msg = "%s heap: step %d of %s breaks clause '%s' (event %s)" % (
                "max" if maxheap else "min", step, json.dumps(origin)[:300], v["clause"],
                json.dumps(trace[step - 1]) if 0 < step <= len(trace) else "?")
            chk.violation(sig, {"maxheap": maxheap, "origin": origin, "trace": trace}, msg)


def run():
    chk = Check("C16", "model_checking")
    t = tier()
    depth = 5 if t == "quick" else 6
    sim_n, sim_depth = (300, 40) if t == "quick" else (3000, 60)
    rand_n, rand_len = (200, 150) if t == "quick" else (2000, 400)
    consts = {"Keys": KEYS, "MaxLive": 3, "MaxOps": depth, "MaxHeap": False}

    # 1. the design: PQ satisfies its observations for both orientations (TLC, exhaustive within constants)
    for mh in (False, True):
        c = dict(consts, MaxHeap=mh, MaxLive=4, MaxOps=depth + 1)
        res = tlc.run_tlc("PQ", tlc.cfg_text(constants=c, invariants=["LenOK", "MinOK"]), name="PQ-mc")
        chk.model_violation_must_hold(res, "PQ", "LenOK, MinOK")
        chk.add_tlc(res, "PQ", "model check LenOK/MinOK, MaxHeap=%s, keys 0..2, <=4 live, %d ops" % (mh, depth + 1))

    # 2. spec -> code: every behaviour of PQ of length `depth`, replayed on both real heaps
    batches = {False: [], True: []}
    for mh in (False, True):
        res = tlc.run_tlc("PQGen", tlc.cfg_text(spec="GenSpec", constants=dict(consts, MaxHeap=mh),
                                                invariants=["Emit"]), workers=1, name="PQGen")
        chk.model_violation_must_hold(res, "PQGen", "behaviour enumeration")
        chk.add_tlc(res, "PQGen", "enumeration of all behaviours of length %d, MaxHeap=%s" % (depth, mh))
        behaviours = res.printed
        if not behaviours:
            raise MachineryError("PQGen produced no behaviours")
        chk.extra.setdefault("behaviours_enumerated", 0)
        chk.extra["behaviours_enumerated"] += len(behaviours)
        diverged = 0
        for b in behaviours:
            trace, div = execute(b, mh)
            diverged += div
            chk.count(("gen", mh, json.dumps(b, sort_keys=True)),
                      nontrivial=any(o["op"] in ("pop", "rem", "dec") for o in b))
            batches[mh].append((trace, {"kind": "enumerated", "ops": b}))
        chk.extra["tie_diverged_%s" % ("max" if mh else "min")] = diverged
        chk.sample({"kind": "enumerated behaviour", "maxheap": mh, "ops": behaviours[len(behaviours) // 2],
                    "recorded": batches[mh][len(behaviours) // 2][0]})
    chk.exhaustive = True

    # 3. long TLC-simulated behaviours (duplicates, up to 8 live items)
    for mh in (False, True):
        c = {"Keys": {0, 1, 2, 3}, "MaxLive": 8, "MaxOps": sim_depth, "MaxHeap": mh}
        res = tlc.run_tlc("PQGen", tlc.cfg_text(spec="GenSpec", constants=c, invariants=["Emit"]), workers=1,
                          simulate="num=%d" % sim_n, depth=sim_depth + 1, seed=seed() + 17, name="PQGen-sim")
        behaviours = res.printed
        chk.add_tlc(res, "PQGen", "simulation of %d behaviours of length %d, MaxHeap=%s" % (sim_n, sim_depth, mh))
        for b in behaviours:
            # follow the code's choice among equal minima: re-target later operations is impossible, so cut there
            trace, div = execute(b, mh)
            chk.count(("sim", mh, json.dumps(b, sort_keys=True)))
            batches[mh].append((trace, {"kind": "simulated", "ops": b}))

    # 3b. directed behaviours from the mechanism model FibHeap.tla: consolidation of 5..9 items followed by cuts that
    #     cascade through a marked node (12+ operations, out of reach of blind enumeration)
    cfg = ("SPECIFICATION Spec\nCONSTANTS Keys = {0,1,2} MaxNodes = 4 MaxOps = %d\nINVARIANT SizeOK\nINVARIANT RootsOK\n"
           "INVARIANT ParentsOK\nINVARIANT NoDeletedInside\nINVARIANT HeapOrder\nINVARIANT MinOK\nPROPERTY PopReturnsMin\n"
           "CHECK_DEADLOCK FALSE\n" % (6 if t == "quick" else 7))
    res = tlc.run_tlc("FibHeap", cfg, workers=16, timeout=1500, name="FibHeap-mc")
    if not res.completed:
        chk.drift.append("FibHeap.tla violates one of its structural invariants on the model (lead only)")
    chk.add_tlc(res, "FibHeap", "L2 mechanism model: structural invariants + pop returns a minimum, all behaviours")
    cfg = ("SPECIFICATION GenSpec\nCONSTANTS Keys = {0,1,2} MaxNodes = 9 MaxOps = 99 PushKeys = %s TailOps = %d\n"
           "INVARIANT Emit\nCHECK_DEADLOCK FALSE\n" % (("{1}", 3) if t == "quick" else ("{1,2}", 3)))
    res = tlc.run_tlc("FibHeapGen", cfg, workers=1, timeout=3000, name="FibHeapGen")
    directed = [x["h"] for x in res.printed if isinstance(x, dict) and "h" in x]
    chk.add_tlc(res, "FibHeapGen", "directed generation: %d behaviours ending in a cascading cut" % len(directed))
    chk.extra["directed_cascading_cut_behaviours"] = len(directed)
    if not directed:
        chk.drift.append("FibHeapGen produced no behaviour with a cascading cut")
    install_cascade_probe()
    before = _cascades[0]
    for b in directed:
        for mh in (False, True):
            ops = [dict(o, key=(2 - o["key"])) if (mh and "key" in o) else o for o in b]
            trace, div = execute(ops, mh)
            chk.count(("directed", mh, json.dumps(b, sort_keys=True)))
            batches[mh].append((trace, {"kind": "enumerated", "ops": ops}))
    chk.extra["cascading_cuts_observed_in_the_real_heap_on_directed_behaviours"] = _cascades[0] - before
    if directed and _cascades[0] == before:
        chk.drift.append("no directed behaviour made the real heap perform a cascading cut: FibHeap.tla has drifted")
    if directed:
        chk.sample({"kind": "directed behaviour (cascading cut)", "ops": directed[0]})

    # 4. long adaptive random runs with duplicates, chosen against the heap's own state
    r = rng("c16")
    for i in range(rand_n):
        mh = bool(i % 2)
        keys = list(range(r.choice([2, 3, 6, 50])))
        trace = run_program_adaptive(r, rand_len, keys, mh)
        chk.count(("rand", i, mh, len(trace)))
        batches[mh].append((trace, {"kind": "random", "index": i, "keys": len(keys)}))
    chk.sample({"kind": "random run (first 12 events)", "events": batches[False][-1][0][:12]})

    # 4b. thinning runs (directed by the structure of the real heap: degree kept, size shrunk)
    for n_items in ((9, 17, 33, 34, 40, 65) if t == "quick" else (9, 17, 33, 34, 40, 65, 66, 100, 129, 130, 200, 257)):
        for mh in (False, True):
            trace = run_program_thinning(r, n_items, mh)
            chk.count(("thin", n_items, mh))
            batches[mh].append((trace, {"kind": "thinning", "items": n_items}))

    # 5. smallest / largest helpers
    for mh, trace, origin in helper_traces(rng("c16h"), 150 if t == "quick" else 1500):
        chk.count(("helper", json.dumps(origin, sort_keys=True)))
        batches[mh].append((trace, dict(origin, kind="helper")))

    _validate(chk, batches)
    chk.rule = ("cases = TLC-enumerated PQ behaviours of length %d over keys 0..2 (<=3 live) on min- and max-heap, "
                "TLC-simulated behaviours of length %d, adaptive random runs of length %d, smallest/largest calls; "
                "distinct by operation sequence; non-trivial = contains at least one pop/remove/decrease"
                % (depth, sim_depth, rand_len))
    chk.assumptions = ["documented preconditions respected by the generator: pop/peek on non-empty heap, "
                       "decrease_key to a not-larger key, remove of a live node",
                       "ids are assigned in push order by the driver; keys are read from the heap's own nodes"]
    return chk.finish()


def replay(path):
    with open(path) as f:
        doc = json.load(f)
    rp = doc["replay"]
    origin = rp["origin"]
    chk = Check("C16", "model_checking")
    if origin.get("kind") in ("enumerated", "simulated"):
        trace, _ = execute(origin["ops"], rp["maxheap"])
    else:
        trace = rp["trace"]
    _validate(chk, {rp["maxheap"]: [(trace, origin)]})
    chk.rule = "replay of %s" % path
    chk.count("replay")
    chk.count("replay2")
    return chk.finish()
