"""C15 - minimum-weight assignment is valid and optimal.

spec/Assign.tla (contract; optimum by brute force over injections, evaluated by TLC; TLC also checks
that a brute-force solver satisfies the contract), spec/AssignGen.tla (TLC enumerates every small
table), spec/AssignTrace.tla (trace validation of the real min_weight_bipartite_matching).
"""
import json
import multiprocessing as mp
import os

from harness import corpus, tlc
from harness.common import MachineryError, rng, tier, use_repo
from harness.runner import Check

use_repo()

BASES = [0, 2 ** 8 - 2, 2 ** 16 - 2, 2 ** 31 - 2, 2 ** 32 - 2, 2 ** 53 - 2, 2 ** 63 - 2]
# negative weights: all weights negative, mixed signs, and minima just beyond the signed dtype boundaries
NEG_BASES = [-1, -2, -100, -127, -130, -200, -2 ** 15 - 5, -2 ** 31 - 5]


def call(table, kind, base):
    """Run the real routine on the table (deltas; -1 = missing) with weights of the given kind shifted by base.
    Returns {"table", "result" (reported weights as deltas), "raised", "exc"}."""
    from graphtage.matching import min_weight_bipartite_matching
    from harness.watchdog import Expired, deadline
    nr = len(table)
    nc = len(table[0]) if nr else 0
    # "<kind>+eq": the row / column labels handed to the routine all compare (and hash) EQUAL although they are different
    # items - the table is positional, so this must make no difference
    orig_kind = kind
    equal_labels = "+eq" in kind
    kind = kind.split("+")[0]

    class Label:
        def __init__(self, i):
            self.i = i

        def __eq__(self, other):
            return isinstance(other, Label)

        def __hash__(self):
            return 7

    def conv(w):
        if w < 0:
            return None
        if kind == "int":
            return w + base
        if kind == "float":
            return (w + base) / 2.0
        return bool(w)

    real = [[conv(w) for w in row] for row in table]
    rec = {"table": table, "result": [], "raised": False, "exc": ""}
    huge = None
    if kind.startswith("float") and "@" in orig_kind:
        # "float+huge@i,j,H": a complete float table of small fractions (delta / 4) in which cell (i, j) is -H (2**52,
        # 1e15): weights of very different magnitude.  TLC sees the same table shifted so that the huge cell is 0 and every
        # other cell 10**6 + delta (a constant shift of a complete table keeps the optimal assignments; H dominates).
        hi_, hj_, hval = orig_kind.split("@")[1].split(",")
        huge = (int(hi_), int(hj_), float(hval))
        real = [[(-huge[2] if (i, j) == huge[:2] else w / 4.0) for j, w in enumerate(row)] for i, row in enumerate(table)]
        rec["table"] = [[(0 if (i, j) == huge[:2] else 10 ** 6 + w) for j, w in enumerate(row)] for i, row in enumerate(table)]
    try:
        with deadline(10.0):
            if equal_labels:
                res = min_weight_bipartite_matching([Label(i) for i in range(nr)], [Label(j) for j in range(nc)],
                                                    lambda r, c: real[r.i][c.i])
            else:
                res = min_weight_bipartite_matching(list(range(nr)), list(range(nc)), lambda r, c: real[r][c])
        out = []
        for r, (c, w) in res.items():
            if huge is not None:
                d = 0 if w == -huge[2] else 10 ** 6 + w * 4
                di = int(d) if d == int(d) else 999999
                out.append([int(r) + 1, int(c) + 1, di])
                continue
            if kind == "int":
                d = w - base
            elif kind == "float":
                d = w * 2 - base
            else:
                d = int(bool(w))
            di = int(d)
            if di != d or abs(di) > 10 ** 6:
                di = 999999      # not a weight of the table: the contract will reject it as not the true weight
            out.append([int(r) + 1, int(c) + 1, di])
        rec["result"] = out
    except Expired:
        rec["raised"], rec["exc"] = True, "timeout"
    except Exception as ex:
        rec["raised"], rec["exc"] = True, "%s: %s" % (type(ex).__name__, str(ex)[:120])
    return rec


def _job(args):
    return call(*args)


def _init():
    corpus._quiet_env()


def run():
    chk = Check("C15", "model_checking")
    t = tier()
    # the contract on the design: a brute-force solver satisfies every clause
    cfg = "SPECIFICATION Spec\nCONSTANTS Shapes <- %s Weights = {0,1,2}\nINVARIANT ContractHolds\nCHECK_DEADLOCK FALSE\n" % (
        "ShapesMid" if t == "quick" else "ShapesFull")
    res = tlc.run_tlc("Assign", cfg, workers=16, timeout=1500, name="Assign-mc")
    chk.model_violation_must_hold(res, "Assign", "ContractHolds")
    chk.add_tlc(res, "Assign", "design: every brute-force optimal injection satisfies the contract, all complete tables")
    cfg = "SPECIFICATION GenSpec\nCONSTANTS Shapes <- %s Weights = {0,1,2}\nINVARIANT Emit\nCHECK_DEADLOCK FALSE\n" % (
        "ShapesMid" if t == "quick" else "ShapesFull")
    res = tlc.run_tlc("AssignGen", cfg, workers=1, timeout=1500, name="AssignGen")
    tables = [x for x in res.printed if isinstance(x, list)]
    if len(tables) < 1000:
        raise MachineryError("table generator produced %d tables" % len(tables))
    chk.add_tlc(res, "AssignGen", "all %d tables of shapes up to %s over weights {0,1,2,missing}" % (
        len(tables), "2x3/3x2" if t == "quick" else "3x3"))
    chk.exhaustive = True
    jobs = []
    r = rng("c15")
    for ti, tb in enumerate(tables):
        complete = all(w >= 0 for row in tb for w in row)
        # (boolean tables with missing pairs too: the docstring calls them unsupported, but the statement says
        # "booleans, possibly with missing pairs" and the intended ValueError never fires - the routine handles them)
        boolable = all(w <= 1 for row in tb for w in row)
        jobs.append((tb, "int", 0))
        jobs.append((tb, "float", 0))
        if ti % 3 == 0:
            jobs.append((tb, "int+eq", 0))
        if boolable:
            jobs.append((tb, "bool", 0))
        # dtype boundaries: every table at one boundary (rotating), complete tables at all of them in the thorough tier
        if t == "quick":
            jobs.append((tb, "int", BASES[1 + (ti % (len(BASES) - 1))]))
            jobs.append((tb, r.choice(("int", "float")), NEG_BASES[ti % len(NEG_BASES)]))
        else:
            for b in BASES[1:] + NEG_BASES:
                jobs.append((tb, "int", b))
            jobs.append((tb, "float", r.choice(NEG_BASES)))
    # larger random tables with ties and sparsity (optimality only decided for complete ones, by TLC brute force <= 5x5)
    for _ in range(300 if t == "quick" else 4000):
        nr, nc = r.randint(1, 5), r.randint(1, 5)
        sparse = r.random() < 0.4
        wmax = r.choice((1, 2, 3, 9, 300))
        tb = [[(-1 if sparse and r.random() < 0.3 else r.randint(0, wmax)) for _ in range(nc)] for _ in range(nr)]
        jobs.append((tb, r.choice(("int", "float", "int+eq", "float+eq")), r.choice(BASES[:5] + NEG_BASES)))
    # float tables whose weights differ hugely in magnitude: one cell at -2**52 / -1e15 / -2**60, the others small fractions
    for _ in range(200 if t == "quick" else 3000):
        n_ = r.choice((2, 3, 3, 4))
        tb = [[r.choice((0, 1, 2, 3, 36, 36)) for _ in range(n_)] for _ in range(n_)]
        hi_, hj_ = r.randrange(n_), r.randrange(n_)
        jobs.append((tb, "float+huge@%d,%d,%s" % (hi_, hj_, r.choice(("4503599627370496.0", "1e15", "1152921504606846976.0", "1e300"))), 0))
    ctx = mp.get_context("fork")
    with ctx.Pool(min(16, os.cpu_count() or 4), initializer=_init, maxtasksperchild=5000) as pool:
        records = pool.map(_job, jobs, chunksize=64)
    traces = [{"table": rec["table"], "result": rec["result"], "raised": rec["raised"]} for rec in records]
    shards = 8
    from concurrent.futures import ThreadPoolExecutor
    parts = [list(range(len(traces)))[k::shards] for k in range(shards)]

    def job(k):
        return tlc.validate_traces("AssignTrace", [traces[i] for i in parts[k]],
                                   constants={"Shapes": "<- ShapesSmall", "Weights": {0}}, name="AT-%d" % k)
    with ThreadPoolExecutor(max_workers=shards) as ex:
        res = list(ex.map(job, range(shards)))
    for k, (verdicts, st) in enumerate(res):
        chk.add_trace_stats(st, "AssignTrace", len(parts[k]))
        for pos, i in enumerate(parts[k], 1):
            tb, kind, base = jobs[i]
            complete = all(w >= 0 for row in tb for w in row)
            chk.count((json.dumps(tb), kind, base), nontrivial=len(tb) > 1 or len(tb[0]) > 1)
            v = verdicts[pos]
            if v["v"] == "ACCEPT":
                continue
            rec = records[i]
            import math
            sig = {"clause": v["clause"], "kind": kind.split("@")[0], "base_log2": base.bit_length(), "negative": base < 0,
                   "huge_log2": int(math.log2(float(kind.split(",")[-1]))) if "@" in kind else 0,
                   "all_missing": all(w < 0 for row in tb for w in row), "complete": complete,
                   "exc": rec["exc"].split(":")[0]}
            chk.violation(sig, {"table": tb, "kind": kind, "base": base},
                          "table %s as %s weights + %d: %s; result %s %s" % (json.dumps(tb), kind, base, v["clause"],
                                                                             json.dumps(rec["result"]), rec["exc"]))
    chk.sample({"table": jobs[200][0], "kind": jobs[200][1], "base": jobs[200][2], "result": records[200]["result"]})
    chk.sample({"table": jobs[-1][0], "kind": jobs[-1][1], "base": jobs[-1][2], "result": records[-1]["result"]})
    chk.rule = ("cases = (table, weight kind, base): every table of shapes up to %s over weights {0,1,2,missing} "
                "(enumerated by TLC) as ints, as floats (w/2), as bools when complete and binary, and as ints shifted to "
                "the dtype boundaries 2^8, 2^16, 2^31, 2^32, 2^53, 2^63 (minus 2); plus random tables up to 5x5 with "
                "ties and sparsity; distinct by (table, kind, base); non-trivial = more than one cell"
                % ("2x3 / 3x2" if t == "quick" else "3x3"))
    chk.assumptions = ["shifting every weight of a table by the same base preserves which assignments are optimal; "
                       "TLC sees the table and the reported weights as deltas",
                       "documented precondition: one edge type per table"]
    return chk.finish()


def replay(path):
    with open(path) as f:
        doc = json.load(f)
    rp = doc["replay"]
    corpus._quiet_env()
    chk = Check("C15", "model_checking")
    rec = call(rp["table"], rp["kind"], rp["base"])
    verdicts, st = tlc.validate_traces("AssignTrace", [{"table": rec["table"], "result": rec["result"], "raised": rec["raised"]}],
                                       constants={"Shapes": "<- ShapesSmall", "Weights": {0}})
    chk.add_trace_stats(st, "AssignTrace", 1)
    chk.count("a")
    chk.count("b")
    if verdicts[1]["v"] != "ACCEPT":
        chk.violation({"clause": verdicts[1]["clause"]}, rp, "%s: %s %s" % (verdicts[1]["clause"], rec["result"], rec["exc"]))
    chk.rule = "replay"
    return chk.finish()
