"""C03 - the reported cost equals the sum of its parts, in every view (spec/EditScript.tla, C03 clauses)."""
from props._script import run_script_property


def run():
    from props._script import DEFAULT_KINDS
    chk = run_script_property(
        "C03", "model_checking", kinds=DEFAULT_KINDS + ["crossplist", "dupkeys"],
        extra_rule="C03 clauses: at every frame the cost the implementation reports for the compound edit equals the "
                   "sum of the costs of the events listed inside it; the annotated tree's edited_cost(), the sum over "
                   "get_all_edits() and the fully refined top-level bounds all equal the script total.")
    # the loops that produce the three views (L2 model: spec/Driver.tla): every environment TLC enumerates is rebuilt out of
    # real objects and driven through the real get_all_edit_contexts / diff / edited_cost
    from harness.common import tier
    from props import _driver
    _driver.check(chk, tier())
    return chk.finish()


def replay(path):
    from props._replay import replay_script
    return replay_script("C03", path)
