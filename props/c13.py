"""C13 - any input type can be rendered in any output format and mode.

The configuration space (input type x output format x mode x colour/HTML x condensed x equal/different
documents) is enumerated exhaustively; each point is a real run of main(); the recorded run is validated by
TLC against the C13 clauses of spec/Cli.tla (no internal error, exit status 0 or 1, something printed).
"""
import itertools
import json
import re

from harness.common import rng, tier
from harness.runner import Check
from props import _cli

MODES = {"full": [], "edits": ["-e"], "digest": ["-d"]}
LOOKS = {"plain": ["--no-color"], "color": ["--color"], "html": ["--html"], "html+color": ["--html", "--color"]}
COND = {"normal": [], "condensed": ["-j"]}


def document_sets(r, n):
    """[{type: (contentA, contentB)}]: the first set is fixed, further sets are random."""
    import plistlib
    import pickle
    import xml.etree.ElementTree as ET
    from harness import docs
    sets = [{t: (_cli.serialise(t, _cli.DATA_A, "A"), _cli.serialise(t, _cli.DATA_B, "B")) for t in _cli.TYPES}]
    while len(sets) < n:
        def noneless(x):
            if isinstance(x, dict):
                return {k: noneless(v) for k, v in x.items() if v is not None}
            if isinstance(x, list):
                return [noneless(v) for v in x if v is not None]
            return x
        # every second random set keeps its nulls (a plist FILE cannot hold one, so plist input gets the null-free copy;
        # the other input types keep them: null has to be renderable in every output format)
        keep_null = len(sets) % 2 == 0
        a0 = docs.random_doc(r, depth=3)
        while not isinstance(a0, (dict, list)) or not a0:
            a0 = docs.random_doc(r, depth=3)
        b0 = docs.mutate(a0, r)
        if not isinstance(b0, (dict, list)):
            b0 = [b0]
        a, b = noneless(a0), noneless(b0)
        if keep_null:
            a0 = [a0, None, {"nul": None}]
            b0 = [b0, None, {"nul": None, "k": 1}]
        ea = docs.random_xml_element(r, 2)
        eb = docs.mutate_xml(ea, r)
        s = {}
        for t in _cli.TYPES:
            if t in ("xml", "html"):
                wrap = (lambda x: b"<html><body>" + x + b"</body></html>") if t == "html" else (lambda x: x)
                s[t] = (wrap(ET.tostring(ea)), wrap(ET.tostring(eb)))
            elif t == "csv":
                rows_a = [[str(r.choice(docs.WORDS)) for _ in range(r.randint(0, 4))] for _ in range(r.randint(0, 4))]
                rows_b = [list(row) for row in rows_a]
                if rows_b and r.random() < 0.7:
                    rows_b[r.randrange(len(rows_b))].append("new")
                rows_b.append(["x", "y"])
                import csv
                import io
                def dump(rows):
                    o = io.StringIO()
                    csv.writer(o).writerows(rows)
                    return o.getvalue().encode()
                s[t] = (dump(rows_a), dump(rows_b))
            elif t == "plist":
                # (a plist can hold bytes: <data>)
                import datetime
                pa = [a, b"abc\x00\xff", {"d": b"x\ny"}] if keep_null else [a, datetime.datetime(2020, 1, 1, 10, 0, 0), {"when": datetime.datetime(1999, 12, 31, 23, 59, 59)}]
                pb = [b, b"abd\x00", {"d": b"x\nz", "e": b""}] if keep_null else [b, datetime.datetime(2020, 1, 1, 11, 0, 0), {"when": datetime.datetime(1999, 12, 31, 23, 59, 59), "n": 1}]
                s[t] = (_cli.serialise(t, pa, "A"), _cli.serialise(t, pb, "B"))
            elif not keep_null:
                # no nulls here (null as plist is known finding F27 and would end the run before anything else is printed),
                # but values no plist FILE could hold: integers beyond 64 bits, extreme floats, non-ASCII text
                xa = [a, 2 ** 64, -(2 ** 63) - 1, 1e300, "caf\u00e9 \U0001F600"]
                xb = [b, 2 ** 64 + 1, -(2 ** 63) - 1, 1e-300, "cafe \U0001F600"]
                if t == "yaml":
                    # the native date types of YAML: timestamps with and without offset, dates - also as a mapping key (F32)
                    import datetime
                    tz = datetime.timezone(datetime.timedelta(hours=2))
                    xa = xa + [datetime.date(2002, 1, 1), datetime.datetime(2001, 12, 14, 21, 59, 43), {datetime.date(2003, 3, 3): "k"},
                               datetime.datetime(2001, 12, 14, 21, 59, 43, tzinfo=tz)]
                    xb = xb + [datetime.date(2002, 1, 2), datetime.datetime(2001, 12, 14, 21, 59, 44), {datetime.date(2003, 3, 4): "k"},
                               datetime.datetime(2001, 12, 14, 21, 59, 43, tzinfo=datetime.timezone.utc)]
                if t == "pickle":
                    xa, xb = xa + [b"abc\x00\xff", {"d": b"x\ny"}], xb + [b"abd\x00", {"d": b"x\nz"}]      # bytes values
                    # sets (a plain multiset node: only pickles of protocol >= 4 and Python objects produce one), empty and not,
                    # and a mapping REPLACED by a set / a set by a mapping (F31)
                    import collections
                    # objects that unpickle through item assignments (a subscript statement in the decompiled module)
                    xa = xa + [collections.OrderedDict(a=1, b=[1, 2]), collections.defaultdict(list, {"k": [1]})]
                    xb = xb + [collections.OrderedDict(a=2, b=[1, 3]), collections.defaultdict(list, {"k": [1, 2], "j": []})]
                    xa = xa + [{1, 2, 3}, frozenset(["x"]), set(), {"tags": {1, 2}, "m": {"k": 1, "j": [1]}, "s": {3}}]
                    xb = xb + [{1, 2, 4}, frozenset(["x", "y"]), set(), {"tags": {2}, "m": {1, 2}, "s": {"k": 3}, "n": {5}}]
                s[t] = (_cli.serialise(t, xa, "A"), _cli.serialise(t, xb, "B"))
            else:
                s[t] = (_cli.serialise(t, a0, "A"), _cli.serialise(t, b0, "B"))
        sets.append(s)
    return sets


def run():
    chk = Check("C13", "model_checking")
    t = tier()
    nsets = 4 if t == "quick" else 12
    r = rng("c13")
    mats = _cli.Materials()
    jobs = []
    for si, ds in enumerate(document_sets(r, nsets)):
        for typ in _cli.TYPES:
            fa = mats.file(ds[typ][0], _cli.EXT[typ], "a%d" % si)
            fa2 = mats.file(ds[typ][0], _cli.EXT[typ], "c%d" % si)
            fb = mats.file(ds[typ][1], _cli.EXT[typ], "b%d" % si)
            for fmt, (mode, margs), (look, largs), (cond, cargs), equal in itertools.product(
                    [None] + _cli.TYPES, MODES.items(), LOOKS.items(), COND.items(), (True, False)):
                if fmt is None and (look != "plain" or cond != "normal"):
                    continue      # the default-format point once per mode
                to = fa2 if equal else fb
                # matching options change the node classes the formatters meet (FixedKeyDictNode, fixed-length list edits):
                # every point also under -k / -l for the first two document sets, -k -l for the others' digest mode
                optsets = [[]]
                if si < 2 and not equal:
                    optsets += [["-k"], ["-l"]]
                elif mode == "digest" and not equal:
                    optsets += [["-k", "-l"]]
                for oargs in optsets:
                    argv = [fa, to, "--no-status"] + margs + largs + cargs + oargs + (["--format", fmt] if fmt else [])
                    cfg = _cli.base_cfg(fromExt=typ, toExt=typ, fromValid=[typ], toValid=[typ], sameData=equal, decided=False)
                    jobs.append({"argv": argv, "from": fa, "to": to, "cfg": cfg,
                                 "contents": (ds[typ][0].decode("latin-1"), (ds[typ][0] if equal else ds[typ][1]).decode("latin-1")),
                                 "meta": {"set": si, "input": typ, "format": fmt or "default", "mode": mode, "look": look,
                                          "condensed": cond == "condensed", "equal": equal, "options": " ".join(oargs)}})
    # a very wide document (containers with more than 1000 direct children, one of them edited): size-dependent code
    # paths in the formatters ("only for long sequences")
    wide_a = {"list": list(range(1200)), "map": {"k%04d" % j: j for j in range(1200)}}
    wide_b = {"list": list(range(600)) + ["changed"] + list(range(601, 1200)) + [1200], "map": dict(wide_a["map"], k0600="changed", extra=1)}
    wa = mats.file(json.dumps(wide_a).encode(), ".json", "widea")
    wb = mats.file(json.dumps(wide_b).encode(), ".json", "wideb")
    for fmt in [None] + _cli.TYPES:
        for (look, largs), (mode, margs) in itertools.product(LOOKS.items(), (("full", []), ("digest", ["-d"]))):
            if fmt is None and look != "plain":
                continue
            argv = [wa, wb, "--no-status"] + margs + largs + (["--format", fmt] if fmt else [])
            cfg = _cli.base_cfg(fromExt="json", toExt="json", fromValid=["json"], toValid=["json"], sameData=False, decided=False)
            jobs.append({"argv": argv, "from": wa, "to": wb, "cfg": cfg, "contents": ("<1200-item list and 1200-key map>", "<one item changed>"),
                         "meta": {"set": -1, "input": "json", "format": fmt or "default", "mode": mode, "look": look,
                                  "condensed": False, "equal": False, "options": "wide"}})
    records = _cli.execute(jobs)
    errs, st = _cli.validate(records)
    chk.add_trace_stats(st, "CliTrace", len(records))
    for job, rec, e in zip(jobs, records, errs):
        m = job["meta"]
        chk.count(json.dumps(m, sort_keys=True), nontrivial=not m["equal"])
        v = e["C13"]
        if v["step"]:
            sig = {"clause": v["clause"], "input": m["input"], "format": m["format"],
                   "exc": rec["exc"].split(":")[0] if rec["exc"] else "", "where": rec.get("where", ""),
                   "detail": (re.findall(r"unsupported type: <class '([A-Za-z_.]+)'>", rec["exc"]) or [""])[0]}
            chk.violation(sig, {"meta": m, "argv_tail": job["argv"][2:], "first": job["contents"][0], "second": job["contents"][1]},
                          "input %s rendered as %s (%s, %s%s, %s documents%s): %s; rc=%s exc=%s" % (
                              m["input"], m["format"], m["mode"], m["look"], ", condensed" if m["condensed"] else "",
                              "equal" if m["equal"] else "different", (", " + m["options"]) if m.get("options") else "",
                              v["clause"], rec["rc"], rec["exc"][:160]))
    chk.exhaustive = True
    for i in (0, len(jobs) // 2, len(jobs) - 1):
        chk.sample({"meta": jobs[i]["meta"], "rc": records[i]["rc"], "exc": records[i]["exc"]})
    _cli.model_check(chk)
    from props import _dispatch
    _dispatch.check(chk, t, rng("c13-dispatch"))
    chk.rule = ("cases = the full product input type (8) x output format (8 + default) x mode (full, -e, -d) x look (plain, "
                "--color, --html) x condensed (-j) x (equal | different documents) for %d document sets (one fixed, the "
                "others random; XML with attributes/text/children, CSV with ragged rows, pickles and plists of nested "
                "containers); every point is a real in-process run of main(); distinct by configuration point; "
                "non-trivial = the two documents differ" % nsets)
    chk.assumptions = ["both files have the same type (cross-type data formats belong to C09)",
                       "the command runs in-process with stdout/stderr captured (not a TTY)"]
    return chk.finish()


def replay(path):
    with open(path) as f:
        doc = json.load(f)
    rp = doc["replay"]
    m = rp["meta"]
    chk = Check("C13", "model_checking")
    mats = _cli.Materials()
    typ = m["input"]
    fa = mats.file(rp["first"].encode("latin-1"), _cli.EXT[typ], "a")
    to = mats.file(rp["second"].encode("latin-1"), _cli.EXT[typ], "c" if m["equal"] else "b")
    argv = [fa, to] + rp["argv_tail"]
    cfg = _cli.base_cfg(fromExt=typ, toExt=typ, fromValid=[typ], toValid=[typ], sameData=m["equal"], decided=False)
    recs = _cli.execute([{"argv": argv, "from": fa, "to": to, "cfg": cfg}])
    errs, st = _cli.validate(recs)
    chk.add_trace_stats(st, "CliTrace", 1)
    chk.count("a")
    chk.count("b")
    if errs[0]["C13"]["step"]:
        chk.violation({"clause": errs[0]["C13"]["clause"]}, rp, "%s: %s" % (errs[0]["C13"]["clause"], recs[0]["exc"]))
    chk.rule = "replay"
    return chk.finish()
