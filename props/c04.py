"""C04 - cost bounds only tighten, stay sound, and converge.

spec/Bounded.tla (contract of one bounded object; TLC checks soundness, the variant and
convergence under fairness on the design), spec/BoundedTrace.tla (trace validation).
Every Bounded object created while the corpus pairs are diffed - top-level and nested edits,
matchers, searches - is recorded by the external monitor, passively and actively, driven to
quiescence afterwards, and its history validated by TLC clause by clause.
"""
import json
import multiprocessing as mp
import os

from harness import corpus, tlc
from harness.common import MachineryError, rng, seed, tier, use_repo
from harness.runner import Check

use_repo()

STEP_CAP = 20000


def quiesce(recs, monitor, deadline, Expired):
    """Drive every recorded object until it reports no progress; the extra steps are part of its history."""
    i = 0
    while i < len(recs):
        r = recs[i]
        i += 1
        obj = r.obj
        if not hasattr(obj, "tighten_bounds") or not hasattr(obj, "bounds"):
            continue
        if r.ev and r.ev[-1]["k"] in ("raise", "hang"):
            continue
        try:
            with deadline(3.0):
                n = 0
                while obj.tighten_bounds():
                    n += 1
                    if n > STEP_CAP:
                        break
                b = obj.bounds()
            if not b.definitive():
                r.ev.append({"k": "open"})
        except Expired:
            r.depth = 0
            r.ev.append({"k": "hang"})
        except Exception as ex:
            r.depth = 0
            if not r.ev or r.ev[-1]["k"] != "raise":
                r.ev.append({"k": "raise", "in": "quiesce", "exc": type(ex).__name__})


def subtraces(recs):
    out = []
    for r in recs:
        ev = r.ev
        if not ev or getattr(r, "truncated", False):
            continue          # (a history cut at the monitor's event limit carries no verdict)
        final = None
        for e in reversed(ev):
            if e["k"] == "b":
                final = e["lo"]
                break
        if final is None:
            final = 0
        # JSON for TLC: uniform records
        out.append((r.cls, {"final": final, "ev": ev}))
    return out


def search_history(chains, initial):
    """History of one IterativeTighteningSearch over scripted items: bounds() around every tighten_bounds()."""
    from graphtage.bounds import Range
    from graphtage.search import IterativeTighteningSearch
    from harness.watchdog import Expired, deadline
    from props import c17
    ev = []
    try:
        with deadline(3.0):
            items = c17.make_items(chains)
            vmax = max(c[0][1] for c in chains)
            s = IterativeTighteningSearch(iter(items), initial_bounds=Range(0, vmax) if initial else None)
            b = s.bounds()
            ev.append({"k": "b", "lo": c17.enc(b.lower_bound), "hi": c17.enc(b.upper_bound)})
            n = 0
            while True:
                r = s.tighten_bounds()
                ev.append({"k": "t", "r": bool(r)})
                b = s.bounds()
                ev.append({"k": "b", "lo": c17.enc(b.lower_bound), "hi": c17.enc(b.upper_bound)})
                n += 1
                if not r:
                    break
                if n > 2000:
                    ev.append({"k": "open"})
                    break
    except Expired:
        ev.append({"k": "hang"})
    except Exception as ex:
        ev.append({"k": "raise", "in": "search", "exc": type(ex).__name__})
    final = 0
    for e in reversed(ev):
        if e["k"] == "b":
            final = e["lo"]
            break
    return {"final": final, "ev": ev}


def _one(args):
    case, salt, active = args
    from harness import monitor
    from harness.watchdog import Expired, deadline
    monitor.install()
    try:
        a, b = corpus.build_pair(case, salt)
    except Exception as ex:
        return {"status": "build-error", "exc": repr(ex)}
    monitor.start(active=active)
    status = "ok"
    try:
        with deadline(8.0):
            a.diff(b)
    except Expired:
        status = "hang"
        for r in monitor.records():
            if r.depth > 0:
                r.depth = 0
                r.ev.append({"k": "hang"})
    except Exception as ex:
        status = "raised:%s" % type(ex).__name__
        for r in monitor.records():
            r.depth = 0
    recs = monitor.records()
    quiesce(recs, monitor, deadline, Expired)
    recs = monitor.stop()
    return {"status": status, "subs": subtraces(recs)}


def _init():
    corpus._quiet_env()


def run():
    chk = Check("C04", "model_checking")
    t = tier()
    sizes = {"small": (500, 6000), "random": (500, 8000), "skewed": (150, 1500), "mset": (150, 2000), "msetdup": (120, 1500), "huge": (12, 60), "csv": (100, 1500), "pyobj": (100, 1500), "plist": (80, 1000),
             "xml": (150, 2000), "dupkeys": (100, 1000), "rekeyed": (40, 400), "loaded": (60, 800), "pickled": (80, 800)}
    jobs = []
    for kind, (q, th) in sizes.items():
        cases = corpus.gen_cases(kind, q if t == "quick" else th, 4)
        for i, c in enumerate(cases):
            jobs.append((c, 4, bool(i % 2)))
    ctx = mp.get_context("fork")
    with ctx.Pool(min(16, os.cpu_count() or 4), initializer=_init, maxtasksperchild=300) as pool:
        results = pool.map(_one, jobs, chunksize=8)
    # de-duplicate identical object histories (validated once, counted with multiplicity)
    distinct = {}
    hung_cases = 0
    for (case, _, active), res in zip(jobs, results):
        if res["status"] == "build-error":
            raise MachineryError("cannot build generated document: %s" % res["exc"])
        if res["status"] == "hang":
            hung_cases += 1
        for cls, sub in res["subs"]:
            key = json.dumps(sub, sort_keys=True)
            d = distinct.get(key)
            if d is None:
                distinct[key] = {"sub": sub, "cls": {cls}, "n": 1, "case": case, "active": active}
            else:
                d["n"] += 1
                d["cls"].add(cls)
    # the iterative tightening search is not used by the engine's own edits: its protocol is observed on scripted
    # items following every tightening schedule TLC enumerates for small constants, with and without initial bounds
    from props import c17
    scheds = []
    for nn, vv in ((2, 2), (3, 2)) if t == "quick" else ((2, 3), (3, 2), (3, 3)):
        cfg = tlc.cfg_text(spec="GenSpec", constants={"NItems": nn, "V": vv}, invariants=["Emit"])
        res = tlc.run_tlc("SelectionGen", cfg, workers=1, timeout=1500, name="SelectionGen")
        scheds += [x for x in res.printed if isinstance(x, list)]
        chk.add_tlc(res, "SelectionGen", "tightening schedules for %d items over 0..%d" % (nn, vv))
    scheds += c17.random_schedules(rng("c04-search"), 400 if t == "quick" else 4000)
    corpus._quiet_env()
    n_search = 0
    for ch in scheds:
        for initial in (False, True):
            sub = search_history(ch, initial)
            n_search += 1
            key = json.dumps(sub, sort_keys=True)
            d = distinct.get(key)
            if d is None:
                distinct[key] = {"sub": sub, "cls": {"IterativeTighteningSearch"}, "n": 1,
                                 "case": ("search", ch, initial, None), "active": True}
            else:
                d["n"] += 1
                d["cls"].add("IterativeTighteningSearch")
    chk.extra["search_histories"] = n_search
    # the lazily expanding compound edit (EditCollection) over scripted sub-edits following the same schedules:
    # its own interval must obey the protocol whatever its children do (L2 model: spec/Collection.tla, checked in C05)
    from props import _coll
    n_coll = 0
    for ch in scheds:
        if len(ch) > 4:
            continue
        base = sum(c[0][1] for c in ch)
        for slack, first, early in ((0, False, False), (1, True, False), (0, False, True)):
            sub = _coll.bounded_trace(ch, base + slack, first, early)
            n_coll += 1
            key = json.dumps(sub, sort_keys=True)
            d = distinct.get(key)
            if d is None:
                distinct[key] = {"sub": sub, "cls": {"EditSequence"}, "n": 1,
                                 "case": ("collection", ch, base + slack, first, early), "active": True}
            else:
                d["n"] += 1
                d["cls"].add("EditSequence")
    chk.extra["scripted_collection_histories"] = n_coll
    # the fixed-arity compound edits KeyValuePairEdit / XMLElementEdit over scripted sub-edits (L2 model: spec/Compound.tla,
    # checked and bound in C05): the sum of its parts must obey the protocol in whatever order the parts are refined
    from props import _compound
    n_cmp = 0
    for ch in scheds:
        cfgs = ([("kvp", ch), ("seq+2", ch + [[], []]), ("seq-1", ch + [[], []])] if len(ch) == 2 else [("xmlnt", [ch[0], ch[1], [], ch[2]])] if len(ch) == 3
                else [("xml", ch)] if len(ch) == 4 else [])
        for config, chains in cfgs:
            for first in (False, True):
                sub = _compound.bounded_trace(config, chains, first)
                n_cmp += 1
                key = json.dumps(sub, sort_keys=True)
                d = distinct.get(key)
                cls = "KeyValuePairEdit" if config == "kvp" else "FixedLengthSequenceEdit" if config.startswith("seq") else "XMLElementEdit"
                if d is None:
                    distinct[key] = {"sub": sub, "cls": {cls}, "n": 1, "case": ("compound", chains, config, first), "active": True}
                else:
                    d["n"] += 1
                    d["cls"].add(cls)
    chk.extra["scripted_compound_histories"] = n_cmp
    # the bipartite matcher over scripted edges (L2 model: spec/Matcher.tla, bound by MatcherTrace.tla)
    from props import _matcher
    n_match = 0
    shapes = {1: [(1, 1)], 2: [(1, 2), (2, 1)], 3: [(1, 3), (3, 1)], 4: [(2, 2)], 6: [(2, 3), (3, 2)]}
    cap_scripted = 2500 if t == "quick" else 10 ** 9
    from harness.common import digest
    mixed = sorted(scheds, key=lambda c: digest(json.dumps(c)))       # a fixed pseudo-random order: every shape gets its share
    for ch in mixed:
        for (nn, mm) in shapes.get(len(ch), []):
            for first in (False, True):
                if n_match >= cap_scripted:
                    break
                sub = _matcher.bounded_trace(nn, mm, ch, first)
                n_match += 1
                key = json.dumps(sub, sort_keys=True)
                d = distinct.get(key)
                if d is None:
                    distinct[key] = {"sub": sub, "cls": {"WeightedBipartiteMatcher"}, "n": 1,
                                     "case": ("matcher", ch, [nn, mm], first), "active": True}
                else:
                    d["n"] += 1
                    d["cls"].add("WeightedBipartiteMatcher")
    chk.extra["scripted_matcher_histories"] = n_match
    # the two L2 bindings (model checking + trace validation, all in TLC sub-processes) run side by side
    from concurrent.futures import ThreadPoolExecutor
    from props import _mset
    l2pool = ThreadPoolExecutor(max_workers=2)
    # (the real runs are recorded here, in the main thread - the watchdog needs it; TLC does the rest in worker threads)
    mrecs = _matcher.prepare(chk, t, rng("c04-matcher"), mixed)
    srecs = _mset.prepare(chk, t, rng("c04-mset"), mixed)
    l2jobs = [l2pool.submit(_matcher.finish, chk, t, *mrecs), l2pool.submit(_mset.finish, chk, t, *srecs)]
    # the multiset edit over scripted elements (L2 model: spec/MultiSet.tla, bound by MultiSetTrace.tla)
    from props import _mset
    n_mset = 0
    parts_bad = 0
    by_len = {}
    for name, shp in _mset.SHAPES.items():
        by_len.setdefault(shp[0] * shp[1], []).append(name)
    for ch in mixed:
        for shape in by_len.get(len(ch), []):
            for first in (False, True):
                if n_mset >= cap_scripted:
                    break
                sub, parts = _mset.quiescent(shape, ch, first)
                n_mset += 1
                if parts is not None and not (parts["reported"][0] == parts["reported"][1] == parts["sum"]):
                    parts_bad += 1
                    if len(chk.drift) < 10:
                        chk.drift.append("MultiSetEdit %s over scripted elements %s reports %s but lists edits costing %d (C03's business; "
                                         "lead only here)" % (shape, json.dumps(ch)[:200], parts["reported"], parts["sum"]))
                key = json.dumps(sub, sort_keys=True)
                d = distinct.get(key)
                if d is None:
                    distinct[key] = {"sub": sub, "cls": {"MultiSetEdit"}, "n": 1,
                                     "case": ("multiset", ch, shape, first), "active": True}
                else:
                    d["n"] += 1
                    d["cls"].add("MultiSetEdit")
    chk.extra["scripted_multiset_histories"] = n_mset
    chk.extra["scripted_multiset_sum_of_parts_disagreements"] = parts_bad
    for j in l2jobs:
        j.result()
    l2pool.shutdown()
    items = list(distinct.values())
    total_objects = sum(d["n"] for d in items)
    chk.extra["objects_observed"] = total_objects
    chk.extra["distinct_object_histories"] = len(items)
    chk.extra["cases_diffed"] = len(jobs)
    by_cls = {}
    for d in items:
        for c in d["cls"]:
            by_cls[c] = by_cls.get(c, 0) + d["n"]
    chk.extra["objects_by_class"] = by_cls
    # TLC validation, sharded over JVMs
    traces = [d["sub"] for d in items]
    shards = 8 if len(traces) > 400 else 1
    from concurrent.futures import ThreadPoolExecutor
    parts = [list(range(len(traces)))[k::shards] for k in range(shards)]

    def job(k):
        return tlc.validate_traces("BoundedTrace", [traces[i] for i in parts[k]],
                                   constants={"Vals": {0}, "Inf": 2 ** 30}, name="BT-%d" % k, workers=1)
    with ThreadPoolExecutor(max_workers=shards) as ex:
        res = list(ex.map(job, range(shards)))
    for k, (verdicts, st) in enumerate(res):
        chk.add_trace_stats(st, "BoundedTrace", len(parts[k]))
        for pos, i in enumerate(parts[k], 1):
            v = verdicts[pos]
            d = items[i]
            nontrivial = any(e["k"] == "t" and e["r"] for e in d["sub"]["ev"])
            chk.count(("h", i), nontrivial=nontrivial)
            if v["v"] == "ACCEPT":
                continue
            if v["clause"].startswith("machinery:"):
                raise MachineryError("object history rejected by machinery clause %s" % v["clause"])
            cls = sorted(d["cls"])[0]
            sig = {"clause": v["clause"], "class": cls, "kind": d["case"][0] if isinstance(d["case"][0], str) else "?"}
            if sig["kind"] == "msetdup":
                sig["collide"] = corpus.msetdup_collide(tuple(d["case"]), 4)
            msg = "%s object (%d occurrence(s)) breaks clause '%s' at event %d of its history %s; mode=%s; case %s" % (
                "/".join(sorted(d["cls"])), d["n"], v["clause"], v["step"], json.dumps(d["sub"]["ev"])[:400],
                "active" if d["active"] else "passive", json.dumps(d["case"])[:300])
            chk.violation(sig, {"case": d["case"], "active": d["active"], "history": d["sub"]}, msg)
    # samples: the longest histories
    for d in sorted(items, key=lambda d: -len(d["sub"]["ev"]))[:3]:
        chk.sample({"class": sorted(d["cls"]), "occurrences": d["n"], "final": d["sub"]["final"],
                    "history": d["sub"]["ev"][:40]})
    # the design: Bounded.tla
    cfg = ("SPECIFICATION FairSpec\nCONSTANTS Vals = {0,1,2,3%s} Inf = 1000\nINVARIANT TypeOK\nINVARIANT SoundInv\n"
           "INVARIANT VariantInv\nINVARIANT DeadIsFinal\nPROPERTY NeverWidens\nPROPERTY Converges\nCHECK_DEADLOCK FALSE\n"
           % (",4,5" if t != "quick" else ""))
    res = tlc.run_tlc("Bounded", cfg, workers=8, name="Bounded-mc", timeout=600)
    chk.model_violation_must_hold(res, "Bounded", "TypeOK, SoundInv, VariantInv, DeadIsFinal, NeverWidens, Converges")
    chk.add_tlc(res, "Bounded", "design: invariants + NeverWidens + convergence under weak fairness")
    # unbounded integers: Apalache discharges the inductive invariant of the same module (spec/MC_BoundedApa.tla)
    from harness import apalache
    obl = apalache.obligations("MC_BoundedApa", [
        ("Init => IndInv", "Init", "IndInv", 0, "ok"),
        ("IndInv /\\ Next => IndInv'", "IndInit", "IndInv", 1, "ok"),
        ("IndInv => SoundInv /\\ VariantInv /\\ DeadIsFinal", "IndInit", "Safety", 0, "ok"),
        ("non-vacuity: an exposure with a finite budget is reachable", "Init", "CanaryExpose", 3, "violated"),
        ("non-vacuity: quiescence is reachable", "Init", "CanaryDead", 3, "violated")])
    chk.extra["apalache_inductive_check_of_Bounded"] = obl
    for o in obl:
        if o["outcome"] != "unavailable" and o["outcome"] != o["expected"]:
            chk.drift.append("Apalache obligation '%s' on Bounded.tla: %s (expected %s); a defect of the model, lead only"
                             % (o["obligation"], o["outcome"], o["expected"]))
    chk.extra["hung_cases"] = hung_cases
    chk.rule = ("cases = every object implementing bounds()/tighten_bounds() created while diffing the corpus pairs "
                "(small domain, random/mutated JSON, skewed sizes, multisets, XML; 9 option sets), observed passively "
                "(even cases) or actively with a bounds() probe around every step (odd cases), then driven to "
                "quiescence; identical histories are validated once; evaluations = distinct histories; non-trivial = "
                "history contains at least one step that reported progress")
    chk.assumptions = ["only outermost calls per object are events (what an object asks of itself mid-method is not exposed)",
                       "the property is read literally: a step may report no progress on the very step that shrinks "
                       "the interval to a single value",
                       "the final cost of an object is the value it itself converges to (parent/child agreement is C03)"]
    return chk.finish()


def replay(path):
    with open(path) as f:
        doc = json.load(f)
    rp = doc["replay"]
    chk = Check("C04", "model_checking")
    if rp["case"][0] == "search":
        corpus._quiet_env()
        res = {"subs": [("IterativeTighteningSearch", search_history(rp["case"][1], rp["case"][2]))]}
    elif rp["case"][0] == "multiset":
        corpus._quiet_env()
        from props import _mset
        res = {"subs": [("MultiSetEdit", _mset.quiescent(rp["case"][2], rp["case"][1], rp["case"][3])[0])]}
    elif rp["case"][0] == "matcher":
        corpus._quiet_env()
        from props import _matcher
        res = {"subs": [("WeightedBipartiteMatcher", _matcher.bounded_trace(rp["case"][2][0], rp["case"][2][1], rp["case"][1], rp["case"][3]))]}
    elif rp["case"][0] == "compound":
        corpus._quiet_env()
        from props import _compound
        res = {"subs": [("KeyValuePairEdit" if rp["case"][2] == "kvp" else "FixedLengthSequenceEdit" if rp["case"][2].startswith("seq") else "XMLElementEdit",
                         _compound.bounded_trace(rp["case"][2], rp["case"][1], rp["case"][3]))]}
    elif rp["case"][0] == "collection":
        corpus._quiet_env()
        from props import _coll
        res = {"subs": [("EditSequence", _coll.bounded_trace(rp["case"][1], rp["case"][2], rp["case"][3], bool(rp["case"][4:] and rp["case"][4])))]}
    else:
        res = _one((tuple(rp["case"]), 4, rp["active"]))
    traces = [s for _, s in res["subs"]]
    verdicts, st = tlc.validate_traces("BoundedTrace", traces, constants={"Vals": {0}, "Inf": 2 ** 30})
    chk.add_trace_stats(st, "BoundedTrace", len(traces))
    for i, (cls, s) in enumerate(res["subs"], 1):
        chk.count(("r", i))
        v = verdicts[i]
        if v["v"] != "ACCEPT":
            chk.violation({"clause": v["clause"], "class": cls}, rp, "%s breaks '%s' at event %d: %s"
                          % (cls, v["clause"], v["step"], json.dumps(s["ev"])[:400]))
    chk.rule = "replay"
    chk.count("x")
    return chk.finish()
