"""Shared machinery of the command-line properties (C02 exit status, C13, C14, C20): materialising files
and argv for an abstract configuration of spec/Cli.tla, running the real main() in-process with the
loaders wrapped from outside, and validating the recorded runs with TLC (spec/CliTrace.tla).
"""
import io
import json
import multiprocessing as mp
import os
import pickle
import plistlib
import shutil
import tempfile

from harness import tlc
from harness.common import MachineryError, digest, rng, scratch, tier, use_repo

use_repo()

TYPES = ["json", "json5", "yaml", "csv", "xml", "html", "plist", "pickle"]
EXT = {"json": ".json", "json5": ".json5", "yaml": ".yml", "csv": ".csv", "xml": ".xml", "html": ".html",
       "plist": ".plist", "pickle": ".pkl"}
MIMES = {
    "json": ["application/json", "application/x-javascript", "text/javascript", "text/x-javascript", "text/x-json"],
    "json5": ["application/json5", "text/x-json5"],
    "pickle": ["application/python-pickle", "application/x-python-pickle"],
    "csv": ["text/csv"],
    "xml": ["application/xml", "text/xml"],
    "html": ["text/html", "application/xhtml+xml"],
    "yaml": ["application/x-yaml", "application/yaml", "text/yaml", "text/x-yaml", "text/vnd.yaml"],
    "plist": ["application/x-plist"],
}
DATA_A = {"name": "alpha", "items": [1, 2, "three"], "nested": {"flag": True, "n": 10}}
DATA_B = {"name": "alphb", "items": [1, "three", 4], "nested": {"flag": False, "n": 10}, "extra": "x"}


def serialise(typ, data, variant):
    """Valid content of the given type (bytes).  variant 'A'/'B' choose the document."""
    import yaml
    if typ == "json":
        return json.dumps(data, indent=1).encode()
    if typ == "json5":
        # raw UTF-8 rather than \uXXXX escapes: the json5 library turns an escaped surrogate pair into two lone surrogates
        # (third-party root cause of known finding F23)
        return ("// json5\n" + json.dumps(data, indent=1, ensure_ascii=False).replace('"name"', "name") + "\n").encode("utf-8")
    if typ == "yaml":
        return yaml.safe_dump(data, default_flow_style=False).encode()
    if typ == "plist":
        return plistlib.dumps(data)
    if typ == "pickle":
        def has_set(x):
            if isinstance(x, (set, frozenset)):
                return True
            if isinstance(x, dict):
                return any(has_set(v) for v in x.values())
            return isinstance(x, (list, tuple)) and any(has_set(v) for v in x)
        # protocol 2 builds a set by a call (the loader sees a function application); from protocol 4 on there is a set
        # opcode and the loader builds a plain multiset node
        return pickle.dumps(data, protocol=4 if has_set(data) else 2)
    if typ == "csv":
        rows = [["id", "name", "value"], ["1", "alpha", "x,y"], ["2", "beta", 'q"r']]
        if variant == "B":
            rows = [["id", "name", "value"], ["1", "alphb", "x,y"], ["3", "gamma", ""], ["4"]]
        out = io.StringIO()
        import csv
        csv.writer(out).writerows(rows)
        return out.getvalue().encode()
    if typ in ("xml", "html"):
        if variant == "A":
            s = '<root id="1"><item k="v">text</item><item>more</item><empty/></root>'
        else:
            s = '<root id="2"><item k="w">text</item><extra a="b">new</extra><empty/></root>'
        if typ == "html":
            s = "<html><body>%s</body></html>" % s.replace("root", "div")
        return s.encode()
    raise MachineryError("unknown type %s" % typ)


def valid_for(content: bytes, types=TYPES):
    """Types for which the content is syntactically valid according to independent parsers.
    Returns (valid set, undecided set)."""
    import csv as csvmod
    import xml.etree.ElementTree as ET
    import json5
    import yaml
    valid, undecided = set(), set()
    try:
        text = content.decode("utf-8")
    except UnicodeDecodeError:
        text = None
    for t in types:
        if t == "pickle":
            # no independent notion of validity: only genuine pickles count, everything else is undecided
            try:
                pickle.loads(content)
                valid.add(t)
            except Exception:
                undecided.add(t)
            continue
        if t == "plist":
            try:
                plistlib.loads(content)
                valid.add(t)
            except Exception:
                pass
            continue
        if text is None:
            # not valid UTF-8.  JSON text is UTF-8 by definition (RFC 8259 section 8.1; JSON5 inherits it); a YAML stream
            # is UTF-8 / UTF-16 / UTF-32 (a BOM or the null pattern decides; none of that here) and an XML document without
            # an encoding declaration is UTF-8: such a file is malformed for these four types.  HTML parsers are lenient
            # and plists may be binary: undecided there (DESIGN 6.2).
            if t not in ("json", "json5", "yaml", "xml"):
                undecided.add(t)
            continue
        try:
            if t == "json":
                json.loads(text)
            elif t == "json5":
                json5.loads(text)
            elif t == "yaml":
                # PyYAML ships two parsers (pure Python and libyaml) that disagree on a few inputs, e.g. a byte order
                # mark inside a document: the text counts as invalid only if both reject it
                try:
                    list(yaml.load_all(text, Loader=yaml.SafeLoader))
                except Exception:
                    if not hasattr(yaml, "CSafeLoader"):
                        raise
                    list(yaml.load_all(text, Loader=yaml.CSafeLoader))
            elif t == "csv":
                list(csvmod.reader(io.StringIO(text)))
            elif t in ("xml", "html"):
                ET.fromstring(text)
            valid.add(t)
        except Exception:
            pass
    return valid, undecided


class Materials:
    """Files on disk for the runs of one check invocation."""

    def __init__(self):
        self.dir = tempfile.mkdtemp(prefix="cli-", dir=scratch())
        self.n = 0
        self.cache = {}

    def file(self, content: bytes, ext: str, stem=None):
        key = (content, ext, stem)
        if key in self.cache:
            return self.cache[key]
        self.n += 1
        name = "%s%04d%s" % (stem or "doc", self.n, ext)
        path = os.path.join(self.dir, name)
        with open(path, "wb") as f:
            f.write(content)
        self.cache[key] = path
        return path


def sel_args(side, sel, typ, r=None):
    if sel == "none":
        return []
    if sel == "type":
        return ["--%s-%s" % (side, typ)]
    mimes = MIMES[typ]
    m = mimes[0] if r is None else r.choice(mimes)
    return ["--%s-mime" % side, m]


# ---- wrapped loaders: observe which parser is given which file -------------------------------------
_events = []
_wrapped = [False]


def wrap_loaders():
    if _wrapped[0]:
        return
    import graphtage
    seen = set()
    for ft in list(graphtage.FILETYPES_BY_TYPENAME.values()):
        cls = type(ft)
        for klass in cls.__mro__:
            fn = vars(klass).get("build_tree_handling_errors")
            if fn is None or klass in seen or getattr(fn, "_verif", False):
                continue
            seen.add(klass)

            def make(fn):
                def build_tree_handling_errors(self, path, *a, **k):
                    _events.append({"e": "load", "type": self.name, "path": os.path.basename(str(path))})
                    return fn(self, path, *a, **k)
                build_tree_handling_errors._verif = True
                return build_tree_handling_errors
            setattr(klass, "build_tree_handling_errors", make(fn))
    _wrapped[0] = True


def run_one(job):
    """job: {argv, from, to, cfg, meta} -> trace dict for CliTrace (+ out digest for the Functional checks)."""
    from harness import cli
    wrap_loaders()
    del _events[:]
    res = cli.run_main(job["argv"], timeout=job.get("timeout", 20.0))
    fb, tb = os.path.basename(job["from"]), os.path.basename(job["to"])
    ev = []
    for e in _events:
        side = "from" if e["path"] == fb and not any(x["side"] == "from" for x in ev) else "to" if e["path"] == tb else "other"
        ev.append({"e": "load", "side": side, "type": e["type"]})
    rc = res["rc"]
    ev.append({"e": "exit", "rc": rc if isinstance(rc, int) else -99, "outBlank": res["out"].strip() == "",
               "namesFrom": fb in res["err"], "namesTo": tb in res["err"], "raised": bool(res["exc"])})
    return {"cfg": job["cfg"], "ev": ev, "exc": res["exc"], "where": res.get("where", ""),
            "out_digest": digest(res["out"].rstrip()), "out": res["out"] if job.get("keep_out") else "", "rc": rc,
            "err": res["err"][:300]}


def _init():
    from harness import corpus
    corpus._quiet_env()


def execute(jobs, procs=16):
    if len(jobs) < 24:
        _init()
        return [run_one(j) for j in jobs]
    ctx = mp.get_context("fork")
    with ctx.Pool(min(procs, os.cpu_count() or 4), initializer=_init, maxtasksperchild=200) as pool:
        return pool.map(run_one, jobs, chunksize=4)


def validate(records):
    traces = [{"cfg": r["cfg"], "ev": r["ev"]} for r in records]
    if not traces:
        return [], {"generated": 0, "distinct": 0, "runs": 0, "wall": 0.0}
    shards = 4 if len(traces) > 400 else 1
    from concurrent.futures import ThreadPoolExecutor
    parts = [list(range(len(traces)))[k::shards] for k in range(shards)]

    def job(k):
        return tlc.validate_traces("CliTrace", [traces[i] for i in parts[k]], constants={"Types": set(TYPES)},
                                   name="CliT-%d" % k)
    with ThreadPoolExecutor(max_workers=shards) as ex:
        res = list(ex.map(job, range(shards)))
    out = [None] * len(traces)
    stats = {"generated": 0, "distinct": 0, "runs": 0, "wall": 0.0}
    for k, (verdicts, st) in enumerate(res):
        for pos, i in enumerate(parts[k], 1):
            out[i] = verdicts[pos]["errs"]
        for key in ("generated", "distinct", "runs"):
            stats[key] += st[key]
        stats["wall"] = max(stats["wall"], st["wall"])
    return out, stats


def base_cfg(**kw):
    c = {"fromSel": "none", "fromSelType": "", "fromExt": "", "toSel": "none", "toSelType": "", "toExt": "",
         "fromValid": [], "toValid": [], "sameData": False, "sameKind": True, "decided": True}
    c.update(kw)
    return c


def model_check(chk):
    """Cli.tla: the documented behaviour of main() breaks no clause and always exits (TLC, 3 types)."""
    cfg = tlc.cfg_text(spec="MCSpec", constants={"Types": {"json", "yaml", "xml"}}, invariants=["NoClauseBroken"],
                       properties=["AlwaysExits"])
    res = tlc.run_tlc("Cli", cfg, workers=16, timeout=900, name="Cli-mc")
    chk.model_violation_must_hold(res, "Cli", "NoClauseBroken, AlwaysExits")
    chk.add_tlc(res, "Cli", "design: documented main() over the whole configuration space of 3 types breaks no clause, always exits")


# ---- C02: exit status <=> equality -------------------------------------------------------------------
def exit_status_runs(chk):
    from harness import cli as clim
    from harness import docs
    from harness.project import Table
    t = tier()
    n = 120 if t == "quick" else 1500
    r = rng("c02-cli")
    mats = Materials()
    jobs = []
    for i in range(n):
        a = docs.random_doc(r, depth=r.choice((1, 2, 3)))
        if i % 2 == 0:
            b, how = docs.permute_keys(a, r), "equal"
        else:
            b, how = docs.perturb(a, r)
            if b is None:
                b, how = docs.permute_keys(a, r), "equal"
        if i % 12 == 5:
            # whole documents that are "falsy" values of different kinds: what the LOADER of the format makes of them counts
            a, b = r.sample(([], {}, 0, False, "", None, 0.0, [[]], [None], {"k": None}), 2)
            how = "falsy roots"
        opts = r.choice(docs.ALL_OPTS)
        # equality is decided on the data itself (trees built straight from the Python values), the files go through the
        # loader of their format
        same = Table(docs.build(a, opts)).rows[0]["ch"] == Table(docs.build(b, opts)).rows[0]["ch"]
        fmt = ("json", "yaml", "json", "json5")[i % 4]
        fa = mats.file(serialise(fmt, a, "A"), EXT[fmt], "a")
        fb = mats.file(serialise(fmt, b, "B"), EXT[fmt], "b")
        for mode in ([], ["-e"], ["-d"]):
            argv = [fa, fb, "--no-status", "--no-color"] + clim.opt_args(opts) + mode
            jobs.append({"argv": argv, "from": fa, "to": fb, "meta": {"a": a, "b": b, "how": how, "mode": mode, "opts": opts},
                         "cfg": base_cfg(fromExt=fmt, toExt=fmt, fromValid=[fmt], toValid=[fmt],
                                         sameData=bool(same))})
    records = execute(jobs)
    errs, st = validate(records)
    chk.add_trace_stats(st, "CliTrace", len(records))
    for job, rec, e in zip(jobs, records, errs):
        chk.count(("cli", json.dumps(job["meta"], sort_keys=True, default=str)))
        v = e["C02"]
        if v["step"]:
            m = job["meta"]
            sig = {"clause": v["clause"], "entry": "cli", "mode": " ".join(m["mode"]) or "full", "how": m["how"]}
            chk.violation(sig, {"argv": job["argv"], "a": m["a"], "b": m["b"]},
                          "graphtage %s: %s (rc=%s, perturbation=%s)" % (
                              " ".join(m["mode"] + clim.opt_args(m["opts"])), v["clause"], rec["rc"], m["how"]))
    chk.sample({"cli": jobs[1]["argv"][2:], "a": jobs[1]["meta"]["a"], "b": jobs[1]["meta"]["b"], "rc": records[1]["rc"]})
    model_check(chk)
