"""Binding of the mechanism model spec/Dispatch.tla to graphtage.formatter.get_formatter.

A universe = formatter classes (which print_<Name> methods each has, its sub_format_types), the global
registry, the MRO of the item's class and the formatter instance the request is made from.
  * spec -> code: TLC enumerates all universes within small constants with the model's answer
    (DispatchGen.tla); the same classes are built for real and get_formatter is asked;
  * code -> spec: larger random universes are built, the real answer is recorded and TLC compares it with
    the model's (DispatchTrace.tla).
A difference is MODEL-DRIFT (reported in the evidence, never a verdict).
"""
import json

from harness import tlc
from harness.common import MachineryError, use_repo

use_repo()


def real_resolve(case):
    """Build the universe with real classes; returns [class id as str, name] or []."""
    import graphtage.formatter as gf
    names = case["mro_full"]
    # node classes: names[-1] is 'object'; names[i] derives from names[i+1]
    node = {"object": object}
    for nm in reversed(names[:-1]):
        parent = node[names[names.index(nm) + 1]]
        node[nm] = type(nm, (parent,), {})
    classes = {}
    for c in range(1, len(case["has"]) + 1):
        ns = {"is_partial": True, "_vid": c,
              "sub_format_types": [classes[s] for s in case["subtypes"][c - 1]]}
        for nm in case["has"][c - 1]:
            ns["print_" + nm] = (lambda self, printer, item: None)
        classes[c] = type("VF%d" % c, (gf.BasicFormatter,), ns)
    saved = gf.FORMATTERS
    try:
        gf.FORMATTERS = [classes[c]() for c in case["reg"]]
        base = None
        if case["base"]:
            base = classes[case["base"][0]]()
            for k in case["base"][1:]:
                base = base.sub_formatters[k - 1]
        f = gf.get_formatter(node[case["mro"][0]], base_formatter=base)
    finally:
        gf.FORMATTERS = saved
    if f is None:
        return []
    return [str(f.__self__._vid), _name_of(f, case)]


def _name_of(f, case):
    # the lambda has no useful __name__: find which print_<Name> attribute of the instance this bound method is
    for nm in case["mro_full"]:
        g = getattr(f.__self__, "print_" + nm, None)
        if g is not None and g.__func__ is f.__func__:
            return nm
    return "?"


def generate(k, names, max_subs, max_depth):
    cfg = ("SPECIFICATION Spec\nCONSTANTS K = %d Names <- %s MaxSubs = %d MaxDepth = %d\nINVARIANT Emit\n"
           % (k, names, max_subs, max_depth))
    res = tlc.run_tlc("DispatchGen", cfg, workers=1, timeout=1500, name="DispatchGen")
    out = [x for x in res.printed if isinstance(x, dict) and "answer" in x]
    if not out:
        raise MachineryError("DispatchGen produced no universe")
    return out, res


def random_universe(r):
    k = r.randint(1, 6)
    full = ["VD", "VC", "VB", "VA", "object"][r.randint(0, 3):]
    has = [sorted(r.sample(full, r.randint(0, min(2, len(full))))) if r.random() < 0.7 else [] for _ in range(k)]
    subtypes = [[r.randint(1, c - 1) for _ in range(r.randint(0, 3))] if c > 1 and r.random() < 0.7 else [] for c in range(1, k + 1)]
    reg = [c for c in range(1, k + 1) if r.random() < 0.5]
    mro = full[r.randrange(len(full)):]
    base = []
    if r.random() < 0.8:
        base = [r.randint(1, k)]
        cls = base[0]
        while subtypes[cls - 1] and r.random() < 0.6:
            i = r.randint(1, len(subtypes[cls - 1]))
            base.append(i)
            cls = subtypes[cls - 1][i - 1]
    return {"has": has, "subtypes": subtypes, "reg": reg, "mro": mro, "base": base, "mro_full": full}


def check(chk, tier, r):
    """Model-check, replay both directions; appends to chk.drift / chk.extra."""
    for k, names in ([(3, "N2")] if tier == "quick" else [(3, "N2"), (3, "N3")]):
        cfg = ("SPECIFICATION Spec\nCONSTANTS K = %d Names <- %s MaxSubs = 2 MaxDepth = 3\nINVARIANT Sound\nINVARIANT Total\n"
               "INVARIANT OwnFirst\n" % (k, names))
        res = tlc.run_tlc("DispatchGen", cfg, workers=16, timeout=1500, name="Dispatch-mc")
        if not res.completed:
            chk.drift.append("Dispatch.tla (K=%d, %s) violates %s on the model (lead only)" % (k, names, res.invariant_violated))
        chk.add_tlc(res, "Dispatch", "L2 model of get_formatter: all universes of %d formatter classes, names %s, <=2 sub-formatters: "
                    "Sound, Total, OwnFirst" % (k, names))
    drift = 0
    gen, res = generate(2, "N2" if tier == "quick" else "N3", 2, 3)
    chk.add_tlc(res, "DispatchGen", "all %d universes of 2 formatter classes with the model's resolution" % len(gen))
    for case in gen:
        case["mro_full"] = ["VB", "VA", "object"]
        case["has"] = [sorted(h) for h in case["has"]]
        got = real_resolve(case)
        if got != list(case["answer"]):
            drift += 1
            if drift <= 3:
                chk.drift.append("get_formatter on universe %s: model resolves %s, code resolves %s" % (
                    json.dumps({k2: case[k2] for k2 in ("has", "subtypes", "reg", "mro", "base")}), case["answer"], got))
    n = 1500 if tier == "quick" else 20000
    recs = []
    for _ in range(n):
        u = random_universe(r)
        u["answer"] = real_resolve(u)
        recs.append(u)
    verdicts, st = tlc.validate_traces("DispatchTrace", recs, constants={"K": 1, "Names": "<- N0", "MaxSubs": 0, "MaxDepth": 1},
                                       name="DispatchTrace")
    chk.add_trace_stats(st, "DispatchTrace", len(recs))
    for i, u in enumerate(recs, 1):
        if verdicts[i]["v"] != "ACCEPT":
            drift += 1
            if drift <= 3:
                chk.drift.append("get_formatter on universe %s: code resolves %s, model resolves %s" % (
                    json.dumps({k2: u[k2] for k2 in ("has", "subtypes", "reg", "mro", "base")}), u["answer"], verdicts[i].get("model")))
    chk.extra["formatter_resolutions_replayed"] = {"tlc_enumerated": len(gen), "random_recorded": len(recs), "drift": drift,
                                                    "resolved_to_none": sum(1 for u in recs if not u["answer"])}
