"""C10 - matching options restrict the script as documented (spec/EditScript.tla, C10 clauses)."""
from props._script import run_script_property


def run():
    chk = run_script_property(
        "C10", "model_checking",
        extra_rule="C10 clauses, evaluated at every mapping and list frame of every nesting level against the options "
                   "the caller requested: strategy none => paired items have equal keys; strategy auto => every shared "
                   "key is paired with itself; list edits off (always / for equal lengths) => positional pairing, only "
                   "the surplus tail removed or inserted.")
    return chk.finish()


def replay(path):
    from props._replay import replay_script
    return replay_script("C10", path)
