"""C10 - matching options restrict the script as documented (spec/EditScript.tla, C10 clauses)."""
from props._script import run_script_property


def run():
    from props._script import DEFAULT_KINDS
    chk = run_script_property(
        "C10", "model_checking", kinds=DEFAULT_KINDS + ["cli"],
        extra_rule="C10 clauses, evaluated at every mapping and list frame of every nesting level against the options "
                   "the caller requested: strategy none => paired items have equal keys; strategy auto => every shared "
                   "key is paired with itself; list edits off (always / for equal lengths) => positional pairing, only "
                   "the surplus tail removed or inserted.  Kind `cli`: the trees are the ones graphtage.__main__.main built for the "
                   "two files under one of the documented spellings of the option set (-k, --no-key-edits, --dict-strategy S, "
                   "-ds S, -l, --no-list-edits, -ll, --no-list-edits-when-same-length), in any argument order.")
    return chk.finish()


def replay(path):
    from props._replay import replay_script
    return replay_script("C10", path)
