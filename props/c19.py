"""C19 - match expressions cannot reach private attributes.

spec/Expr.tla (event contract + the evaluator's two guards as a small machine), spec/ExprGen.tla (TLC
enumerates expression programs over an adversarial vocabulary), spec/ExprTrace.tla (trace validation).
Every program is parsed and evaluated by the real code over an environment of tripwired objects; the
recorded events (identifier resolutions, attribute reads performed by the evaluator, leaks) are
validated by TLC.
"""
import builtins
import json
import multiprocessing as mp
import os
import sys

from harness import corpus, tlc
from harness.common import MachineryError, REPO, rng, tier, use_repo
from harness.runner import Check

use_repo()

WHITELIST = {"abs", "all", "any", "ascii", "bin", "bool", "bytearray", "bytes", "chr", "complex", "dict", "enumerate",
             "filter", "float", "frozenset", "hash", "hex", "id", "int", "iter", "len", "list", "map", "max", "min", "oct",
             "ord", "round", "set", "slice", "sorted", "str", "sum", "tuple", "zip"}
CANARIES = ("CANARYX7Q", "CANARYSECRET9Z", "CanaryClassK3")

_log = []


def _is_evaluator_file(fn):
    return fn.endswith(os.path.join("graphtage", "expressions.py")) or fn.endswith(os.path.join("graphtage", "constraints.py"))


def _evaluator_is_reading():
    """Is the read made by the expression evaluator (expressions.py / constraints.py) - directly, or through library code it
    called on its own behalf (a helper elsewhere in graphtage, inspect / difflib / ... of the standard library)?
    Reads an object performs on itself inside its own methods are not reads by the evaluator."""
    f = sys._getframe(2)
    if f is not None and f.f_code.co_filename.endswith("c19.py"):
        f = f.f_back
        return f is not None and _is_evaluator_file(f.f_code.co_filename)
    # outward through frames that are neither the harness nor graphtage (standard library acting for its caller)
    hops = 0
    while f is not None and hops < 40:
        fn = f.f_code.co_filename
        if fn.endswith("c19.py"):
            return False
        if os.sep + "graphtage" + os.sep in fn:
            # any graphtage module reached before the harness: the evaluator itself or a helper it called
            g = f
            while g is not None:
                gn = g.f_code.co_filename
                if _is_evaluator_file(gn):
                    return True
                if gn.endswith("c19.py"):
                    return False
                g = g.f_back
            return False
        f = f.f_back
        hops += 1
    return False


class Inner:
    def __init__(self):
        object.__setattr__(self, "_x", CANARIES[0])
        object.__setattr__(self, "value", 7)

    def __getattribute__(self, name):
        if _evaluator_is_reading():
            _log.append({"e": "attr", "name": [ord(c) for c in name], "holder": "inner"})
        return object.__getattribute__(self, name)

    def __repr__(self):
        return "inner"


class CanaryClassK3:
    """The sentinel placed in the evaluation environment."""

    def __init__(self):
        object.__setattr__(self, "_x", CANARIES[0])
        object.__setattr__(self, "_CanaryClassK3__secret", CANARIES[1])
        object.__setattr__(self, "_Sentinel__secret", CANARIES[1])
        object.__setattr__(self, "pub", Inner())
        object.__setattr__(self, "key", "k")
        object.__setattr__(self, "value", 3)
        object.__setattr__(self, "object", 5)

    def __getattribute__(self, name):
        if _evaluator_is_reading():
            _log.append({"e": "attr", "name": [ord(c) for c in name], "holder": "sentinel"})
        return object.__getattribute__(self, name)

    def method(self):
        return 42

    def get(self, k, default=None):
        return default

    def items(self):
        return []

    def values(self):
        return []

    def __getitem__(self, k):
        if k == 0 or k == "k":
            return object.__getattribute__(self, "pub")
        raise KeyError(k)

    def __repr__(self):
        return "sentinel"

    __str__ = __repr__

    def __eq__(self, other):
        return self is other

    def __hash__(self):
        return 7


class TripDict(dict):
    """A mapping (dict subclass) with a private attribute of its own: what to_obj() of a mapping node may be."""

    def __init__(self, *a, **k):
        dict.__init__(self, *a, **k)
        object.__setattr__(self, "_x", CANARIES[0])
        object.__setattr__(self, "_CanaryClassK3__secret", CANARIES[1])
        object.__setattr__(self, "pub", Inner())

    def __getattribute__(self, name):
        if _evaluator_is_reading():
            _log.append({"e": "attr", "name": [ord(c) for c in name], "holder": "tripdict"})
        return dict.__getattribute__(self, name)

    def __repr__(self):
        return "tripdict"


def _trip_mapping():
    import collections.abc

    class TripMapping(collections.abc.Mapping):
        """A mapping that is not a dict (collections.abc.Mapping), tripwired the same way."""

        def __init__(self, d):
            object.__setattr__(self, "_d", d)
            object.__setattr__(self, "_x", CANARIES[0])
            object.__setattr__(self, "pub", Inner())

        def __getattribute__(self, name):
            if _evaluator_is_reading():
                _log.append({"e": "attr", "name": [ord(c) for c in name], "holder": "tripmapping"})
            return object.__getattribute__(self, name)

        def __getitem__(self, k):
            return object.__getattribute__(self, "_d")[k]

        def __iter__(self):
            return iter(object.__getattribute__(self, "_d"))

        def __len__(self):
            return len(object.__getattribute__(self, "_d"))

        def __repr__(self):
            return "tripmapping"
    return TripMapping


class _ToObj:
    """What MatchUnless needs of a node: to_obj()."""
    def __init__(self, o):
        self.o = o

    def to_obj(self):
        return self.o


def environment():
    s, t = CanaryClassK3(), CanaryClassK3()
    return {"s": s, "t": t, "lst": [s, 1], "tup": (s, t), "d": {"k": s, "a": s, 0: s}, "from": s, "to": t, "k": s, "a": s,
            "n": Inner(), "m": TripDict({"k": s, "pub": 1, "name": "v"}), "mp": _trip_mapping()({"k": s, "name": "v"})}


_installed = [False]
_env = [{}]
_MISSING = object()


def install_resolution_probe():
    """Wrap Expression.get_value from outside: log every identifier resolution and where the name lives."""
    if _installed[0]:
        return
    from graphtage import expressions as ex
    orig = ex.Expression.get_value

    def get_value(token, locals, globals):
        if isinstance(token, ex.IdentifierToken):
            ok = True
            val = _MISSING
            try:
                val = orig(token, locals, globals)
                return val
            except BaseException:
                ok = False
                raise
            finally:
                # "in the given variables" / "in the whitelist" are judged against what the HARNESS handed to eval() and
                # against the documented list - not against whatever scopes the evaluator passes around internally:
                # the value must be the very object given under that name, or the builtin of that name
                env = _env[0]
                in_locals = token.name in env and (not ok or val is env[token.name])
                in_white = token.name in WHITELIST and (not ok or val is getattr(builtins, token.name, _MISSING))
                _log.append({"e": "resolve", "nm": token.name, "ok": ok, "inLocals": in_locals, "inWhitelist": in_white})
        return orig(token, locals, globals)
    ex.Expression.get_value = staticmethod(get_value)
    _installed[0] = True


def evaluate(prog):
    from graphtage import expressions as ex
    from harness.watchdog import Expired, deadline
    install_resolution_probe()
    del _log[:]
    # an earlier evaluation in the same process, over OTHER variables (one of them shadowing a whitelisted builtin):
    # nothing of it may be visible to the evaluation under test
    try:
        _env[0] = {"prev": Inner(), "zz": CanaryClassK3(), "len": 0}
        ex.parse("prev == zz or len").eval(locals=dict(_env[0]))
    except BaseException:
        pass
    # ... and the way the command uses expressions: --match-if / --match-unless matchers constructed and applied before
    try:
        from graphtage import constraints
        _env[0] = {"from": Inner(), "to": Inner()}
        constraints.MatchIf(ex.parse("from == to"))(_env[0]["from"], _env[0]["to"])
        constraints.MatchUnless(ex.parse("from == to"))(_ToObj(_env[0]["from"]), _ToObj(_env[0]["to"]))
    except BaseException:
        pass
    del _log[:]
    env = environment()
    _env[0] = env
    outcome, text = "value", ""
    try:
        with deadline(3.0):
            res = ex.parse(prog).eval(locals=env)
            # only strings the expression itself produced are searched for canaries: the repr of a bound method
            # or of a type names its class without any private read by the evaluator
            def strings(v, depth=0):
                if isinstance(v, bytes):
                    return [v.decode("latin-1")]
                if isinstance(v, str):
                    return [str(v)]
                if depth < 3 and isinstance(v, (list, tuple, set, frozenset)):
                    return [x for y in list(v)[:20] for x in strings(y, depth + 1)]
                if depth < 3 and isinstance(v, dict):
                    return [x for y in list(v.items())[:20] for x in strings(y, depth + 1)]
                return []
            try:
                text = " ".join(strings(res))
            except Exception:
                text = ""
    except Expired:
        outcome, text = "timeout", ""
    except BaseException as exn:
        outcome = type(exn).__name__
        try:
            text = str(exn)
        except Exception:
            text = ""
    if "from" in prog or "to" in prog:
        # the same expression as a --match-if condition (exceptions are swallowed by the matcher; the tripwires still log)
        try:
            from graphtage import constraints
            _env[0] = env
            with deadline(3.0):
                constraints.MatchIf(ex.parse(prog))(env["from"], env["to"])
        except BaseException:
            pass
    ev = list(_log)
    for c in CANARIES[:2]:
        # only the VALUES of private attributes are canaries.  The class name is not: Python's own error messages, the
        # repr of a bound method or str(obj.method) name the class of their operand without the evaluator reading
        # anything private (a false alarm met in the thorough tier).
        if c in text:
            ev.append({"e": "leak", "what": c})
    ev.append({"e": "end", "outcome": outcome})
    return ev


def _job(prog):
    return evaluate(prog)


def _init():
    corpus._quiet_env()


CONSTS = {"Names": "<- DummyNames", "Locals": "<- DummyNames", "Whitelist": "<- DummyNames", "Members": "<- DummyNames"}


def run():
    chk = Check("C19", "exploration")
    t = tier()
    depth = 2 if t == "quick" else 3
    cfg = "SPECIFICATION GenSpec\nCONSTANTS Depth = %d\nINVARIANT Emit\nCHECK_DEADLOCK FALSE\n" % depth
    res = tlc.run_tlc("ExprGen", cfg, workers=1, timeout=3000, name="ExprGen", heap="8g")
    progs = sorted({x["p"] for x in res.printed if isinstance(x, dict) and "p" in x})
    if len(progs) < 1000:
        raise MachineryError("program generator produced %d programs" % len(progs))
    chk.add_tlc(res, "ExprGen", "enumeration of %d expression programs of depth <= %d" % (len(progs), depth))
    # token-level mutation of generated programs (thorough) and a few hand-written escape attempts (always)
    extra = ['s._x', 's.pub._x', 'd["k"]._x', 'lst[0]._x', '(s)._x', 's . _x', 's.__class__', 'getattr(s, "_x")',
             '"{0._x}".format(s)', '"{0.pub._x}".format(s)', '"{a._x}".format_map(d)', 'str.format("{0._x}", s)',
             'list(map("{0._x}".format, lst))', '"{0.__class__.__name__}".format(s)', '"{0[k]._x}".format(d)',
             'vars(s)', 'type(s)', 'dir(s)', '__import__("os")', 'eval("1")', 'open("/etc/passwd")', 'globals()',
             's.method()', 's.pub.value', 'hash(s)', 'str(s)', 'ascii(s)', 'sorted([s.value, t.value])',
             'from._x', 'to.pub._x', '"{0._x}".format(from)', 'from.pub.value == to.pub.value',
             'prev', 'zz', 'zz.pub', 'zz._x', 'prev.value', 'len(lst)', 'len(lst) == 2', 'len',
             'hasattr(s, "_x")', 'hasattr(from, "_x") and hasattr(to, "_x")', 'isinstance(s, str)', 'hasattr', 'isinstance',
             'callable(s)', 'issubclass', 'getattr(from, "_x")', 'from._x == to._x', 'from.pub._x',
             # look-alikes of the underscore (full-width and presentation forms: NFKC maps them to "_") and of letters
             's.\uff3fx', 's.\ufe33x', 's.\ufe4dx', 's.\uff3f_class__', 'from.\uff3fx', 's.pub.\uff3fx', 's.\u2017x',
             '\uff3fx', 's.\uff3f\uff3fdict\uff3f\uff3f', 'lst[0].\uff3fx', 's.\uff50ub', 's.\u200b_x', 's._\u200bx']
    # member access on MAPPINGS (plain dict, dict subclass, abc.Mapping): a mapping's keys are data, its attributes are not
    for base in ("m", "mp", "d", 'm["k"]', "d.get(\"k\")", "mp[\"k\"]"):
        for mem in ("_x", "__dict__", "_CanaryClassK3__secret", "pub", "pub._x", "k", "k._x", "name", "keys", "keys()", "get",
                    "items()", "__len__", "__getitem__", "_d", "__doc__", "\uff3fx"):
            extra.append("%s.%s" % (base, mem))
    extra += ['"{0._x}".format(m)', 'len(m)', 'm == d', 'list(m)', 'sorted(mp)', 'm.get("k")._x', 'mp.get("k").pub._x', 'd.__class__',
              'm.__class__', 'mp.__class__.__name__']
    # members that do NOT exist (typing errors of public names): the error path of member access is evaluation too
    for base in ("s", "t", "from", "to", "n", "m", "mp", "s.pub", "lst[0]", 'd["k"]', "tup[0]"):
        for mem in ("pubb", "pu", "valu", "values2", "ke", "kee", "methodd", "obj", "nam", "x", "X", "geet", "itemz"):
            extra.append("%s.%s" % (base, mem))
    extra += ['len(s.valu) > 3', 's.pub.valu == 1', 'from.kee == "foo"', 'str(s.nmae)', 's.pubb._x', 's.valu.pub']
    r = rng("c19")
    if t != "quick":
        toks = ["._x", ".pub", ".format", "(", ")", "[", "]", '"{0._x}"', "s", "lst", ",", " ", ".__class__", "getattr", "0"]
        for p in r.sample(progs, 20000):
            q = list(p)
            for _ in range(r.randint(1, 2)):
                k = r.randint(0, len(q))
                if r.random() < 0.5 and q:
                    del q[min(k, len(q) - 1)]
                else:
                    q[k:k] = list(r.choice(toks))
            extra.append("".join(q))
    progs = progs + extra
    ctx = mp.get_context("fork")
    with ctx.Pool(min(16, os.cpu_count() or 4), initializer=_init, maxtasksperchild=20000) as pool:
        results = pool.map(_job, progs, chunksize=256)
    # identical event lists are validated once
    distinct = {}
    for p, ev in zip(progs, results):
        tr = [{k: v for k, v in e.items() if k not in ("holder", "nm", "outcome", "what")} for e in ev]
        key = json.dumps(tr, sort_keys=True)
        distinct.setdefault(key, {"trace": tr, "progs": [], "ev": ev})["progs"].append(p)
    items = list(distinct.values())
    verdicts, st = tlc.validate_traces("ExprTrace", [{"ev": d["trace"]} for d in items], constants=CONSTS, name="ExprTrace")
    chk.add_trace_stats(st, "ExprTrace", len(items))
    evaluated_ok = 0
    for i, d in enumerate(items, 1):
        for p in d["progs"]:
            outcome = d["ev"][-1].get("outcome")
            evaluated_ok += outcome == "value"
            chk.count(p, nontrivial=any(e["e"] in ("attr", "resolve") for e in d["ev"]))
        v = verdicts[i]
        if v["v"] == "ACCEPT":
            continue
        for p in d["progs"]:
            route = "format-string" if ("format" in p) else "other"
            sig = {"clause": v["clause"], "route": route}
            e = d["ev"][v["step"] - 1]
            what = "".join(map(chr, e["name"])) if e["e"] == "attr" else e.get("nm", e.get("what", ""))
            chk.violation(sig, {"program": p}, "evaluating %r: %s (%s)" % (p, v["clause"], what))
    chk.extra["programs_evaluated_to_a_value"] = evaluated_ok
    chk.extra["distinct_event_traces"] = len(items)
    chk.sample({"program": progs[len(progs) // 2], "events": results[len(progs) // 2][:6]})
    chk.sample({"program": '"{0._x}".format(s)', "events": evaluate('"{0._x}".format(s)')})
    # the guards as a machine (TLC): never a direct private read, never a resolution outside locals + whitelist
    cfg = ("SPECIFICATION Spec\nCONSTANTS Names <- MCNames Locals <- MCLocals Whitelist <- MCWhitelist Members <- MCMembers\n"
           "INVARIANT Safe\nCONSTRAINT MCBound\nCHECK_DEADLOCK FALSE\n")
    res = tlc.run_tlc("ExprMC", cfg, workers=4, timeout=300, name="Expr-mc")
    chk.model_violation_must_hold(res, "ExprMC", "Safe")
    chk.add_tlc(res, "Expr", "design: the two guards (name resolution, member access) alone never read a private attribute")
    chk.rule = ("programs = expression strings enumerated by TLC bottom-up (depth %d) over an adversarial vocabulary: member "
                "chains incl. format/format_map/join/get, string literals with replacement fields traversing private "
                "attributes, calls of whitelisted and of forbidden builtins (getattr, vars, type, eval, __import__, ...), "
                "indexing, operators; plus hand-written escape attempts%s; each parsed and evaluated by the real code over "
                "tripwired sentinels (as variables, inside list/tuple/dict, as from/to); distinct by program text; "
                "non-trivial = the evaluation resolved a name or read an attribute"
                % (depth, "" if t == "quick" else " and 20 000 token-level mutations"))
    chk.assumptions = ["the vocabulary is the harness's: an escape route through a construct outside the grammar is not found",
                       "a read counts when it is made by the evaluator (expressions.py / constraints.py) or by library code it called on its "
                       "own behalf (graphtage helpers, standard library); reads an object performs inside its own methods do not",
                       "__class__ reads are exempt (the evaluator's isinstance checks cause them) and covered by canaries"]
    return chk.finish()


def replay(path):
    with open(path) as f:
        doc = json.load(f)
    corpus._quiet_env()
    chk = Check("C19", "exploration")
    p = doc["replay"]["program"]
    ev = evaluate(p)
    tr = [{k: v for k, v in e.items() if k not in ("holder", "nm", "outcome", "what")} for e in ev]
    verdicts, st = tlc.validate_traces("ExprTrace", [{"ev": tr}], constants=CONSTS)
    chk.add_trace_stats(st, "ExprTrace", 1)
    chk.count("a")
    chk.count("b")
    if verdicts[1]["v"] != "ACCEPT":
        chk.violation({"clause": verdicts[1]["clause"], "route": "format-string" if "format" in p else "other"},
                      {"program": p}, "evaluating %r: %s" % (p, verdicts[1]["clause"]))
    chk.rule = "replay"
    return chk.finish()
