"""Binding of the mechanism model spec/Matcher.tla to graphtage.matching.WeightedBipartiteMatcher.

Real matchers over scripted edges (every edge follows a chain of nested intervals) are driven by random sequences
of public operations; each run is recorded (answers, edge positions and matching after every operation) and TLC
decides whether it is a behaviour of the model (MatcherTrace.tla: internal choices - make_distinct's picks, ties of
the assignment - are searched).  An unexplained run is MODEL-DRIFT.  The same runs, driven to quiescence, give
BoundedTrace recordings for C04.
"""
import json
import os

from harness import tlc
from harness.common import MachineryError, scratch, use_repo

use_repo()

OPS = ("bounds", "tighten", "tighten", "matching", "is_complete")


def build(n, m, chains):
    from graphtage.bounds import Bounded, Range
    from graphtage.matching import WeightedBipartiteMatcher

    class Edge(Bounded):
        def __init__(self, cid):
            self.cid = cid
            self.chain = chains[cid]
            self.p = 0

        def bounds(self):
            lo, hi = self.chain[self.p]
            return Range(lo, hi)

        def tighten_bounds(self):
            if self.p < len(self.chain) - 1:
                self.p += 1
                return True
            return False

    edges = [Edge(c) for c in range(n * m)]
    fr = ["f%d" % i for i in range(n)]
    to = ["t%d" % j for j in range(m)]
    wm = WeightedBipartiteMatcher(fr, to, lambda f, t: edges[int(f[1:]) * m + int(t[1:])])
    return wm, edges, fr, to


def snapshot(wm, edges, fr, to):
    matched = wm._match is not None
    pairs = []
    if matched:
        pairs = sorted([fr.index(f) + 1, to.index(t) + 1] for f, (t, _) in wm._match.items())
    return {"ptr": [e.p + 1 for e in edges], "matched": matched, "match": pairs}


def record(n, m, chains, ops):
    """One recording for MatcherTrace: {n, m, chain, ev}; None if the run raised or hung (counted separately)."""
    from harness.watchdog import Expired, deadline
    ev = []
    try:
        with deadline(5.0):
            wm, edges, fr, to = build(n, m, chains)
            for op in ops:
                if op == "bounds":
                    b = wm.bounds()
                    ret = [int(b.lower_bound), int(b.upper_bound)]
                elif op == "tighten":
                    ret = [1 if wm.tighten_bounds() else 0]
                elif op == "is_complete":
                    ret = [1 if wm.is_complete() else 0]
                else:
                    _ = wm.matching
                    ret = []
                e = {"op": op, "ret": ret}
                e.update(snapshot(wm, edges, fr, to))
                ev.append(e)
    except Expired:
        return None, "hang"
    except Exception as ex:
        return None, "%s: %s" % (type(ex).__name__, str(ex)[:80])
    return {"n": n, "m": m, "chain": chains, "ev": ev}, ""


def bounded_trace(n, m, chains, matching_first=False):
    from harness.watchdog import Expired, deadline
    ev = []
    try:
        with deadline(5.0):
            wm, edges, fr, to = build(n, m, chains)
            if matching_first:
                _ = wm.matching
            b = wm.bounds()
            ev.append({"k": "b", "lo": int(b.lower_bound), "hi": int(b.upper_bound)})
            for _ in range(300):
                r = bool(wm.tighten_bounds())
                ev.append({"k": "t", "r": r})
                b = wm.bounds()
                ev.append({"k": "b", "lo": int(b.lower_bound), "hi": int(b.upper_bound)})
                if not r:
                    break
    except Expired:
        ev.append({"k": "hang"})
    except Exception as ex:
        ev.append({"k": "raise", "in": "matcher", "exc": type(ex).__name__})
    final = 0
    for e in reversed(ev):
        if e["k"] == "b":
            final = e["lo"]
            break
    return {"final": final, "ev": ev}


def validate(recs, name="MatcherTrace"):
    """Returns (set of explained indices, stats).  One TLC run per shape (N, M are constants of the model)."""
    acc = set()
    st = {"generated": 0, "distinct": 0, "runs": 0, "wall": 0.0}
    shapes = sorted({(r["n"], r["m"]) for r in recs})
    path = os.path.join(scratch(), "traces-%s.json" % name)
    with open(path, "w") as f:
        json.dump(recs, f)
    for n, m in shapes:
        cfg = ("SPECIFICATION TraceSpec\nCONSTANTS N = %d M = %d V = 0 MaxOps = 1000000\nINVARIANT Report\nCHECK_DEADLOCK FALSE\n"
               % (n, m))
        res = tlc.run_tlc("MatcherTrace", cfg, workers=1, env={"TRACE_FILE": path}, timeout=1500, name="%s-%dx%d" % (name, n, m))
        if not res.completed:
            raise MachineryError("trace validation with MatcherTrace did not complete:\n%s" % res.out[-2000:])
        acc |= {x["tid"] - 1 for x in res.printed if isinstance(x, dict) and x.get("v") == "ACCEPT"}
        st["generated"] += res.generated
        st["distinct"] += res.distinct
        st["runs"] += 1
        st["wall"] += res.wall
    os.unlink(path)
    return acc, st


def model_check(chk, tier):
    runs = [(2, 2, 1, 2), (1, 2, 2, 3), (2, 1, 2, 3)] if tier == "quick" else [(2, 2, 1, 4), (1, 2, 2, 4), (2, 1, 2, 4), (2, 3, 1, 1), (3, 2, 1, 1)]
    from concurrent.futures import ThreadPoolExecutor

    def one(run):
        n, m, v, ops = run
        cfg = ("SPECIFICATION Spec\nCONSTANTS N = %d M = %d V = %d MaxOps = %d\nINVARIANT ProgressShrinks\nINVARIANT QuiescentDefinitive\n"
               "INVARIANT MatchIsAssignment\nINVARIANT CacheSound\nINVARIANT Settled\nPROPERTY NeverWidens\nPROPERTY InternalNeverWidens\n"
               "PROPERTY Returns\nCHECK_DEADLOCK FALSE\n" % (n, m, v, ops))
        try:
            return tlc.run_tlc("Matcher", cfg, workers=6, timeout=1200, name="Matcher-mc-%dx%d" % (n, m))
        except MachineryError as ex:
            return ex          # an L2 model-checking run that does not finish is a note, not a failure of the check
    with ThreadPoolExecutor(max_workers=3) as ex:
        results = list(ex.map(one, runs))
    for (n, m, v, ops), res in zip(runs, results):
        if isinstance(res, MachineryError):
            chk.notes.append("Matcher.tla %dx%d V=%d MaxOps=%d: model checking did not finish (%s)" % (n, m, v, ops, str(res)[:80]))
            continue
        if not res.completed:
            chk.drift.append("Matcher.tla (%dx%d, V=%d) violates one of its properties on the model (lead only): %s"
                             % (n, m, v, res.invariant_violated or res.property_violated))
        chk.add_tlc(res, "Matcher", "L2 model of WeightedBipartiteMatcher %dx%d over 0..%d, all internal choices, all orders of <=%d "
                    "public operations: NeverWidens, ProgressShrinks, QuiescentDefinitive, MatchIsAssignment, CacheSound, Returns"
                    % (n, m, v, ops))


def prepare(chk, tier, r, schedules):
    """schedules: lists of chains (one per item) from SelectionGen / random; those with N*M items for a supported shape are used."""
    shapes = {1: [(1, 1)], 2: [(1, 2), (2, 1)], 3: [(1, 3), (3, 1)], 4: [(2, 2)], 6: [(2, 3), (3, 2)]}
    recs, raised = [], 0
    cap = 300 if tier == "quick" else 6000
    for ch in schedules:
        for n, m in shapes.get(len(ch), []):
            if len(recs) >= cap:
                break
            ops = [r.choice(OPS) for _ in range(r.randint(1, 6))]
            rec, why = record(n, m, ch, ops)
            if rec is None:
                raised += 1
                if len(chk.drift) < 8:
                    chk.drift.append("WeightedBipartiteMatcher %dx%d over scripted edges %s, operations %s: %s (the model never raises or hangs)"
                                     % (n, m, json.dumps(ch)[:200], ops, why))
            else:
                recs.append(rec)
    return recs, raised


def finish(chk, tier, recs, raised):
    """Model-check and validate the recorded runs (TLC sub-processes only: may run in a worker thread)."""
    model_check(chk, tier)
    shards = 8
    from concurrent.futures import ThreadPoolExecutor
    parts = [list(range(len(recs)))[k::shards] for k in range(shards)]
    with ThreadPoolExecutor(max_workers=shards) as ex:
        res = list(ex.map(lambda k: validate([recs[j] for j in parts[k]], "MatcherT-%d" % k) if parts[k] else (set(), None), range(shards)))
    unexplained = 0
    for k, (acc, st) in enumerate(res):
        if st is None:
            continue
        chk.add_trace_stats(st, "MatcherTrace", len(parts[k]))
        for pos, j in enumerate(parts[k]):
            if pos not in acc:
                unexplained += 1
                if len(chk.drift) < 8:
                    chk.drift.append("WeightedBipartiteMatcher run not explained by Matcher.tla: %s" % json.dumps(recs[j])[:600])
    chk.extra["matcher_runs_explained_by_Matcher_tla"] = "%d of %d (%d raised or hung)" % (len(recs) - unexplained, len(recs), raised)


def check(chk, tier, r, schedules):
    recs, raised = prepare(chk, tier, r, schedules)
    finish(chk, tier, recs, raised)
