"""C06 - both documents can be read back from the rendered diff.

spec/Render.tla: the printer's cells (SGR state, combining marks) and two JSON pushdown acceptors (from-view,
to-view) building path sets; spec/RenderMC.tla model-checks the acceptor on all short strings;
spec/RenderTrace.tla validates real renderings of JSONFormatter into Printer(ansi_color=True).
"""
import json
import multiprocessing as mp
import os
import re

from harness import corpus, docs, tlc
from harness.common import MachineryError, rng, tier, use_repo
from harness.runner import Check

use_repo()

SGR = re.compile(r"\x1b\[([0-9;]*)m")
SPICE = ['"', "\\", "->", " -> ", "~~", "++", "\n", "\t", "\x01", "\x7f", "é", "中", "\U0001F600", "̶", "̟", ",", ":", "[", "]",
         "{", "}", "'", "/", "null", "1", " ", "x", "ab", "\x1b", "\\u0041", "\\n", "-", ">",
         # text that Unicode normalisation would change: decomposed accents, compatibility singletons, Hangul jamo
         "e\u0301", "Ame\u0301lie", "\u212b", "\u2126", "\u212a", "\u1100\u1161", "\ufb01", "\u00e9"]


def spicy_string(r):
    return "".join(r.choice(SPICE) for _ in range(r.randint(0, 5)))


def spicy_doc(r, depth=2):
    c = r.random()
    if depth <= 0 or c < 0.45:
        k = r.random()
        if k < 0.6:
            return spicy_string(r)
        if k < 0.8:
            return r.choice((0, 1, 2, 10, -5, 123456789))
        if k < 0.9:
            return None
        return r.choice((0.5, -1.5, 2.25))
    if c < 0.75:
        return [spicy_doc(r, depth - 1) for _ in range(r.randint(0, 3))]
    return {spicy_string(r) if r.random() < 0.5 else r.choice(docs.RKEYS): spicy_doc(r, depth - 1) for _ in range(r.randint(0, 3))}


def untwin(x):
    """Booleans and integral floats have cross-type twins (1 / 1.0 / true): rewritten to strings (ambiguous domain)."""
    if isinstance(x, bool):
        return "T" if x else "F"
    if isinstance(x, float) and x == int(x):
        return str(x)
    if isinstance(x, list):
        return [untwin(v) for v in x]
    if isinstance(x, dict):
        return {k: untwin(v) for k, v in x.items()}
    return x


def cells_of(text):
    cells = []
    pos = 0
    for m in SGR.finditer(text):
        for ch in text[pos:m.start()]:
            cells.append({"t": "ch", "c": ord(ch), "p": []})
        codes = [int(x) if x else 0 for x in m.group(1).split(";")] if m.group(1) != "" else [0]
        cells.append({"t": "sgr", "c": 0, "p": codes})
        pos = m.end()
    for ch in text[pos:]:
        cells.append({"t": "ch", "c": ord(ch), "p": []})
    return cells


def render(a, b, opts, join_lists, join_dict):
    from graphtage.json import JSONFormatter
    from graphtage.printer import Printer
    from harness.cli import _Stream
    from harness.watchdog import deadline
    ta, tb = docs.build(a, opts), docs.build(b, opts)
    out = _Stream()
    with deadline(20.0):
        d = ta.diff(tb)
        p = Printer(out, ansi_color=True, quiet=True, options={"join_lists": join_lists, "join_dict_items": join_dict})
        JSONFormatter.DEFAULT_INSTANCE.print(p, d)
    return out.getvalue()


def _job(args):
    a, b, opts, jl, jd = args
    try:
        text = render(a, b, opts, jl, jd)
    except BaseException as ex:
        if type(ex).__name__ == "Expired":
            return {"status": "timeout"}
        return {"status": "raised", "exc": "%s: %s" % (type(ex).__name__, str(ex)[:120])}
    if "\x1b" in SGR.sub("", text):
        return {"status": "machinery", "why": "an escape character that is not part of an SGR sequence in the output"}
    return {"status": "ok", "cells": cells_of(text), "ref1": [ord(c) for c in json.dumps(a)], "ref2": [ord(c) for c in json.dumps(b)],
            "text": text}


def _init():
    corpus._quiet_env()


def run():
    chk = Check("C06", "model_checking")
    t = tier()
    n = 800 if t == "quick" else 5000
    # the acceptor on its own (TLC): total, comma-insensitive, balanced
    cfg = ("SPECIFICATION MCSpec\nCONSTANTS Alphabet = {91,93,123,125,44,58,49,34,97,45,62,32} MaxLen = %d\n"
           "INVARIANT Incremental\nINVARIANT CommaInsensitive\nINVARIANT Balanced\nCHECK_DEADLOCK FALSE\n" % (5 if t == "quick" else 6))
    res = tlc.run_tlc("RenderMC", cfg, workers=16, timeout=1500, name="Render-mc")
    chk.model_violation_must_hold(res, "RenderMC", "Incremental, CommaInsensitive, Balanced")
    chk.add_tlc(res, "RenderMC", "the JSON acceptor on every string over 12 JSON-relevant characters up to the length bound")
    r = rng("c06")
    jobs = []
    for i in range(n):
        c = r.random()
        if c < 0.22:
            # key renames (same and different length) next to dissimilar added / removed pairs: the matcher fixes a
            # pairing while the key's own edit is barely refined
            def word(n):
                return "".join(r.choice("abxyz") for _ in range(n))
            a = {word(r.randint(2, 5)): r.choice((1, "v", [1], {"q": 1})) for _ in range(r.randint(1, 3))}
            b = {}
            for k, v in a.items():
                k2 = k
                if r.random() < 0.6:
                    i = r.randrange(len(k))
                    k2 = k[:i] + r.choice("abxyz") + k[i + 1:] if r.random() < 0.7 else k + r.choice("abxyz")
                b[k2] = v if r.random() < 0.7 else r.choice((2, "w", [2]))
            if r.random() < 0.7:
                b[word(4) + "zz"] = r.choice((123456, "longer value", [1, 2, 3]))
            if r.random() < 0.3 and len(a) > 1:
                b.pop(next(iter(b)))
            if r.random() < 0.3:
                a, b = b, a
            if r.random() < 0.3:
                a, b = [a, 1], [b, 1]
        elif c < 0.27:
            # two (similar) strings trade places: the same pair of texts is edited in BOTH directions within one comparison
            x, y = r.choice((("alpha", "beta!"), ("graphtage", "graphtage 2"), ("abcabc", "bcabca"), ("x", "xyz"), ("left", "lift")))
            a, b = {"first": x, "second": y}, {"first": y, "second": x}
            if r.random() < 0.5:
                a, b = [x, y, 1], [y, x, 1]
        elif c < 0.33:
            # EQUAL container siblings (rows / records that occur twice), an earlier one edited in place, a later one left
            # alone or edited differently: per-node state shared between equal siblings would show in the rendering
            row = r.choice(([1, 2], [0, 0], {"name": "x", "v": 1}, {"k": [1]}, ["a", "b", "c"]))
            import copy as _copy
            n = r.randint(2, 3)
            a = [_copy.deepcopy(row) for _ in range(n)]
            b = [_copy.deepcopy(row) for _ in range(n)]
            for idx in r.sample(range(n), r.randint(1, n - 1) if n > 1 else 1):
                b[idx] = docs.mutate(b[idx], r, depth=1)
            if r.random() < 0.4:
                a, b = {"rows": a, "n": 1}, {"rows": b, "n": 1}
        elif c < 0.45:
            a = docs.random_doc(r, depth=r.choice((1, 2, 3)))
            b = docs.mutate(a, r)
        elif c < 0.85:
            a = spicy_doc(r)
            b = docs.mutate(a, r) if r.random() < 0.7 else spicy_doc(r)
            if isinstance(b, str) and isinstance(a, str) and r.random() < 0.5:
                b = a[: len(a) // 2] + spicy_string(r) + a[len(a) // 2:]
        elif c < 0.93:
            a = docs.random_doc(r, depth=2)
            b = docs.permute_keys(a, r)
        else:
            a = r.choice(docs.small_nested())
            b = r.choice(docs.small_nested())
        opts = r.choice(docs.ALL_OPTS)
        jl, jd = r.choice([(False, False), (True, True), (True, False), (False, True)])
        jobs.append((a, b, opts, jl, jd))
        if i % 10 == 9:
            jobs.append((b, a, opts, jl, jd))        # the same comparison in the opposite direction, right afterwards
    ctx = mp.get_context("fork")
    with ctx.Pool(min(16, os.cpu_count() or 4), initializer=_init, maxtasksperchild=300) as pool:
        results = pool.map(_job, jobs, chunksize=4)
    ok = []
    for job, res in zip(jobs, results):
        if res["status"] == "machinery":
            raise MachineryError(res["why"])
        if res["status"] == "ok":
            ok.append((job, res))
        else:
            chk.inconclusive += 1       # an internal error while diffing/rendering is C01/C13's business
    traces = [{"cells": res["cells"], "ref1": res["ref1"], "ref2": res["ref2"]} for _, res in ok]
    shards = 16
    from concurrent.futures import ThreadPoolExecutor
    parts = [list(range(len(traces)))[k::shards] for k in range(shards)]

    def job(k):
        if not parts[k]:
            return {}, {"generated": 0, "distinct": 0, "runs": 0, "wall": 0.0}
        return tlc.validate_traces("RenderTrace", [traces[i] for i in parts[k]],
                                   constants={"Alphabet": {0}, "MaxLen": 0} if False else None, name="RT-%d" % k)
    with ThreadPoolExecutor(max_workers=shards) as ex:
        res = list(ex.map(job, range(shards)))
    for k, (verdicts, st) in enumerate(res):
        chk.add_trace_stats(st, "RenderTrace", len(parts[k]))
        for pos, i in enumerate(parts[k], 1):
            (a, b, opts, jl, jd), rr = ok[i]
            chk.count((json.dumps(a), json.dumps(b), json.dumps(opts), jl, jd), nontrivial=(a != b))
            v = verdicts[pos]
            if v["v"] == "ACCEPT":
                continue
            if v["clause"].startswith("machinery:"):
                raise MachineryError("the acceptor rejects a reference rendering: %s / %s" % (json.dumps(a)[:200], json.dumps(b)[:200]))
            sig = {"clause": v["clause"], "strategy": opts["strategy"], "acceptor_error": v.get("fromErr") or v.get("toErr") or ""}
            chk.violation(sig, {"a": a, "b": b, "opts": opts, "join_lists": jl, "join_dict_items": jd},
                          "first %s second %s (options %s, join lists=%s dict=%s): %s [%s]; output %r" % (
                              json.dumps(a)[:200], json.dumps(b)[:200], json.dumps(opts), jl, jd, v["clause"],
                              v.get("fromErr") or v.get("toErr") or "", rr["text"][:300]))
    # the printer the renderings go through (L2 model: spec/Term.tla): context stack, marks, indentation and the terminal
    from props import _term
    _term.check(chk, t)
    _term.check_html(chk, t)          # the same stack writing <span> elements (spec/TermHtml.tla)
    for k in (0, len(ok) // 2):
        if ok:
            chk.sample({"first": ok[k][0][0], "second": ok[k][0][1], "options": ok[k][0][2], "rendered": ok[k][1]["text"][:300]})
    chk.rule = ("cases = %d pairs of JSON-representable documents (random trees and mutated copies, key-permuted copies, the "
                "small domain, and a string-focused generator: quotes, backslashes, '->', '~~', '++', control characters, "
                "non-BMP characters, the combining marks U+0336/U+031F themselves, escape-looking text) x 9 option sets x 4 "
                "join layouts, each diffed and rendered by JSONFormatter into Printer(ansi_color=True); distinct by (pair, "
                "options, layout); non-trivial = the documents differ" % n)
    chk.assumptions = ["cells are split lexically (SGR escapes vs characters) by a regular expression; everything else is "
                       "decided by the TLA+ acceptor",
                       "number lexemes are compared raw (both texts come from json.dumps)"]
    return chk.finish()


def replay(path):
    with open(path) as f:
        doc = json.load(f)
    rp = doc["replay"]
    corpus._quiet_env()
    chk = Check("C06", "model_checking")
    res = _job((rp["a"], rp["b"], rp["opts"], rp["join_lists"], rp["join_dict_items"]))
    chk.count("a")
    chk.count("b")
    chk.rule = "replay"
    if res["status"] != "ok":
        print("replay inconclusive: %s" % res)
        return chk.finish()
    verdicts, st = tlc.validate_traces("RenderTrace", [{"cells": res["cells"], "ref1": res["ref1"], "ref2": res["ref2"]}])
    chk.add_trace_stats(st, "RenderTrace", 1)
    if verdicts[1]["v"] != "ACCEPT":
        chk.violation({"clause": verdicts[1]["clause"]}, rp, "%s; output %r" % (verdicts[1]["clause"], res["text"][:300]))
    return chk.finish()
