"""Binding of the mechanism model spec/MultiSet.tla to graphtage.multiset.MultiSetEdit.

Real MultiSetEdit objects over scripted elements (the edit of element i of the first collection into element j of the
second follows a chain of nested intervals; removal / insertion costs are fixed by the elements' sizes) are driven by
random sequences of public operations; each run is recorded and TLC decides whether it is a behaviour of the model
(MultiSetTrace.tla; the matcher's internal choices are searched).  Unexplained runs are MODEL-DRIFT.  The same
objects driven to quiescence give BoundedTrace recordings for C04, and their final script gives C03's sum-of-parts.
"""
import json
import os

from harness import tlc
from harness.common import MachineryError, scratch, use_repo

use_repo()

OPS = ("bounds", "tighten", "tighten", "edits", "is_complete")
SHAPES = {  # name: (N, M, RS name, RS, IS name, IS)
    "2x1": (2, 1, "RS_12", [1, 2], "IS_1", [1]),
    "1x2": (1, 2, "RS_1", [1], "IS_21", [2, 1]),
    "2x2": (2, 2, "RS_21", [2, 1], "IS_12", [1, 2]),
    "3x2": (3, 2, "RS_123", [1, 2, 3], "IS_21", [2, 1]),
    "2x3": (2, 3, "RS_12", [1, 2], "IS_312", [3, 1, 2]),
}


def build(shape, chains):
    import graphtage
    from graphtage.bounds import Range
    from graphtage.edits import AbstractEdit
    from graphtage.multiset import MultiSetEdit
    n, m, _, rs, _, is_ = SHAPES[shape]
    edits = {}

    class ScriptEdit(AbstractEdit):
        def __init__(self, f, t):
            self.chain = chains[f.idx * m + t.idx]
            self.p = 0
            super().__init__(from_node=f, to_node=t)

        def bounds(self):
            lo, hi = self.chain[self.p]
            return Range(lo, hi)

        def tighten_bounds(self):
            if self.p < len(self.chain) - 1:
                self.p += 1
                return True
            return False

        def print(self, formatter, printer):
            printer.write("E")

    class SNode(graphtage.TreeNode):
        def __init__(self, side, idx, size):
            self.side = side
            self.idx = idx
            self.size = size

        def to_obj(self):
            return (self.side, self.idx)

        def children(self):
            return ()

        def calculate_total_size(self):
            return self.size

        def edits(self, node):
            key = (self.idx, node.idx)
            if key not in edits:
                edits[key] = ScriptEdit(self, node)
            return edits[key]

        def print(self, printer):
            printer.write("%s%d" % (self.side, self.idx))

        def __repr__(self):
            return "%s%d" % (self.side, self.idx)

    fs = [SNode("f", i, rs[i] - 1) for i in range(n)]
    ts = [SNode("t", j, is_[j] - 1) for j in range(m)]
    fn, tn = graphtage.MultiSetNode(fs), graphtage.MultiSetNode(ts)
    e = MultiSetEdit(fn, tn, fn._children, tn._children, auto_match_keys=False)
    return e, edits, fs, ts


def snapshot(e, edits, fs, ts, n, m):
    wm = e._matcher
    matched = wm._match is not None
    pairs = []
    if matched:
        pairs = sorted([f.idx + 1, t.idx + 1] for f, (t, _) in wm._match.items())
    return {"ptr": [(edits[(i, j)].p + 1) if (i, j) in edits else 1 for i in range(n) for j in range(m)],
            "matched": matched, "match": pairs}


def record(shape, chains, ops):
    from harness.watchdog import Expired, deadline
    n, m, _, rs, _, is_ = SHAPES[shape]
    ev = []
    try:
        with deadline(5.0):
            e, edits, fs, ts = build(shape, chains)
            for op in ops:
                if op == "bounds":
                    b = e.bounds()
                    ret = [int(b.lower_bound), int(b.upper_bound)]
                elif op == "tighten":
                    ret = [1 if e.tighten_bounds() else 0]
                elif op == "is_complete":
                    ret = [1 if e.is_complete() else 0]
                else:
                    list(e.edits())
                    ret = []
                x = {"op": op, "ret": ret}
                x.update(snapshot(e, edits, fs, ts, n, m))
                ev.append(x)
    except Expired:
        return None, "hang"
    except Exception as ex:
        return None, "%s: %s" % (type(ex).__name__, str(ex)[:80])
    return {"n": n, "m": m, "rs": rs, "is": is_, "shape": shape, "chain": chains, "ev": ev}, ""


def quiescent(shape, chains, edits_first=False):
    """(BoundedTrace recording, sum-of-parts observation) of one object driven to quiescence."""
    from harness.watchdog import Expired, deadline
    ev = []
    parts = None
    try:
        with deadline(5.0):
            e, edits, fs, ts = build(shape, chains)
            if edits_first:
                list(e.edits())
            b = e.bounds()
            ev.append({"k": "b", "lo": int(b.lower_bound), "hi": int(b.upper_bound)})
            for _ in range(300):
                r = bool(e.tighten_bounds())
                ev.append({"k": "t", "r": r})
                b = e.bounds()
                ev.append({"k": "b", "lo": int(b.lower_bound), "hi": int(b.upper_bound)})
                if not r:
                    break
            subs = list(e.edits())
            for s in subs:
                while s.tighten_bounds():
                    pass
            parts = {"reported": [int(e.bounds().lower_bound), int(e.bounds().upper_bound)],
                     "sum": sum(int(s.bounds().upper_bound) for s in subs), "n": len(subs)}
    except Expired:
        ev.append({"k": "hang"})
    except Exception as ex:
        ev.append({"k": "raise", "in": "multiset", "exc": type(ex).__name__})
    final = 0
    for x in reversed(ev):
        if x["k"] == "b":
            final = x["lo"]
            break
    return {"final": final, "ev": ev}, parts


def validate(recs, name="MultiSetTrace"):
    acc = set()
    st = {"generated": 0, "distinct": 0, "runs": 0, "wall": 0.0}
    path = os.path.join(scratch(), "traces-%s.json" % name)
    with open(path, "w") as f:
        json.dump(recs, f)
    for shape in sorted({r["shape"] for r in recs}):
        n, m, rsn, rs, isn, is_ = SHAPES[shape]
        cfg = ("SPECIFICATION TraceSpec\nCONSTANTS N = %d M = %d V = 0 NK = 0 MaxOps = 1000000 RS <- %s IS <- %s\nINVARIANT Report\n"
               "CHECK_DEADLOCK FALSE\n" % (n, m, rsn, isn))
        res = tlc.run_tlc("MultiSetTraceMC", cfg, workers=1, env={"TRACE_FILE": path}, timeout=1500, name="%s-%s" % (name, shape))
        if not res.completed:
            raise MachineryError("trace validation with MultiSetTrace did not complete:\n%s" % res.out[-2000:])
        acc |= {x["tid"] - 1 for x in res.printed if isinstance(x, dict) and x.get("v") == "ACCEPT"}
        st["generated"] += res.generated
        st["distinct"] += res.distinct
        st["runs"] += 1
        st["wall"] += res.wall
    os.unlink(path)
    return acc, st


def model_check(chk, tier):
    runs = [("2x1", 1, 1, 3), ("1x2", 1, 1, 3)] if tier == "quick" else \
        [("2x1", 2, 0, 3), ("1x2", 2, 0, 3), ("2x1", 1, 1, 4), ("1x2", 1, 1, 4), ("2x2", 1, 1, 2)]
    from concurrent.futures import ThreadPoolExecutor

    def one(run):
        shape, v, nk, ops = run
        n, m, rsn, rs, isn, is_ = SHAPES[shape]
        cfg = ("SPECIFICATION MSpec\nCONSTANTS N = %d M = %d V = %d NK = %d MaxOps = %d RS <- %s IS <- %s\n"
               "INVARIANT MProgressShrinks\nINVARIANT MQuiescentDefinitive\nINVARIANT MSumOfParts\nINVARIANT MatchIsAssignment\n"
               "INVARIANT CacheSound\nPROPERTY MNeverWidens\nPROPERTY MStepNeverWidens\nPROPERTY MReturns\nCHECK_DEADLOCK FALSE\n"
               % (n, m, v, nk, ops, rsn, isn))
        try:
            return tlc.run_tlc("MultiSetMC", cfg, workers=6, timeout=1200, name="MultiSet-mc-%s" % shape)
        except MachineryError as ex:
            return ex          # an L2 model-checking run that does not finish is a note, not a failure of the check
    with ThreadPoolExecutor(max_workers=3) as ex:
        results = list(ex.map(one, runs))
    for (shape, v, nk, ops), res in zip(runs, results):
        if isinstance(res, MachineryError):
            chk.notes.append("MultiSet.tla %s V=%d NK=%d MaxOps=%d: model checking did not finish (%s)" % (shape, v, nk, ops, str(res)[:80]))
            continue
        if not res.completed:
            chk.drift.append("MultiSet.tla (%s, V=%d, NK=%d) violates one of its properties on the model (lead only): %s"
                             % (shape, v, nk, res.invariant_violated or res.property_violated))
        chk.add_tlc(res, "MultiSet", "L2 model of MultiSetEdit %s over 0..%d with %d pre-matched key/value edits, all internal choices, all "
                    "orders of <=%d public operations: MNeverWidens, MProgressShrinks, MQuiescentDefinitive, MSumOfParts, MReturns"
                    % (shape, v, nk, ops))


def prepare(chk, tier, r, schedules):
    """Model-check; record real runs on the schedules whose length fits a shape; validate (drift only)."""
    by_len = {}
    for name, (n, m, *_rest) in SHAPES.items():
        by_len.setdefault(n * m, []).append(name)
    recs, raised = [], 0
    cap = 300 if tier == "quick" else 5000
    for ch in schedules:
        for shape in by_len.get(len(ch), []):
            if len(recs) >= cap:
                break
            ops = [r.choice(OPS) for _ in range(r.randint(1, 6))]
            rec, why = record(shape, ch, ops)
            if rec is None:
                raised += 1
                if len(chk.drift) < 10:
                    chk.drift.append("MultiSetEdit %s over scripted elements %s, operations %s: %s (the model never raises or hangs)"
                                     % (shape, json.dumps(ch)[:200], ops, why))
            else:
                recs.append(rec)
    return recs, raised


def finish(chk, tier, recs, raised):
    """Model-check and validate the recorded runs (TLC sub-processes only: may run in a worker thread)."""
    model_check(chk, tier)
    shards = 8
    from concurrent.futures import ThreadPoolExecutor
    parts = [list(range(len(recs)))[k::shards] for k in range(shards)]
    with ThreadPoolExecutor(max_workers=shards) as ex:
        res = list(ex.map(lambda k: validate([recs[j] for j in parts[k]], "MSetT-%d" % k) if parts[k] else (set(), None), range(shards)))
    unexplained = 0
    for k, (acc, st) in enumerate(res):
        if st is None:
            continue
        chk.add_trace_stats(st, "MultiSetTrace", len(parts[k]))
        for pos, j in enumerate(parts[k]):
            if pos not in acc:
                unexplained += 1
                if len(chk.drift) < 10:
                    chk.drift.append("MultiSetEdit run not explained by MultiSet.tla: %s" % json.dumps(recs[j])[:600])
    chk.extra["multiset_runs_explained_by_MultiSet_tla"] = "%d of %d (%d raised or hung)" % (len(recs) - unexplained, len(recs), raised)


def check(chk, tier, r, schedules):
    recs, raised = prepare(chk, tier, r, schedules)
    finish(chk, tier, recs, raised)
