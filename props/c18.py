"""C18 - Python objects are converted faithfully and cycles never hang.

spec/Builder.tla: L1 Unfold (the abstract value of an object graph as a path set; Expected outcome per
cycle options) and the L2 work-stack machine of Builder.build_tree, which TLC checks to refine L1 for
every small graph (faithful, sharing is not a cycle, termination).  spec/BuilderGen.tla enumerates the
graphs; each is materialised as real Python objects and pushed through json.build_tree, BasicBuilder and
pydiff.build_tree under every option set; spec/BuilderTrace.tla validates value, cycle outcome and copy().
"""
import json
import multiprocessing as mp
import os
import sys

from harness import corpus, tlc
from harness.common import MachineryError, rng, tier, use_repo
from harness.runner import Check

use_repo()

SCALARS = {"int:1": 1, "str:a": "a", "null:": None, "str:": ""}
SC_LIST = ["int:1", "str:a", "null:", "str:"]
KEYS = ["k:str:a", "k:str:b", "k:str:c"]


class Unsupported(Exception):
    pass


from collections import namedtuple

Pair = namedtuple("Pair", "left right")      # a tuple subclass: every stock builder must treat it as a tuple
_other_builder = []


def define_other_builder():
    """Somebody else's Builder subclass with its own handling of Pair, merely DEFINED in this process (never used): class-level
    registries must not be shared between builder classes."""
    if _other_builder:
        return
    import graphtage
    from graphtage import builder as gb

    class SomebodyElsesBuilder(gb.BasicBuilder):
        @gb.Builder.expander(Pair)
        def expand_pair(self, obj):
            yield obj.left

        @gb.Builder.builder(Pair)
        def build_pair(self, obj, children):
            return graphtage.StringNode("a pair, as somebody else's builder sees it")
    _other_builder.append(SomebodyElsesBuilder)


def materialise(g, want_objs=False, named=True):
    """Real Python objects for graph g (list of {kind, kids}); returns the object for node 1."""
    objs = {}
    state = {}

    def target(t):
        if t < 0:
            return SCALARS[SC_LIST[-t - 1]]
        return build(t)

    def build(n):
        if n in objs:
            return objs[n]
        node = g[n - 1]
        if node["kind"] == "tuple":
            if state.get(n) == "building":
                raise Unsupported("a cycle through tuples only cannot exist in Python")
            state[n] = "building"
            val = tuple(target(t) for t in node["kids"])
            if named and len(val) == 2 and n % 2 == 1:
                val = Pair(*val)            # a named tuple in every second two-slot tuple position
            state[n] = "done"
            objs[n] = val
            return val
        if node["kind"] == "list":
            val = []
            objs[n] = val
            for t in node["kids"]:
                val.append(target(t))
            return val
        if node["kind"] in ("set", "fset"):
            members = [target(t) for t in node["kids"]]
            val = set(members) if node["kind"] == "set" else frozenset(members)
            objs[n] = val
            return val
        if node["kind"] == "dict":
            val = {}
            objs[n] = val
            for i, t in enumerate(node["kids"]):
                val[KEYS[i][6:]] = target(t)
            return val
        raise MachineryError("unknown kind %r" % node["kind"])
    root = build(1)
    if want_objs:
        return root, objs
    return root


def scalar_label(v):
    from graphtage.object_set import IdentityHash
    if isinstance(v, IdentityHash):
        return "CYC"
    if v is None:
        return "null:"
    if isinstance(v, bool):
        return "bool:%s" % v
    if isinstance(v, int):
        return "int:%d" % v
    if isinstance(v, float):
        return "float:%r" % v
    if isinstance(v, bytes):
        v = v.decode("utf-8", "replace")
    if isinstance(v, str):
        return "str:" + v
    return "other:" + type(v).__name__


def path_set(v, prefix=()):
    """Path set of a plain Python value as produced by TreeNode.to_obj()."""
    from collections import Counter
    out = []
    if isinstance(v, (list, tuple)):
        out.append([list(prefix), "list"])
        for i, x in enumerate(v):
            out += path_set(x, prefix + (str(i),))
    elif isinstance(v, Counter):
        out.append([list(prefix), "mset"])
        for x, n in v.items():
            for k in range(n):
                out += path_set(x, prefix + ("e:%s#%d" % (scalar_label(x) if not isinstance(x, (list, tuple, dict)) else "c", k),))
    elif isinstance(v, dict):
        out.append([list(prefix), "map"])
        for k, x in v.items():
            out += path_set(x, prefix + ("k:" + scalar_label(k),))
    else:
        out.append([list(prefix), scalar_label(v)])
    return out


def _plain_member(v):
    """A member's value as comparable data: scalars and containers as they are, anything else (methods, objects) by kind."""
    if isinstance(v, (int, float, str, bool)) or v is None:
        return v
    if isinstance(v, (list, tuple)):
        return [_plain_member(x) for x in v]
    if isinstance(v, dict):
        if len(v) == 1 and not isinstance(list(v.keys())[0], (str, int)):
            return "<object>"          # how a nested PyObj reads back: {class name node: {...}}
        return {str(k): _plain_member(x) for k, x in v.items()}
    return "<object>"


def object_zoo():
    """Instances of small class hierarchies: (label, object)."""
    class Shape:
        sides = 0
        units = ["cm"]

        def __init__(self):
            self.name = "s"

        @property
        def label(self):
            return "L%d" % self.sides

    class Square(Shape):
        sides = 4

        def __init__(self):
            super().__init__()
            self.w = 2

    class Unit(Square):
        pass

    class SlotBase:
        __slots__ = ("a",)

        def __init__(self):
            self.a = 1

    class SlotChild(SlotBase):
        __slots__ = ("b",)

        def __init__(self):
            super().__init__()
            self.b = [1, 2]

    class Plain:
        def __init__(self):
            self.x, self.y = 1, "t"

    class Mixin:
        tag = "m"

    class Both(Plain, Mixin):
        z = 0.5
    return [("Shape", Shape()), ("Square(Shape)", Square()), ("Unit(Square(Shape))", Unit()), ("SlotBase", SlotBase()),
            ("SlotChild(SlotBase)", SlotChild()), ("Plain", Plain()), ("Both(Plain, Mixin)", Both())]


def convert(g, entry, strategy, check, ignore):
    import graphtage
    from graphtage import builder as gbuilder
    from graphtage import json as gjson
    from graphtage import pydiff
    from harness.watchdog import Expired, deadline
    rec = {"g": g, "check": check, "ignore": ignore, "strict": entry != "json", "outcome": "value", "paths": [],
           "copied": True, "copyPaths": [], "exc": ""}
    define_other_builder()
    try:
        obj, objs = materialise(g, True, named=entry not in ("ast", "pickle"))      # (source text / pickles: plain tuples)
    except Unsupported:
        return None
    opts = graphtage.BuildOptions(allow_key_edits=(strategy != "none"), auto_match_keys=(strategy == "auto"),
                                  check_for_cyces=check, ignore_cycles=ignore)
    old = sys.getrecursionlimit()
    try:
        with deadline(3.0):
            if entry == "json":
                sys.setrecursionlimit(120)
                tree = gjson.build_tree(obj, opts)
            elif entry == "basic":
                tree = gbuilder.BasicBuilder(opts).build_tree(obj)
            elif entry == "ast":
                # the Python-source entry point: the literal's AST (ast_to_tree wraps it in a module body)
                import ast
                tree = pydiff.ast_to_tree(ast.parse(repr(obj)), opts)
            elif entry == "pickle":
                # the pickle file type: pickle -> fickling AST -> ast_to_tree (an assignment `result = <value>`)
                import pickle
                import tempfile
                from harness.common import scratch
                fd, path = tempfile.mkstemp(suffix=".pickle", dir=scratch())
                with os.fdopen(fd, "wb") as f:
                    f.write(pickle.dumps(obj, protocol=4))
                try:
                    tree = graphtage.FILETYPES_BY_TYPENAME["pickle"].build_tree(path, opts)
                finally:
                    os.unlink(path)
            elif entry == "basic-reused":
                # one builder instance used for several conversions: first every inner container object on its own
                # (whatever that yields, including a cycle error), then the whole structure
                b = gbuilder.BasicBuilder(opts)
                for n in sorted(objs):
                    if n != 1 and isinstance(objs[n], (list, dict)):
                        try:
                            b.build_tree(objs[n])
                        except Exception:
                            pass
                tree = b.build_tree(obj)
            else:
                tree = pydiff.build_tree(obj, opts)
            sys.setrecursionlimit(old)
            value_of = {"ast": lambda v: v[0], "pickle": lambda v: v[0]["value"]}.get(entry, lambda v: v)
            rec["paths"] = path_set(value_of(tree.to_obj()))
    except Expired:
        rec["outcome"] = "hang"
        return rec
    except ValueError as ex:
        if "cycle" in str(ex).lower():
            rec["outcome"] = "cycle-error"
        else:
            rec["outcome"], rec["exc"] = "other-error", "ValueError: %s" % str(ex)[:100]
        return rec
    except RecursionError:
        rec["outcome"], rec["exc"] = "other-error", "RecursionError"
        return rec
    except Exception as ex:
        rec["outcome"], rec["exc"] = "other-error", "%s: %s" % (type(ex).__name__, str(ex)[:100])
        return rec
    finally:
        sys.setrecursionlimit(old)
    try:
        with deadline(3.0):
            cp = tree.copy()
            rec["copyPaths"] = path_set(value_of(cp.to_obj()))
            # "an equal tree": by the nodes' own equality too, in both directions (for trees of acyclic structures; the
            # placeholder of an ignored cycle compares by identity)
            if not is_cyclic(g) and not (cp == tree and tree == cp):
                rec["copied"], rec["exc"] = False, "copy: the copy does not compare equal to the tree (==)"
    except Expired:
        rec["copied"], rec["exc"] = False, "copy: timeout"
    except Exception as ex:
        rec["copied"], rec["exc"] = False, "copy: %s: %s" % (type(ex).__name__, str(ex)[:100])
    return rec


def is_cyclic(g):
    """A cycle reachable from object 1 (only used to skip runs that carry no expectation)."""
    def visit(n, anc):
        if n in anc:
            return True
        return any(t > 0 and visit(t, anc | {n}) for t in g[n - 1]["kids"])
    return visit(1, frozenset())


def _job(args):
    return convert(*args)


def _init():
    corpus._quiet_env()


CONSTS = {"Scalars": "<- MCScalars", "Keys": "<- MCKeys"}


def run():
    chk = Check("C18", "model_checking")
    t = tier()
    nobj, maxkids = (2, 2)
    kinds = '{"list","dict"}'
    # L2 refines L1 on the model
    cfg = ("SPECIFICATION GenSpec\nCONSTANTS Scalars <- MCScalars Keys <- MCKeys NObj = %d MaxKids = %d Kinds = %s\n"
           "INVARIANT Faithful\nINVARIANT SharingIsNotACycle\nCONSTRAINT Bounded\nPROPERTY Terminates\nCHECK_DEADLOCK FALSE\n"
           % (nobj, maxkids, kinds))
    res = tlc.run_tlc("BuilderGen", cfg, workers=16, timeout=1500, name="Builder-mc")
    chk.model_violation_must_hold(res, "BuilderGen", "Faithful, SharingIsNotACycle, Terminates")
    chk.add_tlc(res, "Builder", "work-stack machine refines Unfold for all graphs with %d objects, <=%d slots, x cycle options" % (nobj, maxkids))
    graphs = []
    for ks, n, mk in (('{"list","dict"}', 2, 2), ('{"list","tuple","dict"}', 1, 3), ('{"list","set","fset"}', 2, 2)) + \
            ((('{"list","dict"}', 3, 1),) if t == "quick" else (('{"list","tuple","dict"}', 2, 2), ('{"list","dict"}', 3, 1))):
        cfg = ("SPECIFICATION EmitSpec\nCONSTANTS Scalars <- MCScalars Keys <- MCKeys NObj = %d MaxKids = %d Kinds = %s\n"
               "INVARIANT Emit\nCHECK_DEADLOCK FALSE\n" % (n, mk, ks))
        res = tlc.run_tlc("BuilderGen", cfg, workers=1, timeout=1500, name="BuilderGen")
        got = [x["g"] for x in res.printed if isinstance(x, dict) and "g" in x]
        if not got:
            raise MachineryError("graph generator produced nothing")
        chk.add_tlc(res, "BuilderGen", "all %d graphs with %d objects of kinds %s, <=%d slots" % (len(got), n, ks, mk))
        graphs += got
    chk.exhaustive = True
    chk.extra["graphs_enumerated_by_tlc"] = len(graphs)
    r = rng("c18")
    # larger random graphs (4-7 objects: empty containers next to cycles, deep sharing), judged by the same TLA+ contract
    n_random = 1500 if t == "quick" else 20000
    for _ in range(n_random):
        nobj_r = r.randint(3, 7)
        g = []
        for i in range(1, nobj_r + 1):
            kind = r.choice(("list", "list", "dict", "tuple", "set", "fset"))
            nk = r.choice((0, 0, 1, 2, 2, 3))
            if kind == "dict":
                nk = min(nk, 3)
            kids = []
            for _ in range(nk):
                c = r.random()
                if kind in ("set", "fset") or c < 0.45:
                    kids.append(-r.randint(1, 4))
                elif c < 0.85:
                    kids.append(r.randint(min(i + 1, nobj_r), nobj_r))       # forward edge (tree / sharing)
                else:
                    kids.append(r.randint(1, nobj_r))                        # any edge (possibly a cycle)
            g.append({"kind": kind, "kids": kids})
        graphs.append(g)
    chk.extra["random_graphs"] = n_random
    jobs = []
    combos = [(e, s, c, i) for e in ("json", "basic", "pydiff", "basic-reused", "ast", "pickle") for s in ("auto", "match", "none")
              for c, i in ((True, False), (True, True), (False, False))]
    per_graph = 6 if t == "quick" else len(combos)
    skipped_unspecified = 0
    for g in graphs:
        cyc = is_cyclic(g)
        for (e, s, c, i) in (r.sample(combos, per_graph) if per_graph < len(combos) else combos):
            if e in ("json", "ast", "pickle") and (c, i) != (False, False) and (cyc or e != "json"):
                continue       # json.build_tree / the AST and pickle entry points have no cycle options (json.build_tree takes
                               # the options object all the same: for ACYCLIC graphs every setting must give the value)
            if e in ("ast", "pickle"):
                kinds_g = {nd["kind"] for nd in g}
                refs = [t_ for nd in g for t_ in nd["kids"] if t_ > 0]
                if cyc or "fset" in kinds_g or any(nd["kind"] == "set" and not nd["kids"] for nd in g) or (e == "pickle" and ("set" in kinds_g or len(refs) != len(set(refs)))):
                    continue   # source text / a pickle stream cannot express these (cycles; frozenset is a call; memoised sharing)
            if e == "json" and any(nd["kind"] in ("set", "fset") for nd in g):
                continue       # json.build_tree does not accept sets
            if cyc and e != "json" and not c:
                # cyclic input with cycle checking switched off: neither a value nor termination is promised
                skipped_unspecified += 1
                continue
            jobs.append((g, e, s, c, i))
    chk.extra["runs_skipped_no_expectation"] = skipped_unspecified
    ctx = mp.get_context("fork")
    with ctx.Pool(min(16, os.cpu_count() or 4), initializer=_init, maxtasksperchild=3000) as pool:
        records = pool.map(_job, jobs, chunksize=64)
    keep = [(j, rec) for j, rec in zip(jobs, records) if rec is not None]
    # without cycle checking a cyclic structure is not required to terminate by the statement: those runs are
    # executed (under the watchdog) but carry no expectation (Expected = unspecified) except for json (must terminate)
    traces = [{k: rec[k] for k in ("g", "check", "ignore", "strict", "outcome", "paths", "copied", "copyPaths")} for _, rec in keep]
    shards = 8
    from concurrent.futures import ThreadPoolExecutor
    parts = [list(range(len(traces)))[k::shards] for k in range(shards)]

    def job(k):
        return tlc.validate_traces("BuilderTrace", [traces[i] for i in parts[k]], constants=CONSTS, name="BT-%d" % k)
    with ThreadPoolExecutor(max_workers=shards) as ex:
        res = list(ex.map(job, range(shards)))
    for k, (verdicts, st) in enumerate(res):
        chk.add_trace_stats(st, "BuilderTrace", len(parts[k]))
        for pos, i in enumerate(parts[k], 1):
            (g, e, s, c, ig), rec = keep[i]
            shared_or_cyclic = len({json.dumps(x) for x in g}) >= 1 and any(t_ > 0 for n in g for t_ in n["kids"])
            chk.count((json.dumps(g), e, s, c, ig), nontrivial=shared_or_cyclic)
            v = verdicts[pos]
            if v["v"] == "ACCEPT":
                continue
            if e != "json" and not c and v["clause"] == "conversion-did-not-terminate":
                chk.inconclusive += 1          # cycle checking switched off: termination is not promised
                continue
            sig = {"clause": v["clause"], "entry": e, "strategy": s, "exc": rec["exc"].split(":")[0] + (":" + rec["exc"].split(":")[1].strip() if rec["exc"].startswith("copy:") else "")}
            chk.violation(sig, {"g": g, "entry": e, "strategy": s, "check": c, "ignore": ig},
                          "graph %s via %s (strategy %s, check=%s, ignore=%s): %s; outcome %s %s" % (
                              json.dumps(g), e, s, c, ig, v["clause"], rec["outcome"], rec["exc"]))
    chk.sample({"graph": keep[len(keep) // 2][0][0], "entry": keep[len(keep) // 2][0][1], "outcome": keep[len(keep) // 2][1]["outcome"],
                "paths": keep[len(keep) // 2][1]["paths"][:8]})
    # instances of user-defined classes (pydiff): every public member the object HAS - own, set by a base __init__, inherited
    # class attributes, properties, base-class slots - is in the tree with its value (spec/Functional.tla: one value per key)
    from harness import functional
    ogroups, ometa = [], []
    for label, obj in object_zoo():
        want = {a: _plain_member(getattr(obj, a)) for a in dir(obj) if not a.startswith("__")}
        for s_ in ("auto", "match", "none"):
            import graphtage
            from graphtage import pydiff
            opts = graphtage.BuildOptions(allow_key_edits=(s_ != "none"), auto_match_keys=(s_ == "auto"))
            for wrap in ("root", "in list", "as dict value"):
                try:
                    o2 = obj if wrap == "root" else [obj, 1] if wrap == "in list" else {"k": obj}
                    tree = pydiff.build_tree(o2, opts)
                    node = tree if wrap == "root" else list(tree.children())[0] if wrap == "in list" else None
                    if node is None:
                        got_all = tree.to_obj()
                        node_obj = got_all["k"] if "k" in got_all else list(got_all.values())[0]
                    else:
                        node_obj = node.to_obj()
                    members = list(node_obj.values())[0]
                    got = {str(k): _plain_member(v) for k, v in members.items()}
                    raised, why = False, ""
                except Exception as ex:
                    got, raised, why = {}, True, "%s: %s" % (type(ex).__name__, str(ex)[:100])
                key = "object|%s|%s|%s" % (label, s_, wrap)
                ogroups.append([{"k": key, "v": json.dumps(want, sort_keys=True, default=str), "raised": False, "how": "the object itself (dir / getattr)"},
                                {"k": key, "v": json.dumps(got, sort_keys=True, default=str), "raised": raised, "how": "pydiff.build_tree " + why}])
                ometa.append((label, s_, wrap))
    overdicts, ost = functional.validate_groups(ogroups, name="C18-objects")
    chk.add_trace_stats(ost, "FunctionalTrace", sum(len(g) for g in ogroups))
    for (label, s_, wrap), g, v in zip(ometa, ogroups, overdicts):
        chk.count(("object", label, s_, wrap))
        if v["v"] != "ACCEPT":
            chk.violation({"clause": "members-of-the-object-missing-or-different-in-the-tree", "entry": "pydiff", "strategy": s_},
                          {"object": label, "strategy": s_, "wrap": wrap},
                          "%s (%s, strategy %s): the tree has members %s, the object %s" % (label, wrap, s_, g[1]["v"][:300], g[0]["v"][:300]))
    chk.rule = ("cases = (object graph, entry point, dictionary strategy, cycle options): every graph enumerated by TLC "
                "(objects of kind list/tuple/dict with slots pointing at any object or scalar: trees, DAGs with sharing, "
                "self- and mutual cycles), materialised as Python objects and converted by json.build_tree, "
                "BasicBuilder.build_tree (a fresh builder, and one builder instance reused after converting the inner objects) and "
                "pydiff.build_tree, pydiff.ast_to_tree on the literal's source text and the pickle file type (acyclic graphs); %s option combinations per graph; distinct by the tuple; "
                "non-trivial = some slot points at a container object" % ("4 sampled" if t == "quick" else "all"))
    chk.assumptions = ["the abstract value of a tree is the path set of TreeNode.to_obj() (tuples as lists)",
                       "cycles through tuples only cannot be built in Python and are skipped",
                       "without cycle checking, termination on cyclic input is only required of json.build_tree"]
    return chk.finish()


def replay(path):
    with open(path) as f:
        doc = json.load(f)
    rp = doc["replay"]
    if "g" not in rp:
        print("C18 replay: re-running the quick check; original case: %s" % json.dumps(rp, default=str)[:300])
        return run()
    corpus._quiet_env()
    chk = Check("C18", "model_checking")
    rec = convert(rp["g"], rp["entry"], rp["strategy"], rp["check"], rp["ignore"])
    tr = {k: rec[k] for k in ("g", "check", "ignore", "strict", "outcome", "paths", "copied", "copyPaths")}
    verdicts, st = tlc.validate_traces("BuilderTrace", [tr], constants=CONSTS)
    chk.add_trace_stats(st, "BuilderTrace", 1)
    chk.count("a")
    chk.count("b")
    if verdicts[1]["v"] != "ACCEPT":
        chk.violation({"clause": verdicts[1]["clause"]}, rp, "%s: %s %s" % (verdicts[1]["clause"], rec["outcome"], rec["exc"]))
    chk.rule = "replay"
    return chk.finish()
