#!/usr/bin/env python3
"""Verify a seeded change delivered in a scratch worktree and record which checks catch it.

usage: tools/seeded.py <worktree> <name> <property> [check ...]
  1. the worktree differs from HEAD only under graphtage/ and patch.diff reproduces the difference
  2. the unedited test suite passes with the change (66 passed)
  3. demo.py fails with the change and passes without it
  4. files are copied to /verif/seeded/<name>/ ; each listed check (default: the property's own) is run with
     VERIF_REPO=<worktree>; meta.json records the outcome
"""
import json
import os
import re
import shutil
import subprocess
import sys
import time

VERIF = os.path.dirname(os.path.dirname(os.path.abspath(__file__)))
PY = "/venv/bin/python"


def sh(cmd, cwd, timeout=3600, env=None):
    e = dict(os.environ)
    if env:
        e.update(env)
    p = subprocess.run(cmd, cwd=cwd, shell=isinstance(cmd, str), stdout=subprocess.PIPE, stderr=subprocess.STDOUT, text=True,
                       timeout=timeout, env=e)
    return p.returncode, p.stdout


def main():
    wt, name, prop = sys.argv[1], sys.argv[2], sys.argv[3]
    checks = [prop] + [c for c in sys.argv[4:] if c != prop]
    meta = {"name": name, "property": prop, "worktree": wt, "verified": {}, "checks": {}}
    rc, diff = sh("git diff -- graphtage", wt)
    if not diff.strip():
        print("no change under graphtage/ in", wt)
        return 1
    with open(os.path.join(wt, "patch.diff"), "w") as f:
        f.write(diff)
    if "--skip-verify" not in os.environ.get("SEEDED_FLAGS", ""):
        t0 = time.time()
        rc, out = sh("%s -m pytest -q -p no:cacheprovider --timeout=900" % PY, wt)
        m = re.search(r"(\d+) passed", out)
        meta["verified"]["tests"] = out.strip().splitlines()[-1]
        if rc != 0 or not m or int(m.group(1)) != 66 or "failed" in out.splitlines()[-1]:
            print("test suite does not pass with the change:", out[-500:])
            return 1
        rc1, out1 = sh("%s demo.py" % PY, wt, timeout=600)
        sh("git apply -R patch.diff", wt)
        rc0, out0 = sh("%s demo.py" % PY, wt, timeout=600)
        sh("git apply patch.diff", wt)
        meta["verified"]["demo_with_change_rc"] = rc1
        meta["verified"]["demo_without_change_rc"] = rc0
        meta["verified"]["demo_with_change_tail"] = out1[-600:]
        if rc1 == 0 or rc0 != 0:
            print("demo does not discriminate: with change rc=%s, without rc=%s\n%s" % (rc1, rc0, out0[-500:]))
            return 1
    dest = os.path.join(VERIF, "seeded", name)
    os.makedirs(dest, exist_ok=True)
    for fn in ("patch.diff", "demo.py", "notes.txt"):
        if os.path.exists(os.path.join(wt, fn)):
            shutil.copy(os.path.join(wt, fn), os.path.join(dest, fn))
    for c in checks:
        t0 = time.time()
        rc, out = sh("./check %s --tier quick" % c, VERIF, env={"VERIF_REPO": wt}, timeout=3600)
        lines = [l for l in out.splitlines() if l.startswith("VIOLATION") or l.startswith("  violation class") or l.startswith(c + ":")]
        first = next((l.strip() for l in out.splitlines() if l.startswith("  ") and "violation class" not in l), "")
        meta["checks"][c] = {"rc": rc, "caught": rc == 1, "wall_s": round(time.time() - t0, 1),
                             "summary": [l[:300] for l in lines[:6]], "first_message": first[:400]}
        print("%s on %s: rc=%d %s" % (c, name, rc, "CAUGHT" if rc == 1 else "missed" if rc == 0 else "MACHINERY"))
    notes = ""
    if os.path.exists(os.path.join(dest, "notes.txt")):
        notes = open(os.path.join(dest, "notes.txt")).read()
    meta["needs_to_manifest"] = notes[:1500]
    meta["ran"] = ["test suite with the change (66 passed)", "demo.py with and without the change",
                   "VERIF_REPO=<worktree with the change> ./check <id> --tier quick for: " + " ".join(checks)]
    old = {}
    mp = os.path.join(dest, "meta.json")
    if os.path.exists(mp):
        old = json.load(open(mp))
        old_checks = old.get("checks", {})
        old_checks.update(meta["checks"])
        meta["checks"] = old_checks
        if not meta["verified"]:
            meta["verified"] = old.get("verified", {})
    json.dump(meta, open(mp, "w"), indent=1)
    return 0


if __name__ == "__main__":
    sys.exit(main())
