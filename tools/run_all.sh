#!/bin/sh
# Runs every registered quick (or thorough) check on /repo's working tree; prints one line per check.
cd "$(dirname "$0")/.."
tier=${1:-quick}
for id in $(python3 -c "import json;print(' '.join(c['property_id'] for c in json.load(open('MANIFEST.json'))['checks']))"); do
  out=$(./check $id --tier $tier 2>&1); rc=$?
  echo "rc=$rc $(echo "$out" | tail -1)"
  if [ $rc -ne 0 ]; then echo "$out" | grep -E "VIOLATION|MACHINERY|KNOWN" | head -5; fi
done
