#!/usr/bin/env python3
"""Regenerates /verif/MANIFEST.json from the table below (single source of truth) and validates it."""
import json
import os
import subprocess
import sys

HERE = os.path.dirname(os.path.dirname(os.path.abspath(__file__)))

TITLES = {}
with open(os.path.join(HERE, "properties.jsonl")) as f:
    for line in f:
        p = json.loads(line)
        TITLES[p["id"]] = p["title"]

# id -> (level, technique, level text, level note, design ref, engine)
CLAIMED = {
    "C16": ("model_checking",
            "TLA+ contract PQ.tla checked by TLC; all PQ behaviours enumerated by TLC replayed on the real heaps; "
            "recorded executions validated by TLC against PQTrace.tla",
            "PQ.tla states the queue contract (size, peek/pop return a minimal live item). TLC enumerates every "
            "behaviour up to a length bound over a small key domain (plus simulated and random long runs with "
            "duplicates) for min- and max-heap; each is executed on the real FibonacciHeap/MaxFibonacciHeap and "
            "what the heap answered at every step is validated by TLC against the contract. Exhaustive within the "
            "bound, sampled beyond; histories are the quantifier of this property, which is exactly what TLC enumerates.",
            "Trusted: the 60-line driver that maps abstract operations to heap calls and logs node keys; TLC. "
            "Preconditions from the docstrings are enabling conditions of the generator.",
            "DESIGN.md 4.7, 5 (C16)", "pq"),
}

_SCRIPT_NOTE = ("Trusted: harness/project.py (tree -> node table with content hashes) and harness/flatten.py (edit tree -> "
                "events; node identity -> table id); TLC. Numbers and booleans of different type (1 / 1.0 / true) are different "
                "values; XML element text is data modulo surrounding whitespace (the equality C02's anchors name). Mechanism "
                "models (L2, MODEL-DRIFT only, never a verdict) bound to the real classes run alongside: Choose.tla (edit "
                "selection, C02), Driver.tla (driving loops of tree.py, C03).")
_SCRIPT_TECH = ("TLA+ contract EditScript.tla; TLC model-checks that clause-respecting scripts read back both documents "
                "(EditScriptMC); flattened scripts of real diffs validated by TLC against EditScriptTrace.tla")
CLAIMED.update({
    "C01": ("model_checking", _SCRIPT_TECH,
            "EditScript.tla defines a legal script as events against a stack of frames (exactly-once per side, list "
            "order per side, role-wise pairing of components). TLC proves on small projected documents x 9 option "
            "sets that every clause-respecting script reads back both documents; every real diff of the corpus "
            "(small exhaustive domain sampled, random/mutated JSON trees, multisets, XML, all 9 option sets) is "
            "flattened and validated by TLC event by event, and the annotated tree returned by diff() must carry "
            "the same removals/insertions as the script.", _SCRIPT_NOTE, "DESIGN.md 4.3, 5 (C01)", "editscript"),
    "C02": ("model_checking", _SCRIPT_TECH + "; near-equality generator; CLI exit status via Cli.tla",
            "C02 clauses of EditScript.tla: a zero-cost match pairs equal data, a paid change pairs different data, "
            "total cost 0 / nothing marked <=> content hashes equal, the library's had-edits flag <=> total > 0. "
            "Driven by a near-equality generator (half equal modulo key order, half one atomic perturbation).",
            _SCRIPT_NOTE, "DESIGN.md 4.3, 5 (C02)", "editscript"),
    "C03": ("model_checking", _SCRIPT_TECH,
            "C03 clauses: Close(reported) requires reported = sum of the frame's events at every nesting level; "
            "edited_cost(), sum over get_all_edits() and the refined top-level bounds must equal the script total.",
            _SCRIPT_NOTE, "DESIGN.md 4.3, 5 (C03)", "editscript"),
    "C10": ("model_checking", _SCRIPT_TECH,
            "C10 clauses evaluated at every mapping/list frame of every nesting level against the options the caller "
            "requested (none: equal keys only; auto: shared keys paired with themselves; list edits off: positional "
            "pairing, surplus tail only). The legal-script generator EditScriptMC explores all 9 option sets.",
            _SCRIPT_NOTE, "DESIGN.md 4.3, 5 (C10)", "editscript"),
})

CLAIMED.update({
    "C04": ("model_checking",
            "TLA+ contract Bounded.tla (TLC: soundness, variant, convergence under fairness); histories of every "
            "bounded object recorded by an external monitor validated by TLC against BoundedTrace.tla",
            "Bounded.tla states the refinement protocol clause by clause (never widens, contains the final cost, "
            "progress => strictly smaller, no progress => single value, at most hi-lo progress steps). TLC checks the "
            "design incl. convergence under weak fairness. An external monitor wraps bounds()/tighten_bounds() of "
            "every class of the package, records every object created while the corpus is diffed (top-level and "
            "nested edits, matchers, searches; passively and with a bounds() probe around every step), drives each "
            "to quiescence and TLC validates every distinct history.",
            "Trusted: harness/monitor.py (outermost-call rule, logging at return), TLC. The final cost of an object "
            "is the value it converges to itself.", "DESIGN.md 4.2, 5 (C04)", "bounded"),
    "C05": ("model_checking",
            "TLA+ contract EditApi.tla (write-once reference result); TLC enumerates/simulates all histories of public "
            "edit operations (EditApiGen) which are replayed on real edits; outcomes validated by TLC (EditApiTrace)",
            "EditApi.tla: one (cost, script) per input pair whatever sequence of bounds/tighten_bounds/is_complete/"
            "valid/edits/has_non_zero_cost calls - on the top-level edit or any reachable nested edit - precedes the "
            "canonical completion, under any quiet/colour setting of the default printer, and no call raises. TLC "
            "enumerates all histories up to a length bound and simulates longer ones; each is replayed on fresh real "
            "edits for pairs with nested containers (JSON, XML) and TLC compares every outcome with the write-once "
            "reference.",
            "Trusted: props/c05.py driver (operation dispatch, reachability of nested edits through attributes), "
            "harness/flatten.py for the script digest, TLC.", "DESIGN.md 5 (C05)", "editapi"),
})

CLAIMED.update({
    "C11": ("model_checking",
            "TLA+ contract StringScript.tla (LCS by the textbook recurrence, evaluated by TLC); TLC enumerates all string "
            "pairs over small alphabets (StringScriptGen); character scripts of the real code validated by TLC",
            "StringScript.tla: every character of both strings consumed exactly once and in order, kept characters "
            "equal, and at the end kept = LCS(a,b) and removed+inserted = |a|+|b|-2 LCS, LCS computed by TLC itself. "
            "TLC checks on the contract that no clause-respecting script keeps more than LCS characters. Exhaustive "
            "over {a,b} up to length 6 and {a,b,c} up to length 3 (thorough: 7 and 4) through both entry points "
            "(StringNode.edits, string_edit_distance), random pairs up to length 30/48 beyond.",
            "Trusted: props/c11.py (sub-edit -> character index by node identity), TLC.", "DESIGN.md 5 (C11)", "strings"),
    "C17": ("model_checking",
            "TLA+ contract Selection.tla + L2 model Search.tla model-checked by TLC (correctness and termination over all "
            "schedules); TLC enumerates all tightening schedules (SelectionGen), real algorithms run on scripted items, "
            "outcomes validated by TLC (SelectionTrace)",
            "Selection.tla defines the environment (items following chains of nested intervals = all sound tightening "
            "schedules) and the post-conditions of search, sort, min_bounded and make_distinct incl. termination. TLC "
            "enumerates every schedule for small (items, value range) and the real code is run on each (search with and "
            "without initial bounds); Search.tla is an implementation-shaped model of the search checked by TLC for "
            "Correct and Terminates under fairness.",
            "Trusted: scripted honest items in props/c17.py, TLC. Search.tla omits pruning shortcuts (drift-only).",
            "DESIGN.md 4.6, 5 (C17)", "selection"),
})

_CLI_NOTE = ("Trusted: props/_cli.py (file/argv materialisation, loader wrapping, in-process main() with captured streams), "
             "the reference parsers used to decide validity, TLC.")
CLAIMED.update({
    "C13": ("model_checking",
            "TLA+ model Cli.tla of main() (TLC: documented behaviour breaks no clause, always exits); exhaustive "
            "enumeration of the rendering configuration space run on the real main(); runs validated by TLC (CliTrace)",
            "The product input type (8) x output format (8+default) x mode (full/-e/-d) x look (plain/--color/--html) x "
            "condensed x equal/different documents is enumerated completely for each document set and every point is a "
            "real run of main(); TLC validates each recorded run against the C13 clauses of Cli.tla (no internal error, "
            "exit status 0 or 1).", _CLI_NOTE, "DESIGN.md 4.9, 5 (C13)", "cli"),
    "C14": ("model_checking",
            "TLA+ model Cli.tla (type-selection rule) + Functional.tla (write-once map); TLC enumerates the "
            "type-selection space (CliGen) replayed on the real main() with wrapped loaders; library vs command line vs "
            "alias spellings validated by TLC (FunctionalTrace)",
            "(c) For every point of the TLC-enumerated type-selection space (how each file's type is given x what its "
            "name suggests, both files) the loaders the real main() invokes must be the ones Cli.tla's selection rule "
            "names. (a)/(b) (files, resolved options) -> (stdout, exit status) must be one value across the library "
            "pipeline and every equivalent command-line spelling.", _CLI_NOTE, "DESIGN.md 4.9, 4.11, 5 (C14)", "cli"),
    "C20": ("fault_enumeration",
            "fault enumeration (truncation at every byte, delimiter deletion/duplication, unbalanced brackets/tags) "
            "filtered by reference parsers; each run of main() validated by TLC against the C20 clauses of Cli.tla",
            "Every syntactic corruption of the corpus documents that the format's reference parser rejects is fed to "
            "the real main() as first and as second file; TLC validates each run: non-zero exit status, nothing but "
            "whitespace on stdout, the file named on stderr, no uncaught exception.", _CLI_NOTE,
            "DESIGN.md 4.9, 5 (C20)", "cli"),
})

CLAIMED.update({
    "C15": ("model_checking",
            "TLA+ contract Assign.tla (optimum by brute force over injections, evaluated by TLC; TLC checks a brute-force "
            "solver against the contract); TLC enumerates all small tables (AssignGen); real calls validated by TLC",
            "Every table of shapes up to 2x3/3x2 (thorough 3x3) over weights {0,1,2,missing} is enumerated by TLC and "
            "given to the real min_weight_bipartite_matching as ints, floats, bools and as ints shifted to every dtype "
            "boundary; TLC validates each result: one-to-one, existing pairs only, true weights, and for complete tables "
            "maximal cardinality and the brute-force minimum. Random tables up to 5x5 beyond. Exhaustive within the "
            "bound; two known findings (float64 solver at >= 2^53).",
            "Trusted: props/c15.py (weight kinds, base shifting: shifting all weights preserves optimal assignments), TLC.",
            "DESIGN.md 4.12, 5 (C15)", "assign"),
    "C18": ("model_checking",
            "TLA+ Builder.tla: L1 Unfold/Expected + L2 work-stack machine, TLC checks refinement, sharing-is-not-a-cycle and "
            "termination for all small graphs; TLC enumerates the graphs (BuilderGen), real conversions validated by TLC",
            "All object graphs with up to 2-3 container objects (lists, tuples, dicts; slots pointing anywhere: trees, "
            "DAGs, self/mutual cycles) are enumerated by TLC, materialised as Python objects and converted through "
            "json.build_tree, BasicBuilder and pydiff.build_tree under dictionary strategies and cycle options; TLC "
            "compares the path set of to_obj() and of copy().to_obj() with Unfold(G) and the cycle outcome with Expected.",
            "Trusted: props/c18.py (materialisation, path set of plain values), TLC.", "DESIGN.md 4.8, 5 (C18)", "builder"),
    "C19": ("exploration",
            "TLA+ event contract Expr.tla (+ guards model checked); TLC enumerates expression programs over an adversarial "
            "vocabulary (ExprGen); real evaluations over tripwired objects validated by TLC (ExprTrace)",
            "The program space is open-ended: TLC enumerates all programs of depth 2 (thorough 3) of a grammar built around "
            "known escape routes; each is parsed and evaluated by the real code over sentinels whose attribute reads are "
            "recorded when the evaluator performs them, identifier resolutions are recorded by wrapping get_value, and "
            "canaries detect leaked private state; TLC validates every distinct event trace. Exhaustive only within the "
            "grammar bound, hence exploration.",
            "Trusted: props/c19.py (tripwire frame rule, whitelist copy from the module docstring), TLC.",
            "DESIGN.md 4.13, 5 (C19)", "expr"),
})

_FN_NOTE = ("Trusted: the per-property definition of abstract key and value in the driver, harness/project.py (abstract "
            "values), TLC. The specification is a write-once register: exploration power is in the generators.")
CLAIMED.update({
    "C07": ("exploration",
            "TLA+ write-once map Functional.tla (model checked) validated by TLC (FunctionalTrace) over observations from real "
            "sub-processes under different PYTHONHASHSEED values, repeated in-process calls and before/after snapshots",
            "(files, argv) -> (stdout digest, exit status) must be one value across processes started with hash seeds "
            "0..3 (0..7 thorough) for pairs biased to mappings with many unshared keys (incl. strategy none and -e); "
            "structural snapshots of both input trees must be unchanged by diff(), edits()+refinement and "
            "get_all_edits(), and a second diff() must reproduce cost and rendering.",
            _FN_NOTE + " Object addresses cannot be scheduled from outside the interpreter.", "DESIGN.md 4.11, 5 (C07)", "functional"),
    "C08": ("exploration",
            "TLA+ write-once map Functional.tla keyed by abstract inputs, validated by TLC over all / sampled key permutations; "
            "EditScript C02 clauses for permuted-equal and swapped-list pairs",
            "For each base pair and dictionary strategy every key-order variant (all permutations up to a bound, both "
            "documents, all depths) must give the same canonical script: cost plus pairings/removals/insertions named "
            "by key paths. A document vs its permuted copy costs 0; swapping unequal list elements costs > 0.",
            _FN_NOTE, "DESIGN.md 4.11, 5 (C08)", "functional"),
    "C09": ("exploration",
            "TLA+ write-once map Functional.tla validated by TLC over the abstract value per input format, diff costs and exit "
            "statuses for all 16 ordered format pairs, and costs against a third document",
            "Data of the common domain is written by reference writers (json, yaml.safe_dump, plistlib) and loaded by "
            "graphtage; the abstract value must be one per data, every ordered format pair must diff to cost 0 / exit 0, "
            "and the cost against a third document must not depend on the format pair. One known finding (second file plist).",
            _FN_NOTE, "DESIGN.md 4.11, 5 (C09)", "functional"),
    "C12": ("exploration",
            "TLA+ write-once map Functional.tla validated by TLC over (format, document) -> abstract value before and after "
            "print -> reload; domain predicates per format in the generator",
            "Generated documents inside the stated domains (JSON/JSON5/CSV whole value domain incl. controls, astral "
            "characters, extreme numbers, quoting characters; YAML/plist/XML alphanumeric incl. YAML-reserved words) are "
            "loaded, printed by their own formatter, reloaded by the same loader; the abstract value must not change and "
            "the reload must not fail. The family fits this property least (encode/decode fidelity is inside third-party "
            "libraries); claimed at the lowest level.", _FN_NOTE, "DESIGN.md 4.11, 5 (C12)", "functional"),
})

CLAIMED.update({
    "C06": ("model_checking",
            "TLA+ Render.tla: printer cell model (SGR state, combining marks) + two JSON pushdown acceptors building path "
            "sets; acceptor model-checked on all short strings (RenderMC); real renderings validated by TLC (RenderTrace)",
            "The raw output of JSONFormatter into Printer(ansi_color=True) is split lexically into cells; the TLA+ machine "
            "classifies every character as kept / removed / inserted from the SGR background and the strike / under-plus "
            "marks, feeds two JSON acceptors (from-view, to-view; commas optional, '->' outside strings is decoration, "
            "escapes decoded), and accepts iff both views are well-formed, their path sets equal those the same acceptor "
            "reads from json.dumps of the two documents, and marks are present exactly when the documents differ.",
            "Trusted: the regular expression that separates SGR escapes from characters, json.dumps as reference "
            "rendering, TLC. The printer itself is modelled and bound separately (Term.tla, MODEL-DRIFT only).", "DESIGN.md 4.10, 5 (C06)", "render"),
})

NOT_YET = "check not built yet in this round (planned: see DESIGN.md section 5)"

ENGINES = [
    {"name": "render", "path": "spec/Render.tla spec/RenderMC.tla spec/RenderTrace.tla props/c06.py", "serves_properties": ["C06"],
     "kind_free_text": "TLA+ printer-cell machine with two JSON pushdown acceptors; real ANSI renderings validated by TLC"},
    {"name": "functional", "path": "spec/Functional.tla spec/FunctionalMC.tla spec/FunctionalTrace.tla harness/functional.py "
                                  "props/c07.py props/c08.py props/c09.py props/c12.py",
     "serves_properties": ["C07", "C08", "C09", "C12", "C14"],
     "kind_free_text": "write-once register specification; TLC validates groups of observations of the real code"},
    {"name": "assign", "path": "spec/Assign.tla spec/AssignGen.tla spec/AssignTrace.tla props/c15.py", "serves_properties": ["C15"],
     "kind_free_text": "TLC-enumerated weight tables, brute-force optimum evaluated by TLC on real results"},
    {"name": "builder", "path": "spec/Builder.tla spec/BuilderGen.tla spec/BuilderTrace.tla props/c18.py", "serves_properties": ["C18"],
     "kind_free_text": "TLA+ work-stack machine refining Unfold; TLC-enumerated object graphs materialised and converted"},
    {"name": "expr", "path": "spec/Expr.tla spec/ExprMC.tla spec/ExprGen.tla spec/ExprTrace.tla props/c19.py", "serves_properties": ["C19"],
     "kind_free_text": "TLC-enumerated expression programs evaluated over tripwired objects, events validated by TLC"},
    {"name": "cli", "path": "spec/Cli.tla spec/CliGen.tla spec/CliTrace.tla spec/Functional.tla spec/FunctionalTrace.tla "
                           "props/_cli.py props/c13.py props/c14.py props/c20.py harness/cli.py",
     "serves_properties": ["C02", "C13", "C14", "C20"],
     "kind_free_text": "TLA+ phase model of main(); TLC-enumerated configurations and enumerated faults run on the real "
                       "command; runs validated by TLC"},
    {"name": "strings", "path": "spec/StringScript.tla spec/StringScriptGen.tla spec/StringScriptTrace.tla props/c11.py",
     "serves_properties": ["C11"], "kind_free_text": "TLA+ character-script contract with LCS oracle evaluated by TLC"},
    {"name": "selection", "path": "spec/Selection.tla spec/SelectionGen.tla spec/SelectionTrace.tla spec/Search.tla props/c17.py",
     "serves_properties": ["C17"], "kind_free_text": "TLC-enumerated tightening schedules replayed on the real search/sort/min/make_distinct"},
    {"name": "bounded", "path": "spec/Bounded.tla spec/BoundedTrace.tla harness/monitor.py props/c04.py",
     "serves_properties": ["C04"],
     "kind_free_text": "TLA+ refinement-protocol contract + external monitor + TLC trace validation"},
    {"name": "editapi", "path": "spec/EditApi.tla spec/EditApiGen.tla spec/EditApiTrace.tla props/c05.py",
     "serves_properties": ["C05"],
     "kind_free_text": "TLC-enumerated API histories replayed into real edits, outcomes validated against a write-once register"},
    {"name": "editscript", "path": "spec/EditScript.tla spec/EditScriptMC.tla spec/EditScriptTrace.tla harness/project.py "
                                   "harness/flatten.py harness/corpus.py props/_script.py",
     "serves_properties": ["C01", "C02", "C03", "C10"],
     "kind_free_text": "TLA+ script contract + TLC model check of the read-back theorem + TLC trace validation of real diffs"},
    {"name": "mechanisms", "path": "spec/Levenshtein.tla spec/Collection.tla spec/Compound.tla spec/Matcher.tla spec/MultiSet.tla "
                                  "spec/Distinct.tla spec/Search.tla spec/Driver.tla spec/Choose.tla spec/Dispatch.tla spec/Status.tla "
                                  "spec/Term.tla spec/TermHtml.tla spec/FibHeap.tla props/_lev.py props/_coll.py props/_compound.py props/_matcher.py "
                                  "props/_mset.py props/_driver.py props/_choose.py props/_dispatch.py props/_status.py props/_term.py",
     "serves_properties": ["C02", "C03", "C04", "C05", "C06", "C13", "C14", "C16", "C17"],
     "kind_free_text": "L2 mechanism models of the classes behind the properties, each model-checked and bound to the real class by "
                       "replaying TLC-generated behaviours / validating recorded runs; disagreement is MODEL-DRIFT in the evidence, "
                       "never a verdict"},
    {"name": "pq", "path": "spec/PQ.tla spec/PQGen.tla spec/PQTrace.tla spec/FibHeap.tla props/c16.py",
     "serves_properties": ["C16"],
     "kind_free_text": "TLA+ contract + TLC behaviour enumeration replayed into the real heap + TLC trace validation"},
]


def main():
    checks = []
    na = []
    for pid in sorted(TITLES):
        if pid in CLAIMED:
            level, technique, text, note, ref, engine = CLAIMED[pid]
            checks.append({
                "property_id": pid,
                "quick_cmd": "./check %s --tier quick" % pid,
                "thorough_cmd": "./check %s --tier thorough" % pid,
                "evidence_file": "/verif/evidence/%s.json" % pid,
                "replay_cmd_template": "./check %s --replay {path}" % pid,
                "engine": engine,
                "level_claimed": {"category": level, "text": text, "design_ref": ref},
                "level_note": note,
                "technique": technique,
            })
        else:
            na.append({"property_id": pid, "reason": NOT_YET})
    manifest = {
        "version": 1,
        "setup_cmd": "./check --setup",
        "hooks": {
            "guard": "GRAPHTAGE_VERIF",
            "enable": "none needed: checks import graphtage from /repo's working tree and observe it through "
                      "public methods wrapped from outside at import time (harness/monitor.py); "
                      "GRAPHTAGE_VERIF=1 is reserved should an in-source hook become necessary",
            "baseline_off_cmd": "cd /repo && /venv/bin/python -m pytest -ra -q -p no:cacheprovider --timeout=900 "
                                "--continue-on-collection-errors",
            "source_commits": [],
            "add_only": True,
        },
        "engines": ENGINES,
        "checks": checks,
        "not_applicable": na,
        "notes": "Model-based verification with explicit TLA+ specifications (spec/*.tla), TLC as model checker, "
                 "behaviour generator and trace validator; see DESIGN.md. exit 2 = machinery failure (never a verdict).",
    }
    path = os.path.join(HERE, "MANIFEST.json")
    with open(path, "w") as f:
        json.dump(manifest, f, indent=1)
    schema = "/root/.vp/MANIFEST.schema.json"
    if os.path.exists(schema):
        code = ("import json,sys,jsonschema;"
                "jsonschema.validate(json.load(open(sys.argv[1])), json.load(open(sys.argv[2])))")
        p = subprocess.run(["python3-vt", "-c", code, path, schema])
        if p.returncode != 0:
            print("MANIFEST.json does not validate", file=sys.stderr)
            return 1
    print("MANIFEST.json: %d checks, %d not_applicable" % (len(checks), len(na)))
    return 0


if __name__ == "__main__":
    sys.exit(main())
