---------------------------- MODULE LevenshteinGen ----------------------------
(* Behaviour generator for Levenshtein.tla: a history variable records, for every
   public operation, what it returned and the projection of the model state after
   it (fringe row / column, matrix freed, complete, finalised).  TLC simulates
   behaviours and prints them; the harness replays each on the real EditDistance
   over scripted nodes and compares the projections step by step (MODEL-DRIFT),
   and feeds the same executions to the L1 checks.                            *)
EXTENDS LevenshteinMC, Json
VARIABLE hist
Proj(s) == [fr |-> s.fr, fc |-> s.fc, freed |-> ~s.live, complete |-> Complete(s), finalised |-> s.edits]
GenInit == Init /\ hist = << >>
GenNext == /\ Next
           /\ hist' = Append(hist, [op |-> lastop'[1],
                                    ret |-> IF lastop'[1] = "tighten" THEN <<IF lastop'[2] THEN 1 ELSE 0>>
                                            ELSE IF lastop'[1] = "bounds" THEN <<lastop'[2], lastop'[3]>>
                                            ELSE IF lastop'[1] = "is_complete" THEN <<IF lastop'[2] THEN 1 ELSE 0>>
                                            ELSE << >>,
                                    proj |-> Proj(st')])
GenSpec == GenInit /\ [][GenNext]_<<vars, hist>>
\* cells as a sequence of [row, col, chain] (JSON has no tuple-keyed maps)
ChainList == LET cs == Interior
                 RECURSIVE L(_)
                 L(S) == IF S = {} THEN << >> ELSE LET c == CHOOSE x \in S : \A y \in S : x[1] < y[1] \/ (x[1] = y[1] /\ x[2] <= y[2])
                                                    IN <<[row |-> c[1], col |-> c[2], chain |-> chain[c]]>> \o L(S \ {c})
             IN L(cs)
Emit == (nops = MaxOps) => PrintT(ToJson([cells |-> ChainList, hist |-> hist, final |-> FinalCost]))
=============================================================================
