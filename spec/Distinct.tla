------------------------------ MODULE Distinct ------------------------------
(***************************************************************************)
(* L2 (mechanism) model of graphtage.bounds.make_distinct, the separation   *)
(* loop used by EditDistance._best_match and WeightedBipartiteMatcher.      *)
(* One TLC step per iteration of the outer `while len(tree) > 1` loop       *)
(* (PickBiggest) and per iteration of the inner tightening loop (Squeeze).  *)
(* The interval tree is a set of entries [i, b, e] (item, begin, end+1 as   *)
(* stored when the entry was added); `biggest` / `second_biggest` are ANY   *)
(* entry of maximal stored size (the code takes the first maximum in set    *)
(* iteration order).                                                        *)
(* Environment as in Selection.tla: every item follows a chain of strictly  *)
(* nested intervals chosen in Init; tighten_bounds() moves one link down    *)
(* and reports False at the end of the chain.                               *)
(* TLC checks, for every schedule: termination (under weak fairness), and   *)
(* at termination the post-condition of C17: every pair of items has        *)
(* disjoint intervals or both are single-valued.                            *)
(***************************************************************************)
EXTENDS Integers, Sequences, FiniteSets, TLC
CONSTANTS NItems, V
Items == 1..NItems
RECURSIVE Chains(_, _)
Chains(l, h) == IF l = h THEN { << <<l, h>> >> }
                ELSE { << <<l, h>> >> \o c : c \in UNION { Chains(l2, h2) :
                         <<l2, h2>> \in { p \in (l..h) \X (l..h) : p[1] <= p[2] /\ p # <<l, h>> } } }
AllChains == UNION { Chains(l, h) : <<l, h>> \in { p \in (0..V) \X (0..V) : p[1] <= p[2] } }
VARIABLES chain, ptr,
          tree,        \* set of [i, b, e]
          pc,          \* "outer" | "inner" | "done"
          big, sec     \* the two entries being squeezed (item ids), 0 = none
vars == <<chain, ptr, tree, pc, big, sec>>
Lo(i) == chain[i][ptr[i]][1]
Hi(i) == chain[i][ptr[i]][2]
Def(i) == Lo(i) = Hi(i)
Entry(i) == [i |-> i, b |-> Lo(i), e |-> Hi(i) + 1]
Size(x) == x.e - x.b
Overlaps(x, b, e) == x.b < e /\ b < x.e          \* half-open intervals, as in intervaltree
Step(p, i) == IF p[i] < Len(chain[i]) THEN [p EXCEPT ![i] = @ + 1] ELSE p

Init == /\ chain \in [Items -> AllChains] /\ ptr = [i \in Items |-> 1]
        /\ tree = {[i |-> i, b |-> chain[i][1][1], e |-> chain[i][1][2] + 1] : i \in Items}
        /\ pc = "outer" /\ big = 0 /\ sec = 0
\* one iteration of `while len(tree) > 1`
PickBiggest ==
  /\ pc = "outer"
  /\ IF Cardinality(tree) <= 1 THEN pc' = "done" /\ UNCHANGED <<chain, ptr, tree, big, sec>>
     ELSE \E x \in tree :
            /\ \A y \in tree : Size(x) >= Size(y)
            /\ IF Def(x.i) THEN pc' = "done" /\ UNCHANGED <<chain, ptr, tree, big, sec>>       \* all intervals are points
               ELSE LET rest == tree \ {x}
                        matching == {y \in rest : Overlaps(y, x.b, x.e)}
                    IN IF matching = {} THEN tree' = rest /\ UNCHANGED <<chain, ptr, pc, big, sec>>   \* x is distinct
                       ELSE \E s \in matching :
                              /\ \A y \in matching : Size(s) >= Size(y)
                              /\ tree' = rest \ {s} /\ big' = x.i /\ sec' = s.i /\ pc' = "inner"
                              /\ UNCHANGED <<chain, ptr>>
\* one iteration of the inner `while True`
Squeeze ==
  /\ pc = "inner"
  /\ IF (Def(big) /\ Def(sec)) \/ Hi(big) < Lo(sec) \/ Hi(sec) < Lo(big)
     THEN \* re-insert each of the two if it still overlaps something in the tree (biggest first)
          LET eb == Entry(big)
              t1 == IF \E y \in tree : Overlaps(y, eb.b, eb.e) THEN tree \cup {eb} ELSE tree
              es == Entry(sec)
              t2 == IF \E y \in t1 : Overlaps(y, es.b, es.e) THEN t1 \cup {es} ELSE t1
          IN tree' = t2 /\ pc' = "outer" /\ big' = 0 /\ sec' = 0 /\ UNCHANGED <<chain, ptr>>
     ELSE /\ ptr' = Step(Step(ptr, big), sec)
          /\ UNCHANGED <<chain, tree, pc, big, sec>>
Next == PickBiggest \/ Squeeze
Spec == Init /\ [][Next]_vars /\ WF_vars(Next)
Done == pc = "done"
Disjoint(i, j) == Hi(i) < Lo(j) \/ Hi(j) < Lo(i)
Separated == Done => \A i, j \in Items : i # j => (Disjoint(i, j) \/ (Def(i) /\ Def(j)))
Terminates == <>Done
\* the entries still in the tree always carry the current interval of their item (only removed entries are tightened)
TreeFresh == \A x \in tree : x = Entry(x.i)
=============================================================================
