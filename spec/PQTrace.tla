----------------------------- MODULE PQTrace -----------------------------
(* Tr validation for PQ.tla: every recorded call of a real heap
   (push / pop / peek / decrease_key / remove / clear, with its result and the
   length reported afterwards) must be a step of PQ.                   *)
EXTENDS PQ, Json, IOUtils
Traces == JsonDeserialize(IOEnv.TRACE_FILE)
VARIABLES tid, l, err
tvars == <<live, nextId, nops, obs, tid, l, err>>
Tr == Traces[tid]
N == Cardinality(Ids)
\* first clause of the contract that the recorded event breaks ("" = none)
Fail(e) ==
  IF e.op = "push" THEN
       IF e.id # nextId THEN "machinery:push-id"
       ELSE IF e.len # N + 1 THEN "size-after-push"
       ELSE IF e.truth # TRUE THEN "truth-after-push" ELSE ""
  ELSE IF e.op \in {"pop", "peek"} THEN
       IF e.id \notin Ids THEN "returned-item-not-live"
       ELSE IF e.key # live[e.id] THEN "returned-item-has-stale-key"
       ELSE IF ~IsMin(e.id) THEN "returned-item-not-minimal"
       ELSE IF e.op = "pop" /\ e.len # N - 1 THEN "size-after-pop"
       ELSE IF e.op = "peek" /\ e.len # N THEN "size-after-peek"
       ELSE IF e.truth # (e.len > 0) THEN "truth" ELSE ""
  ELSE IF e.op = "dec" THEN
       IF e.id \notin Ids \/ Rank(e.key) > Rank(live[e.id]) THEN "machinery:dec-precondition"
       ELSE IF e.len # N THEN "size-after-decrease" ELSE ""
  ELSE IF e.op = "rem" THEN
       IF e.id \notin Ids THEN "machinery:rem-precondition"
       ELSE IF e.len # N - 1 THEN "size-after-remove"
       ELSE IF e.truth # (e.len > 0) THEN "truth" ELSE ""
  ELSE IF e.op = "baddec" THEN
       IF e.id \notin Ids \/ Rank(e.key) <= Rank(live[e.id]) THEN "machinery:baddec-precondition"
       ELSE IF ~e.refused THEN "increase-of-a-key-was-not-refused"
       ELSE IF e.len # N THEN "size-after-refused-decrease" ELSE ""
  ELSE IF e.op = "clear" THEN
       IF e.len # 0 THEN "size-after-clear"
       ELSE IF e.truth # FALSE THEN "truth" ELSE ""
  ELSE IF e.op = "raise" THEN "exception"
  ELSE "machinery:unknown-op"
Step(e) ==
  \/ e.op = "push" /\ Push(e.key)
  \/ e.op = "pop"  /\ Pop(e.id)
  \/ e.op = "peek" /\ Peek(e.id)
  \/ e.op = "dec"  /\ DecreaseKey(e.id, e.key)
  \/ e.op = "rem"  /\ Remove(e.id)
  \/ e.op = "clear" /\ Clear
  \/ e.op = "baddec" /\ RefusedDecrease(e.id, e.key)
TraceInit == Init /\ tid \in 1..Len(Traces) /\ l = 1 /\ err = ""
TraceNext ==
  /\ err = "" /\ l <= Len(Tr)
  /\ LET e == Tr[l] IN
       IF Fail(e) = ""
       THEN Step(e) /\ nops' = nops + 1 /\ l' = l + 1 /\ UNCHANGED <<tid, err>>
       ELSE err' = Fail(e) /\ UNCHANGED <<live, nextId, nops, obs, tid, l>>
TraceSpec == TraceInit /\ [][TraceNext]_tvars
Done == err # "" \/ l > Len(Tr)
Report == Done => PrintT(ToJson([tid |-> tid, v |-> IF err = "" THEN "ACCEPT" ELSE "REJECT",
                                 step |-> l, clause |-> err]))
=============================================================================
