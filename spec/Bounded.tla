------------------------------ MODULE Bounded ------------------------------
(***************************************************************************)
(* L1 contract of the refinement protocol  bounds() / tighten_bounds()     *)
(* for ONE bounded object (edit, matcher, search), in observable terms.    *)
(*                                                                         *)
(*   Expose(l, h)  a bounds() call returned the interval [l, h]            *)
(*   Step(r)       a tighten_bounds() call returned r                      *)
(*                                                                         *)
(* Property C04, clause by clause:                                         *)
(*   never-widens     every exposed interval lies inside the previous one  *)
(*   sound            every exposed interval contains the final cost       *)
(*                    (prophecy variable `final`; in trace validation it   *)
(*                    is bound to the value the object ends with)          *)
(*   progress-strict  if some step since the last exposure reported        *)
(*                    progress, the interval is strictly smaller now       *)
(*   quiescent-point  if the last step reported no progress, the interval  *)
(*                    exposed next is a single value                       *)
(*   no-progress-on-a-point  a step that follows the exposure of a single  *)
(*                    value cannot report progress                         *)
(*   variant          each progress step shrinks an integer interval by at *)
(*                    least one, so at most (hi - lo) of them can follow   *)
(*                    the exposure of a finite interval: convergence after *)
(*                    finitely many steps                                  *)
(***************************************************************************)
EXTENDS Integers, TLC
CONSTANTS Vals,        \* model checking: the value domain, e.g. 0..3
          Inf          \* stands for +infinity (and -Inf for -infinity)
VARIABLES lo, hi,      \* last exposed interval
          seen,        \* has an interval been exposed yet
          trues,       \* progress steps since the last exposure
          lastStep,    \* "none" | "progress" | "quiet" : last step since the last exposure
          budget,      \* progress steps still possible (variant); -1 = unknown (nothing finite exposed yet)
          final,       \* prophecy: the cost the object finally settles on
          dead         \* a step reported no progress
vars == <<lo, hi, seen, trues, lastStep, budget, final, dead>>

Finite(l, h) == l > -Inf /\ h < Inf
\* @type: (Int, Int) => Seq(<<Str, Bool>>);
ExposeClauses(l, h) == <<
  <<"interval-is-empty", l <= h>>,
  <<"interval-widened", seen => l >= lo /\ h <= hi>>,
  <<"interval-excludes-the-final-cost", l <= final /\ final <= h>>,
  <<"progress-reported-but-interval-not-strictly-smaller", (seen /\ trues > 0) => (l > lo \/ h < hi)>>,
  <<"no-progress-reported-but-interval-is-not-a-single-value", lastStep = "quiet" => l = h>> >>
\* @type: (Bool) => Seq(<<Str, Bool>>);
StepClauses(r) == <<
  <<"progress-reported-on-a-single-value", (r /\ seen /\ lastStep = "none") => lo < hi>>,
  <<"more-progress-steps-than-the-interval-allows", (r /\ budget >= 0) => budget > 0>>,
  <<"progress-reported-after-no-progress", (r /\ dead) => FALSE>> >>
\* @type: (Seq(<<Str, Bool>>)) => Bool;
AllHold(cs) == \A k \in DOMAIN cs : cs[k][2]
\* @type: (Seq(<<Str, Bool>>)) => Str;
FirstFail(cs) == LET bad == {k \in DOMAIN cs : ~cs[k][2]}
                 IN IF bad = {} THEN "" ELSE cs[CHOOSE k \in bad : \A m \in bad : k <= m][1]

Expose(l, h) ==
  /\ lo' = l /\ hi' = h /\ seen' = TRUE /\ trues' = 0 /\ lastStep' = "none"
  /\ budget' = IF Finite(l, h) THEN (IF budget < 0 \/ h - l < budget THEN h - l ELSE budget) ELSE budget
  /\ UNCHANGED <<final, dead>>
Step(r) ==
  /\ trues' = IF r THEN 1 ELSE trues          \* only trues > 0 matters; capped to keep the model finite
  /\ lastStep' = IF r THEN "progress" ELSE "quiet"
  /\ budget' = IF r /\ budget > 0 THEN budget - 1 ELSE budget
  /\ dead' = (dead \/ ~r)
  /\ UNCHANGED <<lo, hi, seen, final>>

Init == /\ final \in Vals /\ lo = -Inf /\ hi = Inf /\ seen = FALSE /\ trues = 0 /\ lastStep = "none"
        /\ budget = -1 /\ dead = FALSE
\* the design: an object that respects every clause
Next == \/ \E l \in Vals, h \in Vals : AllHold(ExposeClauses(l, h)) /\ Expose(l, h)
        \/ \E r \in BOOLEAN : AllHold(StepClauses(r)) /\ Step(r)
             \* an honest object only reports progress if it can expose a strictly smaller interval afterwards,
             \* and reports no progress only when its interval is a single value containing the final cost
             /\ (r => \E l \in lo..hi, h \in lo..hi : l <= final /\ final <= h /\ l <= h /\ (l > lo \/ h < hi) /\ seen)
             /\ (~r => seen /\ lo = hi)
Spec == Init /\ [][Next]_vars
FairSpec == Spec /\ WF_vars(\E r \in BOOLEAN : AllHold(StepClauses(r)) /\ Step(r))
                 /\ WF_vars(\E l \in Vals, h \in Vals : AllHold(ExposeClauses(l, h)) /\ Expose(l, h) /\ (l # lo \/ h # hi))

\* checked by TLC on the design
TypeOK == lo \in Vals \cup {-Inf} /\ hi \in Vals \cup {Inf} /\ budget \in -1..Inf
SoundInv == seen => lo <= final /\ final <= hi
NeverWidens == [][seen /\ seen' => lo' >= lo /\ hi' <= hi]_vars
\* the variant: progress steps still allowed never exceed the width of the exposed interval
VariantInv == (seen /\ Finite(lo, hi) /\ budget >= 0) => budget <= hi - lo
\* liveness (FairSpec): the object reports "no progress" after finitely many steps
Converges == <>dead
\* and from then on its interval is the single final value
DeadIsFinal == (dead /\ seen /\ lastStep = "none") => (lo = final /\ hi = final)
=============================================================================
