------------------------------- MODULE Status -------------------------------
(***************************************************************************)
(* L2 (mechanism) model of graphtage.progress.StatusWriter in its           *)
(* BUFFERING mode (write_raw = False: the stream is the process's standard  *)
(* output or error, the mode in which the command prints its diff while     *)
(* status output is on).  Text written is kept in a list of chunks; every   *)
(* complete line is handed to tqdm.write (which puts it on the stream       *)
(* followed by a newline, after clearing any progress bar); flush(final)    *)
(* terminates an unterminated last line; close() is flush(final) + close.   *)
(*                                                                         *)
(* Text is a sequence over Chars; "n" stands for the newline, every other   *)
(* character - including ones that OTHER line-splitting routines treat as   *)
(* line ends (form feed, NEL, LS ...; "f" stands for them) - is ordinary.   *)
(* FlushOf transcribes the while-loop of flush() on the chunk list.         *)
(*                                                                         *)
(* TLC checks, for all sequences of <= MaxOps operations write(chunk) /     *)
(* flush() / flush(final) / close() with chunks of <= MaxChunk characters:  *)
(*   NothingLostOrInvented  delivered text \o pending text = everything     *)
(*                          written (plus the newlines flush(final) added), *)
(*                          in order;                                       *)
(*   WholeLinesOnly         what was delivered ends with a newline;         *)
(*   PromptDelivery         after any operation the pending text holds no   *)
(*                          newline (a complete line is never held back);   *)
(*   ClosedMeansDelivered   after close() nothing is pending;               *)
(*   FinalNewlineOnlyIfNeeded  flush(final) adds a newline only to an       *)
(*                          unterminated last line - or when the last chunk *)
(*                          written is the EMPTY string: the code (and so   *)
(*                          the model) then emits a blank line that nobody  *)
(*                          wrote, write("\n"); write(""); flush(final)     *)
(*                          delivers two newlines.  A named deviation: the  *)
(*                          command ends its output with a newline write,   *)
(*                          so main() cannot reach it (checked by C14 d).   *)
(***************************************************************************)
EXTENDS Integers, Sequences, FiniteSets, TLC
CONSTANTS Chars, MaxChunk, MaxOps
ASSUME "n" \in Chars
NL == "n"
RECURSIVE Texts(_)
Texts(k) == IF k = 0 THEN { << >> } ELSE Texts(k - 1) \cup { Append(t, c) : t \in Texts(k - 1), c \in Chars }
Chunks == Texts(MaxChunk)
Has(t, c) == \E i \in 1..Len(t) : t[i] = c
EndsNL(t) == Len(t) > 0 /\ t[Len(t)] = NL
RECURSIVE Join(_)
Join(chunks) == IF chunks = << >> THEN << >> ELSE Head(chunks) \o Join(Tail(chunks))
\* str.split('\n'): the pieces between newlines (always at least one piece)
RECURSIVE Split(_, _)
Split(t, cur) == IF t = << >> THEN << cur >>
                 ELSE IF Head(t) = NL THEN << cur >> \o Split(Tail(t), << >>)
                 ELSE Split(Tail(t), Append(cur, Head(t)))
\* the lines tqdm.write puts on the stream: each piece followed by a newline
RECURSIVE Lines(_)
Lines(ps) == IF ps = << >> THEN << >> ELSE Head(ps) \o << NL >> \o Lines(Tail(ps))
Front(s) == SubSeq(s, 1, Len(s) - 1)

VARIABLES buf,        \* the list of chunks (self._buffer)
          out,        \* text put on the stream so far
          all,        \* ghost: everything written, plus the newlines added by flush(final)
          closed, nops, lastop
vars == <<buf, out, all, closed, nops, lastop>>

\* the while-loop of flush(): <<chunk list, text delivered>>
RECURSIVE FlushOf(_, _)
FlushOf(b, o) ==
  IF b = << >> THEN <<b, o>>
  ELSE IF Has(b[1], NL)
       THEN LET ps == Split(b[1], << >>)
                rest == ps[Len(ps)]
                b1 == IF EndsNL(b[1]) THEN b
                      ELSE IF Len(b) = 1 THEN Append(b, rest)
                      ELSE [b EXCEPT ![2] = rest \o @]
            IN FlushOf(Tail(b1), o \o Lines(Front(ps)))
       ELSE IF Len(b) = 1 THEN <<b, o>>
       ELSE FlushOf(<< Join(b) >>, o)
Flush(final) ==
  LET add == final /\ buf # << >> /\ ~EndsNL(buf[Len(buf)])
      b0 == IF add THEN Append(buf, << NL >>) ELSE buf
      f == FlushOf(b0, out)
  IN /\ buf' = f[1] /\ out' = f[2]
     /\ all' = IF add THEN Append(all, NL) ELSE all

Init == buf = << >> /\ out = << >> /\ all = << >> /\ closed = FALSE /\ nops = 0 /\ lastop = <<"init">>
Write(t) == /\ all' = all \o t /\ lastop' = <<"write", t>> /\ UNCHANGED closed
            /\ IF Has(t, NL) THEN LET f == FlushOf(Append(buf, t), out) IN buf' = f[1] /\ out' = f[2]
               ELSE buf' = Append(buf, t) /\ out' = out
DoFlush(final) == Flush(final) /\ lastop' = <<"flush", final>> /\ UNCHANGED closed
Close == Flush(TRUE) /\ closed' = TRUE /\ lastop' = <<"close">>
Next == /\ ~closed /\ nops < MaxOps /\ nops' = nops + 1
        /\ \/ \E t \in Chunks : Write(t)
           \/ \E final \in BOOLEAN : DoFlush(final)
           \/ Close
Spec == Init /\ [][Next]_vars

Pending == Join(buf)
NothingLostOrInvented == out \o Pending = all
WholeLinesOnly == out = << >> \/ EndsNL(out)
PromptDelivery == ~Has(Pending, NL)
ClosedMeansDelivered == closed => Pending = << >> /\ out = all
FinalNewlineOnlyIfNeeded == [][ Len(all') - Len(all) = (IF lastop'[1] = "write" THEN Len(lastop'[2]) ELSE 0)
                                \/ (lastop'[1] \in {"flush", "close"} /\ Len(all') = Len(all) + 1
                                    /\ (~EndsNL(all) \/ (buf # << >> /\ buf[Len(buf)] = << >>))) ]_vars
=============================================================================
