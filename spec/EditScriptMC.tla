---------------------------- MODULE EditScriptMC ----------------------------
(* Model checking the contract itself: for pairs of small documents (node
   tables read from DOCS_FILE - they are projections of real trees) and all
   option combinations, TLC generates EVERY script that breaks no clause and
   checks the theorem that justifies reading C01 off acceptance:
   whenever a frame can be closed, the from-side events of the frame,
   in script order, are exactly the children of the from container (in list
   order for ordered kinds) and likewise for the to side; and the cost
   reported for a frame is the sum of its events (C03).                    *)
EXTENDS EditScript, Json, IOUtils
Docs == JsonDeserialize(IOEnv.DOCS_FILE)    \* sequence of node tables
CONSTANTS MaxCost
Strategies == {"auto", "match", "none"}
ListModes == {"on", "off", "offsame"}
MCInit == /\ \E a \in 1..Len(Docs), b \in 1..Len(Docs) : F = Docs[a] /\ T = Docs[b]
          /\ O \in [strategy : Strategies, lists : ListModes]
          /\ Init0
Legal(cs) == AllHold(cs)
SameShape(i, j) == Container(F[i].kind) /\ F[i].kind = T[j].kind
MCNext ==
  /\ stack # << >>
  /\ \/ \E i \in Kids(F, Top.f), j \in Kids(T, Top.t) :
          \/ Legal(PairClauses(Top, i, j) \o KeepClauses(i, j)) /\ Keep(i, j, 0)
          \/ \E c \in 1..MaxCost : Legal(PairClauses(Top, i, j) \o ChangeClauses(i, j, c)) /\ Change(i, j, c, 0)
          \/ SameShape(i, j) /\ F[i].ch # T[j].ch /\ Legal(PairClauses(Top, i, j)) /\ Open(i, j, 0)
     \/ \E i \in Kids(F, Top.f) : Legal(RemoveClauses(Top, i)) /\ Remove(i, 1, 0)
     \/ \E j \in Kids(T, Top.t) : Legal(InsertClauses(Top, j)) /\ Insert(j, 1, 0)
     \/ Legal(CloseClauses(Top, Top.acc)) /\ Close(Top.acc, 0)
MCSpec == MCInit /\ [][MCNext]_vars

SortedKids(D, p) ==
  LET K == Kids(D, p)
      RECURSIVE S(_)
      S(R) == IF R = {} THEN << >> ELSE LET m == CHOOSE x \in R : \A y \in R : D[x].slot <= D[y].slot
                                       IN <<m>> \o S(R \ {m})
  IN S(K)
SetOf(s) == {s[k] : k \in 1..Len(s)}
ReadsBack(fr) ==
  IF Ordered(fr.kind)
  THEN fr.seqF = SortedKids(F, fr.f) /\ fr.seqT = SortedKids(T, fr.t)
  ELSE /\ SetOf(fr.seqF) = Kids(F, fr.f) /\ Len(fr.seqF) = Cardinality(Kids(F, fr.f))
       /\ SetOf(fr.seqT) = Kids(T, fr.t) /\ Len(fr.seqT) = Cardinality(Kids(T, fr.t))
\* THEOREM (checked by TLC): a closable frame reads back both containers
BothDocumentsReadBack ==
  \A k \in 1..Len(stack) : Legal(CloseClauses(stack[k], stack[k].acc)) => ReadsBack(stack[k])
NoClauseBroken == errs = NoErr
\* the whole-script clause is consistent with the per-event clauses: a legal finished script has
\* zero total cost only for (loosely) equal documents
ZeroCostMeansEqual == Closed /\ total = 0 /\ removed = {} /\ inserted = {} => F[RootF].lh = T[RootT].lh
=============================================================================
