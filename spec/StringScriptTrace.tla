-------------------------- MODULE StringScriptTrace --------------------------
(* Trace validation for StringScript: one behaviour per recorded string diff. *)
EXTENDS StringScript, Json, IOUtils
Traces == JsonDeserialize(IOEnv.TRACE_FILE)
VARIABLES tid, l, err, bad
tvars == <<A, B, pa, pb, kept, removed, inserted, tid, l, err, bad>>
Ev == Traces[tid].ev
TraceInit == /\ tid \in 1..Len(Traces) /\ l = 1 /\ err = "" /\ bad = 0
             /\ A = Traces[tid].a /\ B = Traces[tid].b /\ Init0
Fail(e) == IF e.e = "keep" THEN FirstFail(KeepClauses(e.i, e.j))
           ELSE IF e.e = "subst" THEN FirstFail(SubstClauses(e.i, e.j))
           ELSE IF e.e = "remove" THEN FirstFail(RemoveClauses(e.i))
           ELSE IF e.e = "insert" THEN FirstFail(InsertClauses(e.j))
           ELSE IF e.e = "end" THEN FirstFail(EndClauses)
           ELSE IF e.e = "raise" THEN "exception"
           ELSE "machinery:unknown-event"
TraceNext ==
  /\ l <= Len(Ev) /\ l' = l + 1 /\ UNCHANGED tid
  /\ LET e == Ev[l] IN
     /\ IF Fail(e) # "" /\ err = "" THEN err' = Fail(e) /\ bad' = l ELSE UNCHANGED <<err, bad>>
     /\ \/ e.e = "keep" /\ Keep(e.i, e.j)
        \/ e.e = "subst" /\ Subst(e.i, e.j)
        \/ e.e = "remove" /\ Remove(e.i)
        \/ e.e = "insert" /\ Insert(e.j)
        \/ e.e \in {"end", "raise"} /\ UNCHANGED svars
TraceSpec == TraceInit /\ [][TraceNext]_tvars
Done == l > Len(Ev)
Report == Done => PrintT(ToJson([tid |-> tid, v |-> IF err = "" THEN "ACCEPT" ELSE "REJECT", step |-> bad, clause |-> err]))
=============================================================================
