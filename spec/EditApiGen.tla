----------------------------- MODULE EditApiGen -----------------------------
(* History generator for C05: TLC enumerates every sequence of public
   operations up to MaxOps and prints it; the harness replays each on fresh
   real edits (spec -> code).                                             *)
EXTENDS EditApi, Json
GenNext == \E op \in Ops : Call(op)
GenSpec == Init /\ [][GenNext]_vars
Emit == PrintT(ToJson(hist))
=============================================================================
