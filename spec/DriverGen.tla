----------------------------- MODULE DriverGen -----------------------------
(* Generator for Driver.tla: the model is deterministic once the environment is chosen, so TLC's exhaustive run visits
   one behaviour per environment; its end state is printed (what the flat view handed out, with all positions at that
   moment; the final positions; what edited_cost returned; the edit_list entries).  props/_driver.py builds the same
   environment out of real TreeNode objects whose edits() returns a compound edit over scripted leaves, calls the real
   TreeNode.get_all_edit_contexts / TreeNode.diff / EditedTreeNode.edited_cost and compares (MODEL-DRIFT). *)
EXTENDS Driver, Json
Emit == (pc = "done") => PrintT(ToJson([chains |-> chain, early |-> Early, view |-> View,
                                         yielded |-> [i \in 1..Len(yielded) |-> [leaf |-> yielded[i][1], lo |-> yielded[i][2],
                                                                               ptr |-> yielded[i][3]]],
                                         ptr |-> ptr, cost |-> cost, lists |-> [e \in 1..(N + 1) |-> lists[e - 1]]]))
=============================================================================
