---------------------------- MODULE DispatchGen ----------------------------
(* Spec -> code: TLC enumerates every universe of Dispatch.tla within the constants and prints it with the
   model's resolution; props/_dispatch.py builds the same formatter classes for real and compares. *)
EXTENDS Dispatch, Json
N3 == <<"VB", "VA", "object">>
N2 == <<"VA", "object">>
Emit == PrintT(ToJson([has |-> [c \in 1..K |-> has[c]], subtypes |-> subtypes, reg |-> reg, mro |-> mro, base |-> base,
                       answer |-> IF Resolve = None THEN <<>> ELSE <<ToString(Resolve[1]), Resolve[2]>>]))
=============================================================================
