----------------------------- MODULE BuilderGen -----------------------------
(* Graph generator and model-checking instance for Builder.tla: all graphs with
   NObj container objects, up to MaxKids slots each, slots pointing at any
   object or scalar, x cycle options.  Emit prints each (graph, options).   *)
EXTENDS Builder, Json
CONSTANTS NObj, MaxKids, Kinds
Targets == (1..NObj) \cup {0 - s : s \in 1..Len(Scalars)}
KidSeqs == UNION {[1..n -> Targets] : n \in 0..MaxKids}
Graphs == {g \in [1..NObj -> [kind : Kinds, kids : KidSeqs]] :
              \A n \in 1..NObj : IsSetKind(g[n].kind) => \A i \in 1..Len(g[n].kids) : g[n].kids[i] < 0}
OptSpace == [check : BOOLEAN, ignore : BOOLEAN]
GenInit == G \in Graphs /\ root = 1 /\ opts \in OptSpace /\ Init0
GenSpec == GenInit /\ [][Next]_bvars /\ WF_bvars(Next)
EmitSpec == (G \in Graphs /\ root = 1 /\ opts = [check |-> TRUE, ignore |-> FALSE] /\ Init0) /\ [][FALSE]_bvars
Emit == PrintT(ToJson([g |-> G]))
MCScalars == <<"int:1", "str:a", "null:", "str:">>
MCKeys == <<"k:str:a", "k:str:b", "k:str:c">>
=============================================================================
