---------------------------- MODULE SelectionTrace ----------------------------
(* Trace validation: one behaviour per schedule, its events are the outcomes the
   real algorithms produced on items following that schedule.               *)
EXTENDS Selection, Json, IOUtils
Traces == JsonDeserialize(IOEnv.TRACE_FILE)
VARIABLES tid, l, err, bad
tvars == <<chain, tid, l, err, bad>>
Ev == Traces[tid].ev
TraceInit == tid \in 1..Len(Traces) /\ l = 1 /\ err = "" /\ bad = 0 /\ chain = Traces[tid].chain
Fail(e) == IF e.alg = "search" THEN FirstFail(SearchClauses(e))
           ELSE IF e.alg = "sort" THEN FirstFail(SortClauses(e))
           ELSE IF e.alg = "min" THEN FirstFail(MinClauses(e))
           ELSE IF e.alg = "distinct" THEN FirstFail(DistinctClauses(e))
           ELSE "machinery:unknown-algorithm"
TraceNext == /\ l <= Len(Ev) /\ l' = l + 1 /\ UNCHANGED <<tid, chain>>
             /\ IF Fail(Ev[l]) # "" /\ err = "" THEN err' = Fail(Ev[l]) /\ bad' = l ELSE UNCHANGED <<err, bad>>
TraceSpec == TraceInit /\ [][TraceNext]_tvars
Done == l > Len(Ev)
Report == Done => PrintT(ToJson([tid |-> tid, v |-> IF err = "" THEN "ACCEPT" ELSE "REJECT", step |-> bad, clause |-> err]))
=============================================================================
