------------------------------ MODULE Compound ------------------------------
(***************************************************************************)
(* L2 (mechanism) model of the two FIXED-ARITY compound edits:              *)
(*   graphtage.graphtage.KeyValuePairEdit  (key edit, value edit)           *)
(*   graphtage.xml.XMLElementEdit          (tag, attributes, text?, children) *)
(* Both hold their sub-edits from construction on, report the SUM of the    *)
(* sub-edits' bounds, and refine the FIRST sub-edit - in a fixed order that *)
(* for XML differs from the order in which edits() lists them - that still  *)
(* answers True (short-circuit `or' / if-elif chain).  Every element of a   *)
(* mapping and every XML element of a C01/C03/C04/C05 execution runs        *)
(* through one of them.                                                     *)
(*                                                                         *)
(* Kind = "kvp":  sub-edits 1 = key, 2 = value; tighten order <<1, 2>>;     *)
(*                edits() = <<1, 2>>; is_complete() = bounds definitive     *)
(*                (AbstractEdit's default).                                 *)
(* Kind = "xml":  sub-edits 1 = tag, 2 = attrib, 3 = text (absent when      *)
(*                ~HasText), 4 = children; tighten order <<1, 3, 2, 4>>;    *)
(*                edits() = <<1, 2, 3, 4>>; is_complete() = all sub-edits   *)
(*                complete.                                                 *)
(* Kind = "fixedseq": sequences.FixedLengthSequenceEdit (lists compared      *)
(*                without list edits): sub-edits 1, 2 = the positional      *)
(*                pairs, followed in edits() by SurplusN removals or        *)
(*                insertions of constant cost SurplusCost each (the longer  *)
(*                list's tail; listed as 9); is_complete() = all pairs      *)
(*                complete; tighten_bounds() is wrapped in                  *)
(*                bounds.repeat_until_tightened: False when the interval is *)
(*                already a single value, otherwise the body (refine the    *)
(*                first refinable pair) is REPEATED, its answer ignored,    *)
(*                until the interval shrank or is a single value.           *)
(* Environment: sub-edit e follows a chain of strictly nested intervals     *)
(* within 0..V that ends in a single value (chosen in Init).                *)
(* Every public operation is one atomic transition; a client may call them  *)
(* in any order.                                                            *)
(***************************************************************************)
EXTENDS Integers, Sequences, FiniteSets, TLC
CONSTANTS Kind, HasText, V, MaxOps, SurplusN, SurplusCost
ASSUME Kind \in {"kvp", "xml", "fixedseq"} /\ HasText \in BOOLEAN /\ SurplusN \in Nat /\ SurplusCost \in Nat
Present == IF Kind \in {"kvp", "fixedseq"} THEN {1, 2} ELSE IF HasText THEN {1, 2, 3, 4} ELSE {1, 2, 4}
TightenOrder == IF Kind \in {"kvp", "fixedseq"} THEN <<1, 2>> ELSE IF HasText THEN <<1, 3, 2, 4>> ELSE <<1, 2, 4>>
Listed == IF Kind \in {"kvp", "fixedseq"} THEN <<1, 2>> ELSE IF HasText THEN <<1, 2, 3, 4>> ELSE <<1, 2, 4>>
Surplus == IF Kind = "fixedseq" THEN SurplusN * SurplusCost ELSE 0
EditsOrder == IF Kind = "fixedseq" THEN Listed \o [i \in 1..SurplusN |-> 9] ELSE Listed
RECURSIVE Chains(_, _)
Chains(l, h) == IF l = h THEN { << <<l, h>> >> }
                ELSE { << <<l, h>> >> \o c : c \in UNION { Chains(l2, h2) :
                         <<l2, h2>> \in { p \in (l..h) \X (l..h) : p[1] <= p[2] /\ p # <<l, h>> } } }
AllChains == UNION { Chains(l, h) : <<l, h>> \in { p \in (0..V) \X (0..V) : p[1] <= p[2] } }
VARIABLES chain, ptr, nops, lastop, lo, hi, seen
vars == <<chain, ptr, nops, lastop, lo, hi, seen>>
RECURSIVE SumOver(_, _)
SumOver(f, S) == IF S = {} THEN 0 ELSE LET e == CHOOSE x \in S : TRUE IN f[e] + SumOver(f, S \ {e})
Lo(p, e) == chain[e][p[e]][1]
Hi(p, e) == chain[e][p[e]][2]
AtEnd(p, e) == p[e] = Len(chain[e])

\* bounds(): the sum of the sub-edits' bounds
BoundsOf(p) == << SumOver([e \in Present |-> Lo(p, e)], Present) + Surplus, SumOver([e \in Present |-> Hi(p, e)], Present) + Surplus >>
\* tighten_bounds(): the first sub-edit in TightenOrder that can still be refined is refined once
RECURSIVE FirstOpen(_, _)
FirstOpen(p, k) == IF k > Len(TightenOrder) THEN 0
                   ELSE IF ~AtEnd(p, TightenOrder[k]) THEN TightenOrder[k] ELSE FirstOpen(p, k + 1)
Body(p) == LET e == FirstOpen(p, 1) IN
           IF e = 0 THEN <<p, FALSE>> ELSE <<[p EXCEPT ![e] = @ + 1], TRUE>>
\* bounds.repeat_until_tightened around Body (the chains are strictly nested, so the loop ends; a body that
\* keeps answering without moving anything would spin forever - the failure mode of known finding F20)
RECURSIVE Repeat(_, _)
Repeat(p, start) == LET q == Body(p)[1] b == BoundsOf(q) IN
                    IF b[1] = b[2] \/ b[1] > start[1] \/ b[2] < start[2] THEN <<q, TRUE>>
                    ELSE IF q = p THEN <<q, TRUE>>       \* unreachable with strictly nested chains (would not return)
                    ELSE Repeat(q, start)
TightenOf(p) == IF Kind = "fixedseq"
                THEN IF BoundsOf(p)[1] = BoundsOf(p)[2] THEN <<p, FALSE>> ELSE Repeat(p, BoundsOf(p))
                ELSE Body(p)
\* is_complete()
CompleteOf(p) == IF Kind = "kvp" THEN BoundsOf(p)[1] = BoundsOf(p)[2]
                 ELSE \A e \in Present : Lo(p, e) = Hi(p, e)

Init == /\ chain \in [Present -> AllChains]
        /\ ptr = [e \in Present |-> 1]
        /\ nops = 0 /\ lastop = <<"init">> /\ lo = 0 /\ hi = 0 /\ seen = FALSE
OpTighten == LET t == TightenOf(ptr) IN ptr' = t[1] /\ lastop' = <<"tighten", t[2]>> /\ UNCHANGED <<lo, hi, seen>>
OpBounds == LET b == BoundsOf(ptr) IN /\ lastop' = <<"bounds", b[1], b[2]>> /\ lo' = b[1] /\ hi' = b[2] /\ seen' = TRUE
                                      /\ UNCHANGED ptr
OpEdits == lastop' = <<"edits", EditsOrder>> /\ UNCHANGED <<ptr, lo, hi, seen>>
OpComplete == lastop' = <<"complete", CompleteOf(ptr)>> /\ UNCHANGED <<ptr, lo, hi, seen>>
Next == /\ nops < MaxOps /\ nops' = nops + 1 /\ UNCHANGED chain
        /\ (OpTighten \/ OpBounds \/ OpEdits \/ OpComplete)
Spec == Init /\ [][Next]_vars

FinalCost == SumOver([e \in Present |-> chain[e][Len(chain[e])][1]], Present) + Surplus
NeverWidens == [][seen /\ seen' => lo' >= lo /\ hi' <= hi]_vars
FinalInside == seen => lo <= FinalCost /\ FinalCost <= hi
\* a True answer of tighten_bounds strictly shrinks the interval
ProgressShrinks == [][lastop'[1] = "tighten" /\ lastop'[2] =>
                        LET b0 == BoundsOf(ptr) b1 == BoundsOf(ptr') IN
                          b1[1] >= b0[1] /\ b1[2] <= b0[2] /\ (b1[1] > b0[1] \/ b1[2] < b0[2])]_vars
\* a False answer leaves a single-valued interval equal to the final cost
QuiescentDefinitive == (lastop[1] = "tighten" /\ ~lastop[2]) =>
                          LET b == BoundsOf(ptr) IN b[1] = FinalCost /\ b[2] = FinalCost
\* is_complete() answers True only when the cost is settled; for XML: and nothing below can change any more
CompleteSettled == (lastop[1] = "complete" /\ lastop[2]) =>
                       /\ BoundsOf(ptr)[1] = FinalCost /\ BoundsOf(ptr)[2] = FinalCost
                       /\ Kind # "kvp" => ~TightenOf(ptr)[2]
\* what edits() lists adds up to what bounds() reports (C03 at this level), in every state
SumOfParts == BoundsOf(ptr)[1] = SumOver([e \in Present |-> Lo(ptr, e)], {Listed[i] : i \in 1..Len(Listed)})
                                 + SurplusCost * Cardinality({i \in 1..Len(EditsOrder) : EditsOrder[i] = 9})
=============================================================================
