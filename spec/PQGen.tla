------------------------------ MODULE PQGen ------------------------------
(* Behaviour generator for PQ.tla: a history variable records the
   observation of every step; TLC enumerates every behaviour of PQ of
   length MaxOps and prints it as JSON.  The harness replays each one on
   the real heaps (spec -> code direction).                             *)
EXTENDS PQ, Json
VARIABLE hist
GenInit == Init /\ hist = << >>
GenNext == Next /\ hist' = Append(hist, obs')
GenSpec == GenInit /\ [][GenNext]_<<live, nextId, nops, obs, hist>>
Emit == (nops = MaxOps) => PrintT(ToJson(hist))
=============================================================================
