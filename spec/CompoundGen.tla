---------------------------- MODULE CompoundGen ----------------------------
(* Behaviour generator for Compound.tla (as CollectionGen): a history variable records what every public operation
   returned and the sub-edits' positions after it; TLC simulates behaviours; props/_compound.py replays each on a real
   KeyValuePairEdit / XMLElementEdit whose sub-edits were replaced by scripted ones and compares step by step
   (MODEL-DRIFT); the executions also feed the L1 checks C04 (BoundedTrace) and C05 (order independence). *)
EXTENDS Compound, Json
VARIABLE hist
Ret(op) == IF op[1] = "tighten" THEN <<IF op[2] THEN 1 ELSE 0>>
           ELSE IF op[1] = "bounds" THEN <<op[2], op[3]>>
           ELSE IF op[1] = "edits" THEN op[2]
           ELSE <<IF op[2] THEN 1 ELSE 0>>
GenInit == Init /\ hist = << >>
GenNext == /\ Next
           /\ hist' = Append(hist, [op |-> lastop'[1], ret |-> Ret(lastop'),
                                    ptr |-> [e \in 1..4 |-> IF e \in Present THEN ptr'[e] ELSE 0]])
GenSpec == GenInit /\ [][GenNext]_<<vars, hist>>
Emit == (nops = MaxOps) => PrintT(ToJson([chains |-> [e \in 1..4 |-> IF e \in Present THEN chain[e] ELSE << >>],
                                          hist |-> hist, final |-> FinalCost]))
=============================================================================
