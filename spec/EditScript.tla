----------------------------- MODULE EditScript -----------------------------
(***************************************************************************)
(* L1 contract: what a legal edit script between two documents is.         *)
(*                                                                         *)
(* Documents are NODE TABLES: a sequence of records, pre-order,            *)
(*   [kind, parent, slot, key, ch, lh, size]                               *)
(*   kind   "int" "float" "bool" "null" "str" "list" "xlist" "mset" "map"  *)
(*          "kvp" "xml" "obj" "plist"                                      *)
(*   parent index of the parent, 0 for the root                           *)
(*   slot   position among the siblings (lists), component (kvp: 1 key,    *)
(*          2 value; xml: 1 tag 2 attributes 3 text 4 children; obj: n)    *)
(*   key    for kvp nodes the canonical text of the key, "" otherwise      *)
(*   ch     content hash of the subtree as data (mappings and multisets    *)
(*          as bags, lists positional, scalar type significant)            *)
(*   lh     loose content hash: as ch, but an absent XML text and a        *)
(*          whitespace-only one coincide, and XML text is taken modulo      *)
(*          surrounding whitespace (layout, not data: the equality the     *)
(*          anchors of C02 name; "equal as data" in BOTH directions of     *)
(*          C02); numbers and booleans are NOT loosened: 1, 1.0            *)
(*          and true are three different values (finding F29)              *)
(*   size   the node's size in the cost model (informational)              *)
(*                                                                         *)
(* A script is a sequence of EVENTS against a stack of FRAMES.  A frame is *)
(* opened for a pair of containers (f, t) and must account for every child *)
(* of f exactly once (kept, changed, descended into, removed) and every    *)
(* child of t exactly once (kept, changed, descended into, inserted).      *)
(*                                                                         *)
(* The clauses of the properties C01, C02, C03, C10 are the named          *)
(* conditions below; an event that breaks a clause is recorded in `errs`   *)
(* under the property the clause belongs to.  In model-checking mode       *)
(* (EditScriptMC) only events that break no clause are generated, and TLC  *)
(* checks that both documents can then be read back from the events.       *)
(***************************************************************************)
EXTENDS Integers, Sequences, FiniteSets, TLC

VARIABLES F, T,      \* the two documents; constant along a behaviour
          O,         \* options the caller asked for: [strategy, lists]
          stack,     \* open frames, innermost last
          removed,   \* from-ids removed so far   (whole script)
          inserted,  \* to-ids inserted so far    (whole script)
          nonkeep,   \* number of events that mark a change
          total,     \* cost reported for the root pair, -1 until closed
          errs       \* property -> [step, clause]; step 0 = no clause broken
docvars == <<F, T, O>>
vars == <<F, T, O, stack, removed, inserted, nonkeep, total, errs>>

Props == {"C01", "C02", "C03", "C10"}
NoErr == [p \in Props |-> [step |-> 0, clause |-> ""]]

NullNode == [kind |-> "none", parent |-> -1, slot |-> 0, key |-> "", ch |-> "", lh |-> "", size |-> 0]
FN(i) == IF i \in 1..Len(F) THEN F[i] ELSE NullNode
TN(j) == IF j \in 1..Len(T) THEN T[j] ELSE NullNode
Kids(D, p) == {i \in 1..Len(D) : D[i].parent = p}
KindOf(D, p) == IF p = 0 THEN "root" ELSE IF p \in 1..Len(D) THEN D[p].kind ELSE "none"
Ordered(k) == k \in {"list", "xlist"}
Slotwise(k) == k \in {"kvp", "xml", "obj", "plist", "root"}
Container(k) == k \in {"list", "xlist", "mset", "map", "kvp", "xml", "obj", "plist"}

Top == stack[Len(stack)]
Frame(f, t) == [f |-> f, t |-> t, kind |-> KindOf(F, f), usedF |-> {}, usedT |-> {},
                lastF |-> 0, lastT |-> 0, acc |-> 0, fp |-> {}, seqF |-> << >>, seqT |-> << >>]
RootFrame == Frame(0, 0)

\* list edits are switched off for this frame (always, or because both lists have the same length)
ListsFixed(fr) == /\ fr.kind = "list"
                  /\ \/ O.lists = "off"
                     \/ O.lists = "offsame" /\ Cardinality(Kids(F, fr.f)) = Cardinality(Kids(T, fr.t))

(***************************************************************************)
(* Clauses.  Each is <<property, name, holds>>.                            *)
(***************************************************************************)
PairClauses(fr, i, j) == <<
  <<"C01", "from-node-is-not-an-element-of-the-container", i \in Kids(F, fr.f)>>,
  <<"C01", "to-node-is-not-an-element-of-the-container", j \in Kids(T, fr.t)>>,
  <<"C01", "from-element-accounted-for-twice", i \notin fr.usedF>>,
  <<"C01", "to-element-accounted-for-twice", j \notin fr.usedT>>,
  <<"C01", "list-order-not-kept-on-from-side", Ordered(fr.kind) => i > fr.lastF>>,
  <<"C01", "list-order-not-kept-on-to-side", Ordered(fr.kind) => j > fr.lastT>>,
  <<"C01", "components-paired-across-roles", Slotwise(fr.kind) => FN(i).slot = TN(j).slot>>,
  <<"C10", "strategy-none-pairs-items-with-different-keys",
       (fr.kind = "map" /\ O.strategy = "none") => FN(i).key = TN(j).key>>,
  <<"C10", "list-edits-off-but-elements-not-paired-by-position",
       ListsFixed(fr) => FN(i).slot = TN(j).slot>> >>

RemoveClauses(fr, i) == <<
  <<"C01", "removed-node-is-not-an-element-of-the-container", i \in Kids(F, fr.f)>>,
  <<"C01", "from-element-accounted-for-twice", i \notin fr.usedF>>,
  <<"C01", "list-order-not-kept-on-from-side", Ordered(fr.kind) => i > fr.lastF>>,
  <<"C10", "list-edits-off-but-a-non-surplus-element-is-removed",
       ListsFixed(fr) => FN(i).slot > Cardinality(Kids(T, fr.t))>> >>

InsertClauses(fr, j) == <<
  <<"C01", "inserted-node-is-not-an-element-of-the-container", j \in Kids(T, fr.t)>>,
  <<"C01", "to-element-accounted-for-twice", j \notin fr.usedT>>,
  <<"C01", "list-order-not-kept-on-to-side", Ordered(fr.kind) => j > fr.lastT>>,
  <<"C10", "list-edits-off-but-a-non-surplus-element-is-inserted",
       ListsFixed(fr) => TN(j).slot > Cardinality(Kids(F, fr.f))>> >>

CloseClauses(fr, reported) == <<
  <<"C01", "a-from-element-is-not-accounted-for", fr.usedF = Kids(F, fr.f)>>,
  <<"C01", "a-to-element-is-not-accounted-for", fr.usedT = Kids(T, fr.t)>>,
  <<"C03", "reported-cost-differs-from-sum-of-listed-edits", reported = fr.acc>>,
  <<"C10", "strategy-auto-but-a-shared-key-is-not-paired-with-itself",
       (fr.kind = "map" /\ O.strategy = "auto") =>
          \A i \in Kids(F, fr.f), j \in Kids(T, fr.t) : FN(i).key = TN(j).key => <<i, j>> \in fr.fp>> >>

\* a cost-0 match must pair equal data, a paid change must pair different data
KeepClauses(i, j) == <<
  <<"C02", "unequal-items-matched-at-zero-cost", FN(i).lh = TN(j).lh>>,
  \* the same fact read as C01: an element shown as unchanged stands for itself in BOTH read-backs
  <<"C01", "element-kept-as-unchanged-differs-between-the-documents", FN(i).lh = TN(j).lh>> >>
ChangeClauses(i, j, c) == <<
  <<"C02", "equal-items-reported-as-changed", FN(i).ch # TN(j).ch>>,
  <<"C02", "change-with-non-positive-cost", c > 0>> >>

FirstFail(cs, p) ==
  LET bad == {k \in 1..Len(cs) : cs[k][1] = p /\ ~cs[k][3]}
  IN IF bad = {} THEN "" ELSE cs[CHOOSE k \in bad : \A m \in bad : k <= m][2]
AllHold(cs) == \A k \in 1..Len(cs) : cs[k][3]

Record(cs, step) ==
  errs' = [p \in Props |->
             IF errs[p].step = 0 /\ FirstFail(cs, p) # ""
             THEN [step |-> step, clause |-> FirstFail(cs, p)] ELSE errs[p]]

(***************************************************************************)
(* State updates (total: they are applied whether or not a clause broke).  *)
(***************************************************************************)
SetTop(fr) == [stack EXCEPT ![Len(stack)] = fr]
Paired(fr, i, j, c) ==
  [fr EXCEPT !.usedF = @ \cup {i}, !.usedT = @ \cup {j}, !.lastF = i, !.lastT = j,
             !.acc = @ + c, !.fp = @ \cup {<<i, j>>},
             !.seqF = Append(@, i), !.seqT = Append(@, j)]

Keep(i, j, step) ==
  /\ stack # << >>
  /\ Record(PairClauses(Top, i, j) \o KeepClauses(i, j), step)
  /\ stack' = SetTop(Paired(Top, i, j, 0))
  /\ UNCHANGED <<docvars, removed, inserted, nonkeep, total>>

Change(i, j, c, step) ==
  /\ stack # << >>
  /\ Record(PairClauses(Top, i, j) \o ChangeClauses(i, j, c), step)
  /\ stack' = SetTop(Paired(Top, i, j, c))
  /\ nonkeep' = nonkeep + 1
  /\ UNCHANGED <<docvars, removed, inserted, total>>

\* descend into a pair of containers: the pair is accounted for in the parent, a new frame opens
Open(i, j, step) ==
  /\ stack # << >>
  /\ Record(PairClauses(Top, i, j), step)
  /\ stack' = Append(SetTop(Paired(Top, i, j, 0)), Frame(i, j))
  /\ UNCHANGED <<docvars, removed, inserted, nonkeep, total>>

Remove(i, c, step) ==
  /\ stack # << >>
  /\ Record(RemoveClauses(Top, i), step)
  /\ stack' = SetTop([Top EXCEPT !.usedF = @ \cup {i}, !.lastF = i, !.acc = @ + c, !.seqF = Append(@, i)])
  /\ removed' = removed \cup {i}
  /\ nonkeep' = nonkeep + 1
  /\ UNCHANGED <<docvars, inserted, total>>

Insert(j, c, step) ==
  /\ stack # << >>
  /\ Record(InsertClauses(Top, j), step)
  /\ stack' = SetTop([Top EXCEPT !.usedT = @ \cup {j}, !.lastT = j, !.acc = @ + c, !.seqT = Append(@, j)])
  /\ inserted' = inserted \cup {j}
  /\ nonkeep' = nonkeep + 1
  /\ UNCHANGED <<docvars, removed, total>>

\* the header some wrapper edits emit: the container matched with itself at cost 0
SelfMatch(step) ==
  /\ stack # << >>
  /\ UNCHANGED vars

\* close the innermost frame, reporting the cost the implementation attributes to it
Close(reported, step) ==
  /\ stack # << >>
  /\ Record(CloseClauses(Top, reported), step)
  /\ IF Len(stack) = 1
     THEN /\ stack' = << >>
          /\ total' = reported
     ELSE /\ stack' = [SubSeq(stack, 1, Len(stack) - 1) EXCEPT ![Len(stack) - 1].acc = @ + reported]
          /\ UNCHANGED total
  /\ UNCHANGED <<docvars, removed, inserted, nonkeep>>

Closed == stack = << >> /\ total >= 0

(***************************************************************************)
(* What the finished script must satisfy as a whole (C02), and what the    *)
(* other views of the same comparison must agree with (C01, C03).          *)
(***************************************************************************)
RootF == CHOOSE i \in 1..Len(F) : F[i].parent = 0
RootT == CHOOSE j \in 1..Len(T) : T[j].parent = 0
WholeClauses == <<
  <<"C02", "documents-differ-but-total-cost-is-zero", total = 0 => F[RootF].lh = T[RootT].lh>>,
  <<"C02", "documents-are-equal-but-total-cost-is-positive", total > 0 => F[RootF].lh # T[RootT].lh>>,
  <<"C02", "documents-differ-but-nothing-is-marked-as-changed", nonkeep = 0 => F[RootF].lh = T[RootT].lh>>,
  <<"C02", "documents-are-equal-but-something-is-marked-as-changed", nonkeep > 0 => F[RootF].lh # T[RootT].lh>> >>

\* v: [top, edited, flat, hadEdits, ann, annRemoved, annInserted, chained, partsFirst] - the other observation points of the same comparison
ViewClauses(v) == <<
  <<"C03", "annotated-tree-cost-differs-from-script-total", v.edited = total>>,
  <<"C03", "flat-edit-list-cost-differs-from-script-total", v.flat = total>>,
  <<"C01", "listed-edits-(get_all_edits)-do-not-account-for-every-change-of-the-script", v.flat = total>>,
  <<"C03", "refined-top-level-cost-differs-from-script-total", v.top = total>>,
  <<"C03", "annotated-tree-of-a-chained-diff-differs-from-script-total", v.chained = total>>,
  <<"C03", "annotated-tree-cost-asked-after-its-parts-were-refined-differs-from-script-total", v.partsFirst = total>>,
  <<"C01", "annotated-tree-removals-differ-from-script", v.ann => v.annRemoved = removed>>,
  <<"C01", "annotated-tree-insertions-differ-from-script", v.ann => v.annInserted = inserted>>,
  <<"C02", "library-reports-edits-differently-from-total", v.hadEdits = (total > 0)>> >>

Init0 == /\ stack = <<RootFrame>> /\ removed = {} /\ inserted = {} /\ nonkeep = 0 /\ total = -1
         /\ errs = NoErr
=============================================================================
