----------------------------- MODULE FibHeapGen -----------------------------
(* Directed generator for C16: behaviours of the mechanism model FibHeap.tla are
   explored (exhaustively for short ones, by simulation for long ones) and the
   operation history is printed whenever the last step produced a cascading cut
   or brought the number of links to three or more - the structural events that
   blind enumeration of short operation sequences does not reach.  A behaviour
   stops at its first such event.                                           *)
EXTENDS FibHeap, Json
\* Directed shape: a push-only prefix (building 5..MaxNodes items), one pop (the consolidation builds the
\* binomial trees), then a short tail of decrease-key / remove / pop operations where cuts cascade.
CONSTANTS PushKeys, TailOps
Popped == \E k \in 1..Len(hist) : hist[k].op = "pop"
TailLen == Len(SelectSeq(hist, LAMBDA o : o.op # "push")) 
GenNext == /\ NoCascadeYet
           /\ \/ (~Popped /\ \E k \in PushKeys : Push(k))
              \/ (~Popped /\ Cardinality(Live) >= 5 /\ Pop)
              \/ (Popped /\ TailLen <= TailOps /\ \E i \in Live : DecreaseKey(i, 0))
              \/ (Popped /\ TailLen <= TailOps /\ \E i \in Live : Remove(i))
              \/ (Popped /\ TailLen <= TailOps /\ n > 0 /\ Pop)
GenSpec == Init /\ [][GenNext]_vars
Emit == (~NoCascadeYet) => PrintT(ToJson([h |-> hist, cascades |-> cascades, links |-> links]))
=============================================================================
