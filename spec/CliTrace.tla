------------------------------ MODULE CliTrace ------------------------------
(* Trace validation for Cli.tla: one behaviour per real run of main(). *)
EXTENDS Cli, Json, IOUtils
Traces == JsonDeserialize(IOEnv.TRACE_FILE)
VARIABLES tid, l
tvars == <<cfg, phase, loaded, errs, tid, l>>
Ev == Traces[tid].ev
SetOf(s) == {s[k] : k \in 1..Len(s)}
TraceInit == /\ tid \in 1..Len(Traces) /\ l = 1 /\ Init0
             /\ LET c == Traces[tid].cfg IN
                cfg = [fromSel |-> c.fromSel, fromSelType |-> c.fromSelType, fromExt |-> c.fromExt,
                       toSel |-> c.toSel, toSelType |-> c.toSelType, toExt |-> c.toExt,
                       fromValid |-> SetOf(c.fromValid), toValid |-> SetOf(c.toValid),
                       sameData |-> c.sameData, sameKind |-> c.sameKind, decided |-> c.decided]
TraceNext ==
  /\ l <= Len(Ev) /\ l' = l + 1 /\ UNCHANGED tid
  /\ LET e == Ev[l] IN
       \/ e.e = "load" /\ Load(e.side, e.type, l)
       \/ e.e = "exit" /\ Exit(e, l)
TraceSpec == TraceInit /\ [][TraceNext]_tvars
Done == l > Len(Ev)
Report == Done => PrintT(ToJson([tid |-> tid, v |-> "DONE", errs |-> errs]))
=============================================================================
