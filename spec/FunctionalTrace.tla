---------------------------- MODULE FunctionalTrace ----------------------------
(* Trace validation for Functional: one behaviour per group of observations. *)
EXTENDS Functional, Json, IOUtils
Traces == JsonDeserialize(IOEnv.TRACE_FILE)
DummyF == [k \in {"x"} |-> "x"]
VARIABLES tid, l, bad
tvars == <<result, nobs, err, tid, l, bad>>
Ev == Traces[tid].ev
TraceInit == Init /\ tid \in 1..Len(Traces) /\ l = 1 /\ bad = 0
TraceNext == /\ l <= Len(Ev) /\ l' = l + 1 /\ UNCHANGED tid
             /\ Observe(Ev[l].k, Ev[l].v, Ev[l].raised)
             /\ bad' = IF err = "" /\ err' # "" THEN l ELSE bad
TraceSpec == TraceInit /\ [][TraceNext]_tvars
Done == l > Len(Ev)
Report == Done => PrintT(ToJson([tid |-> tid, v |-> IF err = "" THEN "ACCEPT" ELSE "REJECT", step |-> bad, clause |-> err]))
=============================================================================
