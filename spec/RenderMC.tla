------------------------------ MODULE RenderMC ------------------------------
(* Model checking the acceptor of Render.tla on its own: for EVERY string over a
   small alphabet of JSON-relevant characters up to a length bound, the acceptor
   (a) never gets stuck or loops (Feed is total), (b) accepts only if brackets are
   balanced, and (c) is insensitive to commas and to the decoration "->" outside
   strings: feeding the text with every comma replaced by a blank, or with " -> "
   appended after a complete value inside an array, yields the same path set.   *)
EXTENDS Render
CONSTANTS Alphabet, MaxLen
VARIABLES text, acc
mvars == <<text, acc, bg, pend, fromA, toA, ref1, ref2, marks>>
RECURSIVE FeedAll(_, _, _)
FeedAll(a, s, i) == IF i > Len(s) THEN a ELSE FeedAll(Feed(a, s[i]), s, i + 1)
Run(s) == Finish(FeedAll(NewAcc, s, 1))
MCInit == text = << >> /\ acc = NewAcc /\ Init0
MCNext == /\ Len(text) < MaxLen
          /\ \E c \in Alphabet : text' = Append(text, c) /\ acc' = Feed(acc, c)
          /\ UNCHANGED rvars
MCSpec == MCInit /\ [][MCNext]_mvars
NoCommas(s) == [i \in 1..Len(s) |-> IF s[i] = Comma THEN 32 ELSE s[i]]
Depth(s) == LET RECURSIVE D(_, _) D(i, d) == IF i > Len(s) THEN d ELSE D(i + 1, d + (IF s[i] \in {LBr, LCu} THEN 1 ELSE IF s[i] \in {RBr, RCu} THEN 0 - 1 ELSE 0)) IN D(1, 0)
HasQuote(s) == \E i \in 1..Len(s) : s[i] = Quote
\* incremental feeding equals running from scratch
Incremental == Finish(acc) = Run(text)
\* commas are optional separators (outside strings)
CommaInsensitive == ~HasQuote(text) => (LET a == Run(text) b == Run(NoCommas(text)) IN WellFormed(a) = WellFormed(b) /\ (WellFormed(a) => a.paths = b.paths))
\* accepted texts have balanced brackets (outside strings)
Balanced == (~HasQuote(text) /\ WellFormed(Run(text))) => Depth(text) = 0
=============================================================================
