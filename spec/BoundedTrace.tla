---------------------------- MODULE BoundedTrace ----------------------------
(* Trace validation for Bounded.tla: one behaviour per recorded object
   history (exposures and steps in call order, `final` = the value the
   object ended with).  The verdict names the first clause broken.        *)
EXTENDS Bounded, Sequences, Json, IOUtils
Traces == JsonDeserialize(IOEnv.TRACE_FILE)
VARIABLES tid, l, err
tvars == <<lo, hi, seen, trues, lastStep, budget, final, dead, tid, l, err>>
Ev == Traces[tid].ev
TraceInit == /\ tid \in 1..Len(Traces) /\ l = 1 /\ err = ""
             /\ final = Traces[tid].final
             /\ lo = -Inf /\ hi = Inf /\ seen = FALSE /\ trues = 0 /\ lastStep = "none" /\ budget = -1 /\ dead = FALSE
Fail(e) == IF e.k = "b" THEN FirstFail(ExposeClauses(e.lo, e.hi))
           ELSE IF e.k = "t" THEN FirstFail(StepClauses(e.r))
           ELSE IF e.k = "hang" THEN "refinement-step-does-not-terminate"
           ELSE IF e.k = "raise" THEN "exception"
           ELSE IF e.k = "open" THEN "does-not-converge-to-a-single-value"
           ELSE "machinery:unknown-event"
TraceNext ==
  /\ err = "" /\ l <= Len(Ev)
  /\ LET e == Ev[l] IN
       IF Fail(e) # "" THEN err' = Fail(e) /\ UNCHANGED <<lo, hi, seen, trues, lastStep, budget, final, dead, tid, l>>
       ELSE /\ \/ e.k = "b" /\ Expose(e.lo, e.hi)
               \/ e.k = "t" /\ Step(e.r)
            /\ l' = l + 1 /\ UNCHANGED <<tid, err>>
TraceSpec == TraceInit /\ [][TraceNext]_tvars
Done == err # "" \/ l > Len(Ev)
Report == Done => PrintT(ToJson([tid |-> tid, v |-> IF err = "" THEN "ACCEPT" ELSE "REJECT", step |-> l, clause |-> err]))
=============================================================================
