----------------------------- MODULE RenderTrace -----------------------------
(* Trace validation for Render: one behaviour per rendered diff.  The cells of
   the real output are consumed one per step; the reference renderings of the
   two documents are read by the same acceptor when the behaviour starts.   *)
EXTENDS Render, Json, IOUtils
Traces == JsonDeserialize(IOEnv.TRACE_FILE)
VARIABLES tid, l, err
tvars == <<bg, pend, fromA, toA, ref1, ref2, marks, tid, l, err>>
Cells == Traces[tid].cells
RECURSIVE FeedFrom(_, _, _)
FeedFrom(a, s, i) == IF i > Len(s) THEN a ELSE FeedFrom(Feed(a, s[i]), s, i + 1)
TraceInit == /\ tid \in 1..Len(Traces) /\ l = 1 /\ err = ""
             /\ bg = 0 /\ pend = NoPend /\ fromA = NewAcc /\ toA = NewAcc /\ marks = 0
             /\ ref1 = Finish(FeedFrom(NewAcc, Traces[tid].ref1, 1))
             /\ ref2 = Finish(FeedFrom(NewAcc, Traces[tid].ref2, 1))
TraceNext ==
  /\ err = ""
  /\ \/ /\ l <= Len(Cells) /\ Cell(Cells[l]) /\ l' = l + 1 /\ UNCHANGED <<tid, err>>
     \/ /\ l = Len(Cells) + 1 /\ EndOfOutput /\ l' = l + 1 /\ UNCHANGED <<tid, err>>
     \/ /\ l = Len(Cells) + 2 /\ err' = (IF FirstFail(Clauses) = "" THEN "ok" ELSE FirstFail(Clauses))
        /\ UNCHANGED <<bg, pend, fromA, toA, ref1, ref2, marks, tid, l>>
TraceSpec == TraceInit /\ [][TraceNext]_tvars
Done == err # ""
Report == Done => PrintT(ToJson([tid |-> tid, v |-> IF err = "ok" THEN "ACCEPT" ELSE "REJECT", step |-> l,
                                 clause |-> IF err = "ok" THEN "" ELSE err,
                                 fromErr |-> fromA.err, toErr |-> toA.err, marks |-> marks]))
=============================================================================
