------------------------------- MODULE ExprGen -------------------------------
(* Program generator for C19: expression strings built bottom-up over an
   adversarial vocabulary (member chains incl. format / format_map / join / get,
   string literals with replacement fields that traverse private attributes,
   calls of whitelisted and non-whitelisted builtins, indexing, operators).
   TLC enumerates the set and prints every program.                        *)
EXTENDS Integers, Sequences, FiniteSets, TLC, Json
CONSTANTS Depth
Atoms == {"s", "t", "lst", "d", "tup", "from", "to", "1", "\"_x\"", "\"pub\"",
          "\"{0._x}\"", "\"{0.pub._x}\"", "\"{0[k]._x}\"", "\"{0.__class__}\"", "\"{0.__class__.__name__}\"",
          "\"{0._Sentinel__secret}\"", "\"{a._x}\"", "\"{0[0]._x}\"", "\"%s\""}
Members == {"pub", "_x", "__class__", "__dict__", "_Sentinel__secret", "format", "format_map", "join", "get", "method",
            "items", "values", "__getattribute__", "__init__", "object", "key", "value"}
Funcs == {"str", "list", "dict", "tuple", "map", "filter", "sorted", "iter", "hash", "id", "len", "ascii", "bytes", "any",
          "sum", "max", "enumerate", "zip", "frozenset", "set", "bool", "int", "slice", "round", "abs",
          "getattr", "vars", "type", "dir", "repr", "format", "eval", "hasattr", "object", "globals", "locals", "open",
          "print", "next", "isinstance", "__import__", "super", "setattr", "callable", "classmethod"}
\* the same member access written with parentheses / blanks around the member name (the parser discards
\* redundant parentheses, so these must be refused exactly like the plain spelling)
Spellings(a, m) == {a \o "." \o m, a \o ".(" \o m \o ")", a \o ".((" \o m \o "))", a \o " . " \o m, "(" \o a \o ")." \o m}
PrivateMembers == {"_x", "__class__", "__dict__", "_Sentinel__secret"}
Level1(S) == S \cup {a \o "." \o m : a \in S, m \in Members}
                \cup UNION {Spellings(a, m) : a \in S \cap {"s", "t", "from", "to", "s.pub", "lst[0]", "d[\"k\"]", "tup[0]"}, m \in PrivateMembers \cup {"pub"}}
                \cup {f \o "(" \o a \o ")" : f \in Funcs, a \in S}
                \cup {a \o "[" \o i \o "]" : a \in {"lst", "d", "tup", "s", "from", "to"}, i \in {"0", "\"k\"", "\"_x\""}}
                \* subscripting objects that are NOT subscriptable (a fallback to attribute access would be a route)
                \cup {a \o "[" \o i \o "]" : a \in {"s.pub", "t.pub", "lst[0].pub", "n", "from.pub"},
                                               i \in {"\"_x\"", "\"value\"", "\"_\" + \"x\"", "0"}}
Formatters == {"\"{0._x}\"", "\"{0.pub._x}\"", "\"{0[k]._x}\"", "\"{0.__class__}\"", "\"{0.__class__.__name__}\"",
               "\"{0._Sentinel__secret}\"", "\"{0[0]._x}\""}
Calls(S) == {f \o ".format(" \o a \o ")" : f \in Formatters, a \in S}
              \cup {f \o ".format_map(" \o a \o ")" : f \in {"\"{a._x}\"", "\"{k._x}\""}, a \in S}
              \cup {"str.format(" \o f \o ", " \o a \o ")" : f \in Formatters, a \in S}
              \cup {"list(map(" \o f \o ".format, " \o a \o "))" : f \in Formatters, a \in {"lst", "tup", "[s]", "[s, t]"}}
              \cup {"getattr(" \o a \o ", \"_x\")" : a \in S}
              \cup {a \o " == " \o b : a \in S, b \in {"s", "\"_x\"", "1"}}
              \cup {a \o " + " \o b : a \in {"lst", "tup", "\"_x\"", "s"}, b \in S}
              \cup {a \o " ? " \o b \o " : 1" : a \in {"1", "s"}, b \in S}
E1 == Level1(Atoms)
Small1 == {e \in E1 : TRUE}
Programs == IF Depth <= 1 THEN E1 \cup Calls(Atoms)
            ELSE IF Depth = 2 THEN E1 \cup Calls(E1) \cup {a \o "." \o m : a \in E1, m \in Members}
            ELSE E1 \cup Calls(E1) \cup Level1(E1) \cup Calls({a \o "." \o m : a \in E1, m \in {"pub", "method", "object", "key", "value"}})
VARIABLE prog
GenInit == prog \in Programs
GenSpec == GenInit /\ [][FALSE]_prog
Emit == PrintT(ToJson([p |-> prog]))
=============================================================================
