------------------------------- MODULE ExprMC -------------------------------
(* Model-checking instance of Expr.tla: names and members as code-point sequences. *)
EXTENDS Expr
MCNames == {<<115>>, <<108, 101, 110>>, <<103, 101, 116, 97, 116, 116, 114>>, <<95, 120>>}     \* s, len, getattr, _x
MCLocals == {<<115>>}
MCWhitelist == {<<108, 101, 110>>}
MCMembers == {<<112, 117, 98>>, <<95, 120>>, <<95, 95, 100, 105, 99, 116, 95, 95>>, <<102, 111, 114, 109, 97, 116>>}  \* pub, _x, __dict__, format
MCBound == privateReads + badResolves + leaks <= 2 /\ TLCGet("level") <= 6
=============================================================================
