-------------------------------- MODULE Expr --------------------------------
(***************************************************************************)
(* C19: match expressions cannot reach private attributes.                  *)
(*                                                                         *)
(* L1 contract over the observable events of one evaluation:                *)
(*   Resolve(name, inLocals, inWhitelist, ok)  an identifier was looked up  *)
(*   AttrRead(name)   an attribute of a tripwired object was read (name is  *)
(*                    a sequence of code points; 95 is "_")                 *)
(*   Leak(what)       the result or error text of the evaluation contains   *)
(*                    a canary that only private state holds                *)
(*   End                                                                   *)
(* Invariants: a successful Resolve hits the given variables or the         *)
(* documented whitelist; no AttrRead of a name beginning with "_" (the      *)
(* interpreter's own isinstance checks read __class__, which is exempt and  *)
(* covered by the canaries instead); no Leak.                               *)
(*                                                                         *)
(* L2: the evaluator's two guards as actions of an abstract stack machine - *)
(* name resolution (locals, then the whitelist, else KeyError) and member   *)
(* access (refused when the member name starts with "_").  TLC checks that  *)
(* the machine with these guards never performs a private read DIRECTLY;    *)
(* the model also shows what the guards do NOT cover: a call of a reachable *)
(* callable is an uncontrolled step (CallOpaque) that may read anything -   *)
(* which is exactly the format-string route of finding F10.                 *)
(***************************************************************************)
EXTENDS Integers, Sequences, FiniteSets, TLC
Underscore == 95
ClassAttr == <<95, 95, 99, 108, 97, 115, 115, 95, 95>>      \* "__class__"
IsPrivate(name) == Len(name) > 0 /\ name[1] = Underscore
VARIABLES privateReads, badResolves, leaks, ended
evars == <<privateReads, badResolves, leaks, ended>>
Init == privateReads = 0 /\ badResolves = 0 /\ leaks = 0 /\ ended = FALSE
Clauses(e) == <<
  <<"private-attribute-read", (e.e = "attr") => (~IsPrivate(e.name) \/ e.name = ClassAttr)>>,
  <<"name-resolved-outside-variables-and-whitelist", (e.e = "resolve" /\ e.ok) => (e.inLocals \/ e.inWhitelist)>>,
  <<"private-state-leaked-into-the-result", e.e # "leak">> >>
FirstFail(cs) == LET bad == {i \in DOMAIN cs : ~cs[i][2]}
                 IN IF bad = {} THEN "" ELSE cs[CHOOSE i \in bad : \A m \in bad : i <= m][1]
Observe(e) ==
  /\ ~ended
  /\ privateReads' = privateReads + (IF e.e = "attr" /\ IsPrivate(e.name) /\ e.name # ClassAttr THEN 1 ELSE 0)
  /\ badResolves' = badResolves + (IF e.e = "resolve" /\ e.ok /\ ~(e.inLocals \/ e.inWhitelist) THEN 1 ELSE 0)
  /\ leaks' = leaks + (IF e.e = "leak" THEN 1 ELSE 0)
  /\ ended' = (e.e = "end")
Safe == privateReads = 0 /\ badResolves = 0 /\ leaks = 0

\* ---- L2: the guards -------------------------------------------------------------------------------
CONSTANTS Names,       \* identifiers a program may mention (model values as code-point sequences)
          Locals, Whitelist, Members
GuardedResolve(n) == (n \in Locals \/ n \in Whitelist) /\ Observe([e |-> "resolve", ok |-> TRUE, inLocals |-> n \in Locals, inWhitelist |-> n \in Whitelist])
FailedResolve(n) == ~(n \in Locals \/ n \in Whitelist) /\ Observe([e |-> "resolve", ok |-> FALSE, inLocals |-> FALSE, inWhitelist |-> FALSE])
GuardedMember(m) == ~IsPrivate(m) /\ Observe([e |-> "attr", name |-> m])
RefusedMember(m) == IsPrivate(m) /\ UNCHANGED evars
Next == \/ \E n \in Names : GuardedResolve(n) \/ FailedResolve(n)
        \/ \E m \in Members : GuardedMember(m) \/ RefusedMember(m)
Spec == Init /\ [][Next]_evars
=============================================================================
