------------------------------ MODULE Dispatch ------------------------------
(***************************************************************************)
(* L2 (mechanism) model of the formatter resolution protocol,               *)
(* graphtage.formatter.get_formatter / _get_formatter (an anchor of C12 and *)
(* C13: every node and edit class of every input type must find a print    *)
(* function in whatever output formatter was selected).                     *)
(*                                                                         *)
(* A formatter CLASS c has a set has[c] of names N for which                *)
(* hasattr(instance, "print_N") holds and a sequence subtypes[c] of         *)
(* sub-formatter classes (sub_format_types; only earlier-defined classes).  *)
(* An INSTANCE is a path <<root class, k1, k2, ...>> into the unfolding of  *)
(* sub_format_types performed by Formatter.__new__; its parent is the path  *)
(* without its last element.  `reg` is the global FORMATTERS list (default  *)
(* instances of the non-partial classes, in definition order), `mro` the    *)
(* class names of type(item).__mro__, `base` the instance the request is    *)
(* made from (<<>> = none).                                                 *)
(*                                                                         *)
(* The operators below transcribe the code statement by statement,          *)
(* including the `tested` set of formatter classes that is shared by and    *)
(* mutated through all recursive calls.  TLC checks on every universe within *)
(* the constants that the protocol is Sound (the function returned exists   *)
(* and is for a class of the MRO) and Total (None is returned only when no  *)
(* formatter reachable from the base's tree or the registry could print any *)
(* class of the MRO).  Behaviour = one universe; no transitions.            *)
(***************************************************************************)
EXTENDS Integers, Sequences, FiniteSets, TLC
CONSTANTS K,          \* number of formatter classes
          Names,      \* sequence of class names, most specific first (the longest MRO)
          MaxSubs,    \* maximal length of sub_format_types
          MaxDepth    \* maximal length of the path of `base`
VARIABLES has, subtypes, reg, mro, base
vars == <<has, subtypes, reg, mro, base>>
None == <<>>
NameSet == {Names[i] : i \in 1..Len(Names)}
RECURSIVE ClsOf(_)
ClsOf(p) == IF Len(p) = 1 THEN p[1] ELSE subtypes[ClsOf(SubSeq(p, 1, Len(p) - 1))][p[Len(p)]]
SubsOf(p) == [k \in 1..Len(subtypes[ClsOf(p)]) |-> Append(p, k)]
Parent(p) == SubSeq(p, 1, Len(p) - 1)
Miss(gc) == [hit |-> None, gc |-> gc]

\* for sub_formatter in base_formatter.sub_formatters: ... (for one MRO class c)
RECURSIVE ScanSubs(_, _, _, _)
ScanSubs(p, c, k, gc) ==
  IF k > Len(SubsOf(p)) THEN Miss(gc)
  ELSE LET s == SubsOf(p)[k] IN
       IF mro[c] \in has[ClsOf(s)] THEN [hit |-> <<ClsOf(s), mro[c]>>, gc |-> gc]
       ELSE ScanSubs(p, c, k + 1, gc \o SubsOf(s))          \* grandchildren.extend(sub_formatter.sub_formatters)
\* for c in node_type.mro(): ...
RECURSIVE ScanMro(_, _, _)
ScanMro(p, c, gc) ==
  IF c > Len(mro) THEN Miss(gc)
  ELSE IF mro[c] \in has[ClsOf(p)] THEN [hit |-> <<ClsOf(p), mro[c]>>, gc |-> gc]
  ELSE LET r == ScanSubs(p, c, 1, gc) IN IF r.hit # None THEN r ELSE ScanMro(p, c + 1, r.gc)

\* _get_formatter(node_type, p, tested) -> [hit, tested]
RECURSIVE Get(_, _), GetEach(_, _, _)
Get(p, tested) ==
  LET r1 == IF ClsOf(p) \in tested THEN [hit |-> None, tested |-> tested]
            ELSE LET sc == ScanMro(p, 1, <<>>) IN
                 IF sc.hit # None THEN [hit |-> sc.hit, tested |-> tested]
                 ELSE GetEach(sc.gc, 1, tested \cup {ClsOf(p)} \cup {ClsOf(SubsOf(p)[k]) : k \in 1..Len(SubsOf(p))})
  IN IF r1.hit # None THEN r1
     ELSE IF Len(p) > 1 THEN Get(Parent(p), r1.tested)
     ELSE r1
GetEach(gc, k, tested) ==
  IF k > Len(gc) THEN [hit |-> None, tested |-> tested]
  ELSE LET r == Get(gc[k], tested) IN IF r.hit # None THEN r ELSE GetEach(gc, k + 1, r.tested)

\* get_formatter(node_type, base)
RECURSIVE Registry(_, _)
Registry(k, tested) ==
  IF k > Len(reg) THEN None
  ELSE IF reg[k] \in tested THEN Registry(k + 1, tested)
  ELSE LET r == Get(<<reg[k]>>, tested) IN IF r.hit # None THEN r.hit ELSE Registry(k + 1, r.tested)
Resolve == LET r0 == IF base # None THEN Get(base, {}) ELSE [hit |-> None, tested |-> {}]
           IN IF r0.hit # None THEN r0.hit ELSE Registry(1, r0.tested)

\* ---- the universes -------------------------------------------------------
SeqsUpTo(S, n) == UNION {[1..m -> S] : m \in 0..n}
RECURSIVE PathsFrom(_, _)
PathsFrom(p, d) == {p} \cup (IF d = 0 THEN {} ELSE UNION {PathsFrom(Append(p, k), d - 1) : k \in 1..Len(subtypes[ClsOf(p)])})
IncSeqs == {s \in SeqsUpTo(1..K, K) : \A i \in 1..Len(s) - 1 : s[i] < s[i + 1]}     \* the registry: definition order
Init == /\ has \in [1..K -> SUBSET NameSet]
        /\ subtypes \in {f \in [1..K -> SeqsUpTo(1..K, MaxSubs)] : \A c \in 1..K : \A i \in 1..Len(f[c]) : f[c][i] < c}
        /\ reg \in IncSeqs
        /\ mro \in {SubSeq(Names, i, Len(Names)) : i \in 1..Len(Names)}
        /\ base \in {None} \cup UNION {PathsFrom(<<c>>, MaxDepth - 1) : c \in 1..K}
Next == UNCHANGED vars
Spec == Init /\ [][Next]_vars

\* ---- contract -------------------------------------------------------------
RECURSIVE Reach(_)
Reach(c) == {c} \cup UNION {Reach(subtypes[c][i]) : i \in 1..Len(subtypes[c])}
Universe == (IF base = None THEN {} ELSE Reach(base[1])) \cup UNION {Reach(reg[k]) : k \in 1..Len(reg)}
MroSet == {mro[i] : i \in 1..Len(mro)}
Sound == Resolve # None => Resolve[2] \in MroSet /\ Resolve[2] \in has[Resolve[1]] /\ Resolve[1] \in Universe
Total == Resolve = None => \A c \in Universe : has[c] \cap MroSet = {}
\* a formatter that can itself print the most specific class is never overridden
OwnFirst == base # None /\ mro[1] \in has[ClsOf(base)] => Resolve = <<ClsOf(base), mro[1]>>
=============================================================================
