---------------------------- MODULE BuilderTrace ----------------------------
(* Trace validation: one behaviour per real conversion of a materialised graph. *)
EXTENDS Builder, Json, IOUtils
Traces == JsonDeserialize(IOEnv.TRACE_FILE)
VARIABLES tid, err
tvars == <<G, root, opts, work, outcome, value, tid, err>>
SetOf(s) == {s[k] : k \in 1..Len(s)}
\* recorded path sets arrive as arrays of [path array, leaf]
PS(rec) == {<<p[1], p[2]>> : p \in SetOf(rec)}
Clauses(t) ==
  LET e == Expected(G, root, opts) IN <<
  <<"conversion-did-not-terminate", t.outcome # "hang">>,
  <<"internal-error-instead-of-a-tree-or-cycle-error", t.outcome # "other-error" \/ e.outcome = "unspecified">>,
  <<"shared-object-mistaken-for-a-cycle", (t.outcome = "cycle-error") => Cyclic(G, root)>>,
  <<"cyclic-structure-not-reported", (e.outcome = "cycle-error" /\ t.strict) => t.outcome = "cycle-error">>,
  <<"value-differs-from-the-original", (e.outcome = "value" /\ t.outcome = "value") => PS(t.paths) = e.value>>,
  <<"no-tree-for-an-acyclic-structure", (e.outcome = "value" /\ ~Cyclic(G, root)) => t.outcome = "value">>,
  <<"deep-copy-raised", (t.outcome = "value") => t.copied>>,
  <<"deep-copy-is-not-equal", (e.outcome = "value" /\ t.outcome = "value" /\ t.copied) => PS(t.copyPaths) = e.value>> >>
FirstFail(cs) == LET bad == {i \in DOMAIN cs : ~cs[i][2]}
                 IN IF bad = {} THEN "" ELSE cs[CHOOSE i \in bad : \A m \in bad : i <= m][1]
TraceInit == /\ tid \in 1..Len(Traces) /\ err = "" /\ G = Traces[tid].g /\ root = 1
             /\ opts = [check |-> Traces[tid].check, ignore |-> Traces[tid].ignore]
             /\ work = << >> /\ outcome = "running" /\ value = {}
TraceNext == /\ outcome = "running" /\ outcome' = "judged"
             /\ err' = FirstFail(Clauses(Traces[tid]))
             /\ UNCHANGED <<G, root, opts, work, value, tid>>
TraceSpec == TraceInit /\ [][TraceNext]_tvars
Done == outcome = "judged"
Report == Done => PrintT(ToJson([tid |-> tid, v |-> IF err = "" THEN "ACCEPT" ELSE "REJECT", step |-> 1, clause |-> err]))
MCScalars == <<"int:1", "str:a", "null:", "str:">>
MCKeys == <<"k:str:a", "k:str:b", "k:str:c">>
=============================================================================
