------------------------------- MODULE PQ -------------------------------
(* L1 contract of a priority queue: what any implementation must do,
   phrased only in observable terms.                                   *)
EXTENDS Integers, Sequences, FiniteSets, TLC
CONSTANTS Keys,      \* set of integer keys
          MaxLive,   \* bound on simultaneously live items (model checking only)
          MaxOps,    \* bound on history length (model checking only)
          MaxHeap    \* FALSE = min-queue, TRUE = max-queue (order reversed)
VARIABLES live,      \* function: id -> key, the live items
          nextId,    \* ids are handed out in push order
          nops,
          obs        \* last observation
vars == <<live, nextId, nops, obs>>
Ids == DOMAIN live
Rank(k) == IF MaxHeap THEN 0 - k ELSE k
IsMin(i) == i \in Ids /\ \A j \in Ids : Rank(live[i]) <= Rank(live[j])
Restrict(f, S) == [x \in S |-> f[x]]
Init == live = << >> /\ nextId = 1 /\ nops = 0 /\ obs = [op |-> "init", len |-> 0]
Push(k) == /\ Cardinality(Ids) < MaxLive
           /\ live' = [i \in Ids \cup {nextId} |-> IF i = nextId THEN k ELSE live[i]]
           /\ nextId' = nextId + 1
           /\ obs' = [op |-> "push", id |-> nextId, key |-> k, len |-> Cardinality(Ids) + 1]
Pop(i) == /\ IsMin(i)
          /\ live' = Restrict(live, Ids \ {i})
          /\ UNCHANGED nextId
          /\ obs' = [op |-> "pop", id |-> i, key |-> live[i], len |-> Cardinality(Ids) - 1]
Peek(i) == /\ IsMin(i)
           /\ UNCHANGED <<live, nextId>>
           /\ obs' = [op |-> "peek", id |-> i, key |-> live[i], len |-> Cardinality(Ids)]
DecreaseKey(i, k) == /\ i \in Ids /\ Rank(k) <= Rank(live[i])
                     /\ live' = [live EXCEPT ![i] = k]
                     /\ UNCHANGED nextId
                     /\ obs' = [op |-> "dec", id |-> i, key |-> k, len |-> Cardinality(Ids)]
Remove(i) == /\ i \in Ids
             /\ live' = Restrict(live, Ids \ {i})
             /\ UNCHANGED nextId
             /\ obs' = [op |-> "rem", id |-> i, key |-> live[i], len |-> Cardinality(Ids) - 1]
\* an attempt to INCREASE a key through decrease_key is refused (ValueError) and must leave the queue as it was
RefusedDecrease(i, k) == /\ i \in Ids /\ Rank(k) > Rank(live[i])
                         /\ UNCHANGED <<live, nextId>>
                         /\ obs' = [op |-> "baddec", id |-> i, key |-> k, len |-> Cardinality(Ids)]
Clear == /\ live' = << >>
         /\ UNCHANGED nextId
         /\ obs' = [op |-> "clear", len |-> 0]
Next == /\ nops < MaxOps /\ nops' = nops + 1
        /\ \/ \E k \in Keys : Push(k)
           \/ Clear
           \/ \E i \in Ids : Pop(i) \/ Peek(i) \/ Remove(i)
           \/ \E i \in Ids, k \in Keys : DecreaseKey(i, k) \/ RefusedDecrease(i, k)
Spec == Init /\ [][Next]_vars
LenOK == obs.len = Cardinality(Ids)
MinOK == obs.op \in {"pop", "peek"} => \A j \in Ids : Rank(obs.key) <= Rank(live[j])
=============================================================================
