------------------------------- MODULE Choose -------------------------------
(***************************************************************************)
(* L2 (mechanism) model of EDIT SELECTION: which edit TreeNode.edits(node)  *)
(* returns for a pair of nodes - the isinstance ladders of LeafNode,        *)
(* StringNode, NullNode, ListNode, MultiSetNode, DictNode, FixedKeyDictNode *)
(* and KeyValuePairNode in graphtage/graphtage.py - as a decision table     *)
(* over node DESCRIPTORS:                                                   *)
(*   kind    "int" "float" "bool" "str" "null"  (leaves)                    *)
(*           "list" "mset" "dict" "fdict" "kvp" (containers; dict = DictNode *)
(*           which is also a MultiSetNode, fdict = FixedKeyDictNode)        *)
(*   canon   canonical text of the node's content as data (lists            *)
(*           positional, multisets / mappings as bags of their members);    *)
(*           two nodes are equal as data iff kind class and canon agree     *)
(*   len     number of children                                             *)
(*   single  string of exactly one character                                *)
(*   leaves  all children are leaves;  pos  all children have size > 0      *)
(*   ale / alesl   the list's allow_list_edits / ..._when_same_length       *)
(*   keye    the pair's allow_key_edits;  key  canonical text of its key    *)
(* Chosen(a, b) = <<edit class, constant cost or -1, penalty or -1>>.       *)
(*                                                                         *)
(* TLC checks on the table, for all pairs of descriptors of a small domain: *)
(*   Total           every pair of nodes gets an edit (no gap in a ladder);  *)
(*   EqualIsFree     nodes that are equal as data get a Match of cost 0;    *)
(*   UnequalIsNotFree  a constant-cost choice for unequal nodes costs > 0   *)
(*                   (C02 at the level of one node);                        *)
(*   ReplaceOnlyAcrossKinds  Replace is chosen only for nodes of different  *)
(*                   kind classes (or a key/value pair whose key may not    *)
(*                   change);                                               *)
(*   ListOptionsHonoured  with list edits off (or off for equal lengths)    *)
(*                   EditDistance is never chosen where it may not (C10).   *)
(***************************************************************************)
EXTENDS Integers, Sequences, FiniteSets, TLC
LeafKinds == {"int", "float", "bool", "str", "null"}
MultiSetKinds == {"mset", "dict"}
MappingKinds == {"dict", "fdict"}
ContainerKinds == {"list", "mset", "dict", "fdict", "kvp"}
\* equal as data: leaves by kind and text; lists with lists; a multiset / mapping with any node holding the same bag
Class(k) == IF k \in LeafKinds THEN k ELSE IF k = "list" THEN "list" ELSE IF k = "kvp" THEN "kvp" ELSE "bag"
EqualAsData(a, b) == Class(a.kind) = Class(b.kind) /\ a.canon = b.canon

Match0 == <<"Match", 0, -1>>
Replace == <<"Replace", -1, -1>>
\* LeafNode.edits: a Match whose cost is the text distance, at least 1 for unequal leaves; Replace for containers
LeafChoice(a, b) == IF b.kind \in LeafKinds THEN <<"Match", IF EqualAsData(a, b) THEN 0 ELSE -2, -1>>     \* -2: positive
                    ELSE Replace
Chosen(a, b) ==
  CASE a.kind = "null" -> IF b.kind = "null" THEN Match0 ELSE Replace
    [] a.kind = "str" -> IF b.kind = "str"
                         THEN IF a.canon = b.canon THEN Match0
                              ELSE IF a.single /\ b.single THEN <<"Match", 1, -1>> ELSE <<"StringEdit", -1, -1>>
                         ELSE LeafChoice(a, b)
    [] a.kind \in {"int", "float", "bool"} -> LeafChoice(a, b)
    [] a.kind = "list" ->
         IF b.kind # "list" THEN Replace
         ELSE IF a.canon = b.canon THEN Match0
         ELSE IF ~a.ale \/ (a.len = b.len /\ (~a.alesl \/ a.len = 1)) THEN <<"FixedLengthSequenceEdit", -1, -1>>
         ELSE <<"EditDistance", -1, IF a.leaves /\ b.leaves /\ a.pos /\ b.pos THEN 0 ELSE 1>>
    [] a.kind \in MultiSetKinds ->
         IF b.kind \notin MultiSetKinds THEN Replace
         ELSE IF a.canon = b.canon THEN Match0 ELSE <<"MultiSetEdit", -1, -1>>
    [] a.kind = "fdict" ->
         IF b.kind \notin MappingKinds THEN Replace
         ELSE IF a.canon = b.canon THEN Match0 ELSE <<"FixedKeyDictNodeEdit", -1, -1>>
    [] a.kind = "kvp" ->
         IF b.kind # "kvp" THEN Replace          \* a mapping compared with a plain multiset: its pairs meet other nodes (F31)
         ELSE IF a.keye \/ a.key = b.key THEN <<"KeyValuePairEdit", -1, -1>> ELSE Replace

\* ---- the table's own properties, over a small descriptor domain ----------------------------------------
CONSTANTS Canons
Descs == [kind : LeafKinds \cup ContainerKinds, canon : Canons, len : 0..2, single : BOOLEAN, leaves : BOOLEAN, pos : BOOLEAN,
          ale : BOOLEAN, alesl : BOOLEAN, keye : BOOLEAN, key : Canons]
\* descriptors that some node can have
C0 == CHOOSE c \in Canons : TRUE
Sane(d) == /\ d.kind \in LeafKinds => d.len = 0
           /\ d.kind = "kvp" => d.len = 2
           /\ d.single => d.kind = "str"
           /\ d.kind = "null" => d.canon = C0                       \* there is one null
           /\ d.kind # "list" => ~d.ale /\ ~d.alesl /\ ~d.leaves /\ ~d.pos     \* flags that only lists have
           /\ d.kind # "kvp" => ~d.keye /\ d.key = C0
DocNode(d) == d.kind # "kvp"
VARIABLES a, b
Init == a \in {d \in Descs : Sane(d)} /\ b \in {d \in Descs : Sane(d)}
Next == UNCHANGED <<a, b>>
Spec == Init /\ [][Next]_<<a, b>>
Total == Chosen(a, b)[1] \in {"Match", "Replace", "StringEdit", "FixedLengthSequenceEdit", "EditDistance", "MultiSetEdit",
                           "FixedKeyDictNodeEdit", "KeyValuePairEdit"}
MixedMappings == (a.kind \in MultiSetKinds /\ b.kind = "fdict") \/ (a.kind = "fdict" /\ b.kind = "mset")
EqualIsFree == DocNode(a) /\ DocNode(b) /\ EqualAsData(a, b) /\ ~MixedMappings => Chosen(a, b)[1] = "Match" /\ Chosen(a, b)[2] = 0
UnequalIsNotFree == ~EqualAsData(a, b) /\ Chosen(a, b)[1] = "Match" => Chosen(a, b)[2] # 0
ReplaceOnlyAcrossKinds == Chosen(a, b)[1] = "Replace" =>
                              \/ Class(a.kind) # Class(b.kind)
                              \/ (a.kind = "kvp" /\ ~a.keye /\ a.key # b.key)
                              \* named deviations (trees built with DIFFERENT options meet): a FixedKeyDictNode is a
                              \* mapping but not a multiset, so DictNode / MultiSetNode .edits(FixedKeyDictNode) replaces it
                              \* wholesale - even when the two hold the same data - while the opposite direction compares
                              \* them item by item
                              \/ (a.kind = "fdict" /\ b.kind = "mset")
                              \/ (a.kind \in MultiSetKinds /\ b.kind = "fdict")
ListOptionsHonoured == Chosen(a, b)[1] = "EditDistance" => a.ale /\ (a.len # b.len \/ (a.alesl /\ a.len # 1))
=============================================================================
