---------------------------- MODULE TermHtmlGen ----------------------------
(* Behaviour generator for TermHtml.tla: operations and the tokens written; props/_term.py replays each behaviour on a real
   HTMLPrinter in colour mode, tokenises what it wrote after the page header and compares (MODEL-DRIFT). *)
EXTENDS TermHtml, Json
VARIABLE hist
GenInit == Init /\ hist = << >>
OpRec(op) == IF op[1] = "enter" THEN [op |-> "enter", chain |-> op[2], ch |-> ""]
             ELSE IF op[1] = "write" THEN [op |-> "write", chain |-> << >>, ch |-> op[2]]
             ELSE [op |-> op[1], chain |-> << >>, ch |-> ""]
GenNext == Next /\ hist' = Append(hist, OpRec(lastop'))
GenSpec == GenInit /\ [][GenNext]_<<vars, hist>>
Tok(t) == IF t[1] = "open" THEN [k |-> "open", a |-> t[2], v |-> t[3], c |-> ""]
          ELSE IF t[1] = "ch" THEN [k |-> "ch", a |-> 0, v |-> 0, c |-> t[2]]
          ELSE [k |-> t[1], a |-> 0, v |-> 0, c |-> ""]
Emit == (nops = MaxOps) => PrintT(ToJson([hist |-> hist, out |-> [i \in 1..Len(out) |-> Tok(out[i])], lost |-> lostOpen]))
=============================================================================
