----------------------------- MODULE StatusGen -----------------------------
(* Behaviour generator for Status.tla: a history variable records every operation with the text on the stream and the
   pending text after it; TLC simulates behaviours; props/_status.py replays each on a real StatusWriter over a stream that
   passes for the process's standard output and compares step by step (MODEL-DRIFT). *)
EXTENDS Status, Json
VARIABLE hist
GenInit == Init /\ hist = << >>
GenNext == /\ Next
           /\ hist' = Append(hist, [op |-> lastop'[1],
                                    arg |-> IF lastop'[1] = "write" THEN lastop'[2]
                                            ELSE IF lastop'[1] = "flush" THEN <<IF lastop'[2] THEN "T" ELSE "F">> ELSE << >>,
                                    out |-> out', pending |-> Join(buf')])
GenSpec == GenInit /\ [][GenNext]_<<vars, hist>>
Emit == (nops = MaxOps \/ closed) => PrintT(ToJson([hist |-> hist]))
=============================================================================
