---------------------------- MODULE DistinctTrace ----------------------------
(***************************************************************************)
(* Trace validation for the L2 model Distinct.tla.  A recording is one run  *)
(* of the real graphtage.bounds.make_distinct on scripted items: `chain`    *)
(* (the environment), `calls` (the item ids in the order their              *)
(* tighten_bounds() was called) and `final` (the interval each item ends    *)
(* on).  The choice of `biggest` / `second_biggest` is not logged; TLC      *)
(* searches the model's choices.  A recording is explained when some        *)
(* behaviour of Distinct consumes all calls (two per Squeeze: biggest, then *)
(* second) and terminates with the recorded final intervals; one line       *)
(* {"tid", "v": "ACCEPT"} is printed for each accepting state reached.      *)
(* A recording that is not explained means the model and the code have      *)
(* drifted apart (MODEL-DRIFT; the C17 verdict comes from Selection.tla).   *)
(***************************************************************************)
EXTENDS Distinct, Json, IOUtils
Traces == JsonDeserialize(IOEnv.TRACE_FILE)
VARIABLES tid, l
tvars == <<vars, tid, l>>
Calls == Traces[tid].calls
TraceInit == /\ tid \in 1..Len(Traces) /\ l = 1
             /\ chain = Traces[tid].chain
             /\ ptr = [i \in 1..Len(chain) |-> 1]
             /\ tree = {[i |-> i, b |-> chain[i][1][1], e |-> chain[i][1][2] + 1] : i \in 1..Len(chain)}
             /\ pc = "outer" /\ big = 0 /\ sec = 0
TPick == PickBiggest /\ UNCHANGED <<tid, l>>
TSqueeze == /\ Squeeze
            /\ IF pc' = "inner"        \* the tightening branch: two logged calls
               THEN /\ l + 1 <= Len(Calls) /\ Calls[l] = big /\ Calls[l + 1] = sec /\ l' = l + 2
               ELSE l' = l
            /\ UNCHANGED tid
TraceNext == TPick \/ TSqueeze
TraceSpec == TraceInit /\ [][TraceNext]_tvars
Accepting == /\ pc = "done" /\ l = Len(Calls) + 1
             /\ \A i \in 1..Len(chain) : chain[i][ptr[i]] = Traces[tid].final[i]
Report == Accepting => PrintT(ToJson([tid |-> tid, v |-> "ACCEPT"]))
=============================================================================
