------------------------------ MODULE Collection ------------------------------
(***************************************************************************)
(* L2 (mechanism) model of graphtage.edits.EditCollection (EditSequence),   *)
(* the compound edit that lazily pulls its sub-edits from an iterator and   *)
(* whose cost is the sum of theirs.  It is the edit of fixed-length lists,  *)
(* of dicts with fixed keys and of XML elements, so every C01/C03/C04/C05   *)
(* execution on such documents runs through it.                             *)
(* One operator per method of the code (ExpandOf, BoundsOf, TightenOf,      *)
(* EditsOf) over a state record; every PUBLIC operation is one atomic       *)
(* transition and a client may call them in any order.                      *)
(*                                                                         *)
(* Environment: the iterator yields NSub non-compound sub-edits; sub-edit e *)
(* follows a chain of strictly nested intervals within 0..V (chosen in      *)
(* Init); U = cost_upper_bound of the collection, at least the sum of the   *)
(* sub-edits' initial upper bounds (the condition under which the           *)
(* `unexpanded' formula  U - sum(initial.upper - current.upper)  is sound). *)
(* The sub-edits' is_complete() is NOT consulted by the mechanism (a       *)
(* sub-edit such as MultiSetEdit is "complete" long before its cost is      *)
(* definitive): the binding replays every behaviour both over sub-edits     *)
(* with the default answer and over sub-edits that claim to be complete     *)
(* from the start.                                                          *)
(* Not modelled: invalid edits (the lower bound never exceeds U here) and   *)
(* explode_edits (the sub-edits are not compound).                          *)
(*                                                                         *)
(* TLC checks for every environment and every order of <= MaxOps public     *)
(* operations: NeverWidens, FinalInside, ProgressShrinks (a True answer of  *)
(* tighten_bounds strictly shrinks the interval), QuiescentDefinitive (a    *)
(* False answer leaves a single-valued interval equal to the final cost),   *)
(* CacheSound (the memoised cost equals the recomputed one).                *)
(***************************************************************************)
EXTENDS Integers, Sequences, FiniteSets, TLC
CONSTANTS NSub, V, Slack, MaxOps
Subs == 1..NSub
RECURSIVE Chains(_, _)
Chains(l, h) == IF l = h THEN { << <<l, h>> >> }
                ELSE { << <<l, h>> >> \o c : c \in UNION { Chains(l2, h2) :
                         <<l2, h2>> \in { p \in (l..h) \X (l..h) : p[1] <= p[2] /\ p # <<l, h>> } } }
AllChains == UNION { Chains(l, h) : <<l, h>> \in { p \in (0..V) \X (0..V) : p[1] <= p[2] } }
VARIABLES chain, U,
          st,            \* [k, ptr, done, cache]  cache = <<>> (None) or <<lo, hi>>
          nops, lastop, lo, hi, seen
vars == <<chain, U, st, nops, lastop, lo, hi, seen>>
RECURSIVE SumF(_, _)
SumF(f, k) == IF k = 0 THEN 0 ELSE f[k] + SumF(f, k - 1)
Lo(s, e) == chain[e][s.ptr[e]][1]
Hi(s, e) == chain[e][s.ptr[e]][2]
InitHi(e) == chain[e][1][2]
Min(a, b) == IF a < b THEN a ELSE b

\* _expand_edits(): <<state, yielded an edit?>>
ExpandOf(s) == IF s.done THEN <<s, FALSE>>
               ELSE IF s.k < NSub THEN <<[s EXCEPT !.k = @ + 1, !.cache = <<>>], TRUE>>
               ELSE <<[s EXCEPT !.done = TRUE], FALSE>>
\* bounds(): <<state, lo, hi>>
BoundsOf(s) ==
  IF s.cache # <<>> THEN <<s, s.cache[1], s.cache[2]>>
  ELSE LET l == SumF([e \in Subs |-> Lo(s, e)], s.k)
           h0 == IF s.done THEN SumF([e \in Subs |-> Hi(s, e)], s.k)
                 ELSE U - SumF([e \in Subs |-> InitHi(e) - Hi(s, e)], s.k)
           h == Min(U, h0)
       IN <<IF s.done /\ l = h THEN [s EXCEPT !.cache = <<l, h>>] ELSE s, l, h>>
Tightened(s, sl, sh) == LET b == BoundsOf(s) IN b[2] > sl \/ b[3] < sh
\* for child in self._sub_edits: ...  from child e on; <<state, returned True?, any child tightened?>>
RECURSIVE Children(_, _, _, _, _)
Children(s, e, sl, sh, any) ==
  IF e > s.k THEN <<s, FALSE, any>>
  ELSE IF s.ptr[e] < Len(chain[e])
       THEN LET s1 == [s EXCEPT !.ptr[e] = @ + 1, !.cache = <<>>]
                b == BoundsOf(s1)
            IN IF b[2] > sl \/ b[3] < sh THEN <<b[1], TRUE, TRUE>> ELSE Children(b[1], e + 1, sl, sh, TRUE)
       ELSE Children(s, e + 1, sl, sh, any)
\* tighten_bounds(): <<state, answer>>
RECURSIVE Loop(_, _, _)
Loop(s, sl, sh) ==
  LET x == ExpandOf(s) IN
  IF x[2] /\ Tightened(x[1], sl, sh) THEN <<BoundsOf(x[1])[1], TRUE>>
  ELSE LET s0 == IF x[2] THEN BoundsOf(x[1])[1] ELSE x[1]     \* _is_tightened calls bounds() (may memoise)
           c == Children(s0, 1, sl, sh, FALSE)
       IN IF c[2] THEN <<c[1], TRUE>>
          ELSE IF ~c[3] /\ c[1].done THEN LET b == BoundsOf(c[1]) IN <<b[1], b[2] > sl \/ b[3] < sh>>
          ELSE Loop(c[1], sl, sh)
TightenOf(s) == LET b == BoundsOf(s) IN Loop(b[1], b[2], b[3])
\* edits(): exhausts the iterator
EditsOf(s) == IF s.done THEN s
              ELSE [s EXCEPT !.k = NSub, !.done = TRUE, !.cache = IF s.k < NSub THEN <<>> ELSE @]

Init0 == [k |-> 0, ptr |-> [e \in Subs |-> 1], done |-> FALSE, cache |-> <<>>]
Init == /\ chain \in [Subs -> AllChains]
        /\ U \in {SumF([e \in Subs |-> chain[e][1][2]], NSub) + d : d \in 0..Slack}
        /\ st = Init0 /\ nops = 0 /\ lastop = <<"init">> /\ lo = 0 /\ hi = 0 /\ seen = FALSE
OpTighten == LET t == TightenOf(st) IN st' = t[1] /\ lastop' = <<"tighten", t[2]>> /\ UNCHANGED <<lo, hi, seen>>
OpBounds == LET b == BoundsOf(st) IN st' = b[1] /\ lastop' = <<"bounds", b[2], b[3]>> /\ lo' = b[2] /\ hi' = b[3] /\ seen' = TRUE
OpEdits == st' = EditsOf(st) /\ lastop' = <<"edits">> /\ UNCHANGED <<lo, hi, seen>>
Next == /\ nops < MaxOps /\ nops' = nops + 1 /\ UNCHANGED <<chain, U>>
        /\ (OpTighten \/ OpBounds \/ OpEdits)
Spec == Init /\ [][Next]_vars

FinalCost == SumF([e \in Subs |-> chain[e][Len(chain[e])][1]], NSub)
NeverWidens == [][seen /\ seen' => lo' >= lo /\ hi' <= hi]_vars
FinalInside == seen => lo <= FinalCost /\ FinalCost <= hi
\* tighten answered True => the interval is strictly inside the one before the call
ProgressShrinks == [][lastop'[1] = "tighten" /\ lastop'[2] =>
                        LET b0 == BoundsOf(st) b1 == BoundsOf(st') IN
                          b1[2] >= b0[2] /\ b1[3] <= b0[3] /\ (b1[2] > b0[2] \/ b1[3] < b0[3])]_vars
QuiescentDefinitive == (lastop[1] = "tighten" /\ ~lastop[2]) =>
                          LET b == BoundsOf(st) IN b[2] = FinalCost /\ b[3] = FinalCost
CacheSound == st.cache # <<>> => LET b == BoundsOf([st EXCEPT !.cache = <<>>]) IN <<b[2], b[3]>> = st.cache
=============================================================================
