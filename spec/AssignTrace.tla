----------------------------- MODULE AssignTrace -----------------------------
(* Trace validation: one behaviour per recorded call of the real routine. *)
EXTENDS Assign, Json, IOUtils
Traces == JsonDeserialize(IOEnv.TRACE_FILE)
VARIABLES tid, err
tvars == <<table, result, outcome, tid, err>>
TraceInit == /\ tid \in 1..Len(Traces) /\ table = Traces[tid].table /\ result = << >> /\ outcome = "pending" /\ err = ""
TraceNext == /\ outcome = "pending"
             /\ result' = Traces[tid].result
             /\ outcome' = IF Traces[tid].raised THEN "raised" ELSE "returned"
             /\ err' = FirstFail(Clauses(Traces[tid].result, Traces[tid].raised))
             /\ UNCHANGED <<table, tid>>
TraceSpec == TraceInit /\ [][TraceNext]_tvars
Done == outcome # "pending"
Report == Done => PrintT(ToJson([tid |-> tid, v |-> IF err = "" THEN "ACCEPT" ELSE "REJECT", step |-> 1, clause |-> err]))
=============================================================================
