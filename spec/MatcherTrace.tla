---------------------------- MODULE MatcherTrace ----------------------------
(***************************************************************************)
(* Trace validation for the L2 model Matcher.tla.  A recording is one real  *)
(* WeightedBipartiteMatcher over scripted edges: `chain` (environment),     *)
(* `n`, `m`, and per public operation its name, what it returned, the       *)
(* position of every edge on its chain afterwards, and the matching (if     *)
(* computed).  Internal steps (make_distinct's loop iterations, the         *)
(* wrapper's retries, the choice among optimal assignments) are not logged: *)
(* TLC searches them.  A recording is explained when some behaviour of the  *)
(* model performs the same operations with the same answers and the same    *)
(* state after each; one {"tid", "v": "ACCEPT"} line is printed per         *)
(* accepting state.  Unexplained recordings are MODEL-DRIFT.                *)
(***************************************************************************)
EXTENDS Matcher, Json, IOUtils
Traces == JsonDeserialize(IOEnv.TRACE_FILE)
VARIABLES tid, l
tvars == <<vars, tid, l>>
Ev == Traces[tid].ev
TraceInit == /\ tid \in {t \in 1..Len(Traces) : Traces[t].n = N /\ Traces[t].m = M} /\ l = 1
             /\ chain = Traces[tid].chain /\ ptr = [c \in Cells |-> 1]
             /\ tree = {} /\ dpc = "done" /\ big = 0 /\ sec = 0
             /\ flag = FALSE /\ match = {} /\ matched = FALSE /\ cache = <<>> /\ pc = "idle" /\ start = <<0, 0>>
             /\ nops = 0 /\ lastop = <<"init">> /\ lo = 0 /\ hi = 0 /\ seen = FALSE
B2N(b) == IF b THEN 1 ELSE 0
RetOf(op) == IF op[1] = "bounds" THEN <<op[2], op[3]>>
             ELSE IF op[1] \in {"tighten", "is_complete"} THEN <<B2N(op[2])>>
             ELSE << >>
\* the state after the operation agrees with the recording
Agrees(e) == /\ lastop'[1] = e.op /\ RetOf(lastop') = e.ret
             /\ \A c \in Cells : ptr'[c] = e.ptr[c]
             /\ matched' = e.matched
             /\ (matched' => match' = {<<e.match[k][1], e.match[k][2]>> : k \in 1..Len(e.match)})
Advance == IF pc' = "idle" THEN Agrees(Ev[l]) /\ l' = l + 1 ELSE l' = l
TOp == /\ pc = "idle" /\ l <= Len(Ev)
       /\ \/ Ev[l].op = "bounds" /\ OpBounds
          \/ Ev[l].op = "is_complete" /\ OpComplete
          \/ Ev[l].op = "tighten" /\ OpTighten
          \/ Ev[l].op = "matching" /\ OpMatching
       /\ Advance /\ UNCHANGED tid
TInternal == Internal /\ l <= Len(Ev) /\ Advance /\ UNCHANGED tid
TraceNext == TOp \/ TInternal
TraceSpec == TraceInit /\ [][TraceNext]_tvars
Accepting == pc = "idle" /\ l = Len(Ev) + 1
Report == Accepting => PrintT(ToJson([tid |-> tid, v |-> "ACCEPT"]))
=============================================================================
