--------------------------- MODULE MC_BoundedApa ---------------------------
(* Apalache wrapper: unbounded-integer inductive check of the Bounded.tla contract.
   Vals = Int (every integer), Inf a large symbolic bound. *)
EXTENDS Integers
VARIABLES
  \* @type: Int;
  lo,
  \* @type: Int;
  hi,
  \* @type: Bool;
  seen,
  \* @type: Int;
  trues,
  \* @type: Str;
  lastStep,
  \* @type: Int;
  budget,
  \* @type: Int;
  final,
  \* @type: Bool;
  dead
Inf == 1073741824
Vals == {v \in Int : v > -Inf /\ v < Inf}
INSTANCE Bounded
InRange(v) == v > -Inf /\ v < Inf
IndInv ==
  /\ InRange(final)
  /\ trues \in {0, 1}
  /\ lastStep \in {"none", "progress", "quiet"}
  /\ budget >= -1
  /\ (~seen => lo = -Inf /\ hi = Inf /\ budget = -1 /\ ~dead)
  /\ (seen => InRange(lo) /\ InRange(hi) /\ lo <= hi /\ budget >= 0)
  /\ SoundInv
  /\ VariantInv
  /\ (dead => seen /\ lo = hi /\ lo = final)
  /\ (lastStep = "quiet" => dead)
IndInit == /\ final \in Int /\ lo \in Int /\ hi \in Int /\ seen \in BOOLEAN /\ trues \in {0, 1}
           /\ lastStep \in {"none", "progress", "quiet"} /\ budget \in Int /\ dead \in BOOLEAN
           /\ IndInv
\* non-vacuity canaries: each must be VIOLATED within one step
CanaryExpose == ~(seen /\ lo = 3 /\ hi = 7 /\ budget = 4)
CanaryDead == ~(dead /\ lastStep = "quiet")
Safety == SoundInv /\ VariantInv /\ DeadIsFinal
=============================================================================
