----------------------------- MODULE Levenshtein -----------------------------
(***************************************************************************)
(* L2 (mechanism) model of graphtage.levenshtein.EditDistance, the online   *)
(* edit distance over two sequences whose pairwise costs are themselves     *)
(* Bounded objects.  One operator per method of the code:                   *)
(*   AddNode NextFringe BestMatch MakeDistinct TightenOf BoundsOf EditsOf   *)
(*   CleanupOf IsComplete                                                   *)
(* over a state record, so that the model can be held against the source    *)
(* method by method.  The library is sequential: each PUBLIC operation      *)
(* (tighten_bounds, bounds, is_complete, edits) is one atomic transition,   *)
(* and a client may call them IN ANY ORDER.                                 *)
(*                                                                         *)
(* Environment: the sequences are already stripped of their common prefix   *)
(* and suffix (N = |from|, M = |to|); removing from[j] costs RC[j],         *)
(* inserting to[i] costs IC[i]; the edit of the pair (to i, from j) - cell  *)
(* <<i, j>> - is a bounded object following a CHAIN of strictly nested      *)
(* intervals chosen in Init (every sound tightening schedule is a chain).   *)
(*                                                                         *)
(* TLC checks, for every environment within the constants and every order   *)
(* of public operations up to MaxOps:                                       *)
(*   NoError         no operation dereferences the freed matrix (finding F4 *)
(*                   was a 4-step counterexample of this invariant)         *)
(*   NeverWidens     exposed intervals only shrink (Bounded refinement)     *)
(*   FinalInside     the final cost lies in every exposed interval          *)
(*   ScriptLegal     the final script consumes every from/to element once,  *)
(*                   in order, and its costs sum to the reported cost       *)
(*   OrderIndependent  the final cost does not depend on the order of the   *)
(*                   operations (checked against FinalCost computed by      *)
(*                   driving a fresh copy canonically)                      *)
(* The behaviours TLC enumerates are replayed on the real class over        *)
(* scripted nodes; a projection mismatch is MODEL-DRIFT, never a verdict.   *)
(***************************************************************************)
EXTENDS Integers, Sequences, FiniteSets, TLC
CONSTANTS N, M,        \* lengths of the from / to sequences (columns / rows)
          RC, IC,      \* removal cost per from element, insertion cost per to element (sequences)
          V,           \* cell costs range over 0..V
          MaxOps
Rows == 0..M
Cols == 0..N
Cells == Rows \X Cols
Interior == (1..M) \X (1..N)
RECURSIVE Chains(_, _)
Chains(l, h) == IF l = h THEN { << <<l, h>> >> }
                ELSE { << <<l, h>> >> \o c : c \in UNION { Chains(l2, h2) :
                         <<l2, h2>> \in { p \in (l..h) \X (l..h) : p[1] <= p[2] /\ p # <<l, h>> } } }
CellChains == Chains(0, V)
RECURSIVE SumTo(_, _)
SumTo(s, k) == IF k = 0 THEN 0 ELSE s[k] + SumTo(s, k - 1)
UB == SumTo(RC, N) + SumTo(IC, M)
\* constant_cost: the cheapest |N - M| removals (insertions) are unavoidable
RECURSIVE SmallestSum(_, _)
SmallestSum(S, k) == IF k = 0 \/ S = {} THEN 0
                     ELSE LET m == CHOOSE x \in S : \A y \in S : x[1] <= y[1] IN m[1] + SmallestSum(S \ {m}, k - 1)
ConstCost == IF N > M THEN SmallestSum({<<RC[j], j>> : j \in 1..N}, N - M)
             ELSE IF M > N THEN SmallestSum({<<IC[i], i>> : i \in 1..M}, M - N) ELSE 0

VARIABLES chain,     \* the environment: cell -> chain
          st,        \* the EditDistance object
          nops, lastop,
          lo, hi, seen       \* last exposed interval
vars == <<chain, st, nops, lastop, lo, hi, seen>>

CLo(s, c) == chain[c][s.ptr[c]][1]
CHi(s, c) == chain[c][s.ptr[c]][2]
CDef(s, c) == CLo(s, c) = CHi(s, c)
CanStep(s, c) == s.ptr[c] < Len(chain[c])
CellStep(s, c) == IF CanStep(s, c) THEN [s EXCEPT !.ptr[c] = @ + 1] ELSE s
RECURSIVE CellFull(_, _)
CellFull(s, c) == IF CanStep(s, c) THEN CellFull(CellStep(s, c), c) ELSE s
\* Range.__lt__
RangeLt(l1, h1, l2, h2) == h1 < h2 \/ (h1 = h2 /\ l1 < l2)

Init0 == [ fr |-> -1, fc |-> 0, filled |-> {}, ptr |-> [c \in Interior |-> 1],
           cost |-> [c \in Cells |-> 0], plen |-> [c \in Cells |-> 0],
           live |-> TRUE, edits |-> FALSE, final |-> 0, script |-> << >>, last |-> {}, err |-> "" ]
Diag(fr, fc) == { <<fr - k, fc + k>> : k \in 0..(M + N) } \cap Cells
FringeOf(s) == IF s.fr < 0 THEN {} ELSE Diag(s.fr, s.fc)
Complete(s) == ~s.live \/ <<M, N>> \in s.filled
Degenerate == N = 0 /\ M = 0

\* _add_node
AddNode(s, c) ==
  IF c \in s.filled THEN s
  ELSE LET s1 == [s EXCEPT !.filled = @ \cup {c}] IN
       IF c = <<0, 0>> THEN s1
       ELSE IF c[1] = 0 THEN [s1 EXCEPT !.cost[c] = s.cost[<<0, c[2] - 1>>] + RC[c[2]], !.plen[c] = s.plen[<<0, c[2] - 1>>] + 1]
       ELSE IF c[2] = 0 THEN [s1 EXCEPT !.cost[c] = s.cost[<<c[1] - 1, 0>>] + IC[c[1]], !.plen[c] = s.plen[<<c[1] - 1, 0>>] + 1]
       ELSE s1
RECURSIVE AddAll(_, _)
\* the fringe diagonal is walked from its lowest row upwards (row -= 1, col += 1)
AddAll(s, cs) == IF cs = {} THEN s ELSE LET c == CHOOSE x \in cs : \A y \in cs : x[1] >= y[1] IN AddAll(AddNode(s, c), cs \ {c})
\* _next_fringe: returns <<state, result>>
NextFringe(s) ==
  IF Complete(s) THEN <<s, FALSE>>
  ELSE LET lastf == FringeOf(s)
           fr1 == s.fr + 1
           fr2 == IF fr1 >= M + 1 THEN M ELSE fr1
           fc2 == IF fr1 >= M + 1 THEN s.fc + 1 ELSE s.fc
           s1 == AddAll([s EXCEPT !.last = lastf, !.fr = fr2, !.fc = fc2], Diag(fr2, fc2))
       IN <<s1, IF fc2 >= N THEN fr2 < M ELSE TRUE>>
Tup(s, c) == <<s.cost[c], s.plen[c]>>
TupLe(a, b) == a[1] < b[1] \/ (a[1] = b[1] /\ a[2] <= b[2])
\* make_distinct(cell edit, Insert(to[row]), Remove(from[col])): the two others are constants
RECURSIVE MakeDistinct(_, _)
MakeDistinct(s, c) ==
  LET l == CLo(s, c) h == CHi(s, c) pi == IC[c[1]] pr == RC[c[2]]
      overlaps == (l <= pi /\ pi <= h) \/ (l <= pr /\ pr <= h)
  IN IF CanStep(s, c) /\ l # h /\ overlaps THEN MakeDistinct(CellStep(s, c), c) ELSE s
\* _best_match: returns <<state, predecessor cell, kind, cost of the chosen edit>>
BestMatch(s, c) ==
  IF ~s.live THEN <<[s EXCEPT !.err = "deref-freed-matrix:_best_match"], c, "x", 0>>
  ELSE IF c[1] = 0 THEN <<s, <<0, c[2] - 1>>, "rem", RC[c[2]]>>
  ELSE IF c[2] = 0 THEN <<s, <<c[1] - 1, 0>>, "ins", IC[c[1]]>>
  ELSE LET d == <<c[1] - 1, c[2] - 1>>  l == <<c[1], c[2] - 1>>  u == <<c[1] - 1, c[2]>>
           diagBest == TupLe(Tup(s, d), Tup(s, l)) /\ TupLe(Tup(s, d), Tup(s, u))
           s1 == IF diagBest THEN MakeDistinct(s, c) ELSE s
           useDiag == diagBest /\ RangeLt(CLo(s1, c), CHi(s1, c), IC[c[1]], IC[c[1]])
                               /\ RangeLt(CLo(s1, c), CHi(s1, c), RC[c[2]], RC[c[2]])
           b == IF useDiag THEN d ELSE IF TupLe(Tup(s, u), Tup(s, d)) THEN u ELSE l
           kind == IF useDiag THEN "pair" ELSE IF b = u THEN "ins" ELSE "rem"
           ec == IF useDiag THEN CHi(s1, c) ELSE IF b = u THEN IC[c[1]] ELSE RC[c[2]]
           s2 == [s1 EXCEPT !.plen[c] = s1.plen[b] + 1, !.cost[c] = s1.cost[b] + ec]
       IN <<s2, b, kind, ec>>
\* the loop over the fringe diagonal inside tighten_bounds: tighten every cell fully, then _best_match
RECURSIVE DoFringe(_, _)
DoFringe(s, cs) ==
  IF cs = {} \/ s.err # "" THEN s
  ELSE LET c == CHOOSE x \in cs : \A y \in cs : x[1] >= y[1]
           s1 == IF c \in Interior THEN CellFull(s, c) ELSE s
           bm == IF c = <<0, 0>> THEN <<s1>> ELSE BestMatch(s1, c)
       IN DoFringe(bm[1], cs \ {c})
MinOf(S) == CHOOSE x \in S : \A y \in S : x <= y
Max2(a, b) == IF a > b THEN a ELSE b
\* back-trace from the lower right cell; returns <<state, reversed script>>
RECURSIVE Backtrace(_, _, _)
Backtrace(s, c, acc) ==
  IF c = <<0, 0>> \/ s.err # "" THEN <<s, acc>>
  ELSE LET bm == BestMatch(s, c) IN Backtrace(bm[1], bm[2], Append(acc, <<bm[3], c[1], c[2], bm[4]>>))

RECURSIVE BoundsOf(_), EditsOf(_), CleanupOf(_), TightenOf(_), DriveToComplete(_)
\* bounds(): returns <<state, lower, upper>>  (it has a side effect: a complete matrix is finalised)
BoundsOf(s) ==
  IF Complete(s)
  THEN LET s1 == IF ~s.edits THEN EditsOf(s) ELSE s IN <<s1, s1.final, s1.final>>
  ELSE IF s.fr <= 0 THEN <<s, ConstCost, UB>>
  ELSE LET cs == FringeOf(s) \cup s.last
           m == MinOf({ s.cost[c] : c \in cs })
       IN <<s, Max2(ConstCost, m), UB>>
\* _cleanup()
CleanupOf(s) ==
  LET b == BoundsOf(s)  s1 == b[1]
  IN IF b[2] = b[3] /\ s1.live
     THEN LET s2 == IF ~s1.edits THEN EditsOf(s1) ELSE s1 IN [s2 EXCEPT !.live = FALSE]
     ELSE s1
DriveToComplete(s) ==
  IF Complete(s) \/ s.err # "" THEN s
  ELSE LET t == TightenOf(s) IN IF t[2] THEN DriveToComplete(t[1]) ELSE t[1]
\* edits()
EditsOf(s) ==
  IF s.edits THEN s
  ELSE IF Degenerate THEN CleanupOf([s EXCEPT !.edits = TRUE])
  ELSE LET s1 == DriveToComplete(s)
           s2 == IF s1.edits \/ s1.err # "" THEN s1
                 ELSE IF ~s1.live THEN [s1 EXCEPT !.err = "deref-freed-matrix:edits"]
                 ELSE LET s1t == IF <<M, N>> \in Interior THEN CellFull(s1, <<M, N>>) ELSE s1    \* the last cell is tightened first
                          bt == Backtrace(s1t, <<M, N>>, << >>)
                      IN [bt[1] EXCEPT !.edits = TRUE, !.final = bt[1].cost[<<M, N>>], !.script = bt[2]]
       IN IF s2.err # "" THEN s2 ELSE CleanupOf(s2)
\* the `while True` loop of tighten_bounds; returns <<state, result>>
RECURSIVE TightenLoop(_, _, _)
TightenLoop(s, ilo, ihi) ==
  IF s.err # "" THEN <<s, FALSE>> ELSE
  LET first == s.fr < 0
      nf == NextFringe(s)
      s1 == nf[1]
  IN IF ~nf[2]
     THEN IF ~s1.live THEN <<[s1 EXCEPT !.err = "deref-freed-matrix:tighten_bounds"], FALSE>>
          ELSE IF <<M, N>> \in Interior /\ ~CDef(s1, <<M, N>>)
               THEN LET t == TightenOf(s1) IN IF t[2] THEN t ELSE <<CleanupOf(t[1]), FALSE>>
               ELSE <<CleanupOf(s1), FALSE>>
     ELSE LET s2 == IF first THEN s1 ELSE DoFringe(s1, FringeOf(s1))
              b == BoundsOf(s2)
          IN IF b[3] < ihi \/ b[2] > ilo THEN <<b[1], TRUE>> ELSE TightenLoop(b[1], ilo, ihi)
\* tighten_bounds()
TightenOf(s) ==
  IF Degenerate THEN <<s, FALSE>>
  ELSE IF ~s.live THEN <<s, FALSE>>
  ELSE IF Complete(s)
       THEN IF <<M, N>> \in Interior /\ ~CDef(s, <<M, N>>) THEN <<CellStep(s, <<M, N>>), TRUE>>
            ELSE <<CleanupOf(s), FALSE>>
  ELSE LET b == BoundsOf(s) IN TightenLoop(b[1], b[2], b[3])

Init == /\ chain \in [Interior -> CellChains]
        /\ st = Init0 /\ nops = 0 /\ lastop = <<"init">> /\ lo = -1 /\ hi = -1 /\ seen = FALSE
OpTighten == LET t == TightenOf(st) IN st' = t[1] /\ lastop' = <<"tighten", t[2]>> /\ UNCHANGED <<lo, hi, seen>>
OpBounds  == LET b == BoundsOf(st) IN st' = b[1] /\ lastop' = <<"bounds", b[2], b[3]>> /\ lo' = b[2] /\ hi' = b[3] /\ seen' = TRUE
OpEdits   == st' = EditsOf(st) /\ lastop' = <<"edits">> /\ UNCHANGED <<lo, hi, seen>>
OpComplete == st' = st /\ lastop' = <<"is_complete", Complete(st)>> /\ UNCHANGED <<lo, hi, seen>>
Next == /\ nops < MaxOps /\ st.err = "" /\ nops' = nops + 1 /\ UNCHANGED chain
        /\ (OpTighten \/ OpBounds \/ OpEdits \/ OpComplete)
Spec == Init /\ [][Next]_vars

(* ---- properties ---- *)
NoError == st.err = ""
NeverWidens == [][seen /\ seen' => lo' >= lo /\ hi' <= hi]_vars
\* canonical completion of a FRESH object for the same environment
RECURSIVE Drain(_)
Drain(s) == IF s.err # "" THEN s ELSE LET t == TightenOf(s) IN IF t[2] THEN Drain(t[1]) ELSE t[1]
Canonical == LET s == Drain(Init0) b == BoundsOf(s) IN <<b[2], b[3]>>
FinalCost == Canonical[1]
\* completing the current object canonically gives the canonical cost: the result does not depend on the history
OrderIndependent == LET s == Drain(st) b == BoundsOf(s) IN s.err = "" => (b[2] = FinalCost /\ b[3] = FinalCost)
FinalInside == seen => (lo <= FinalCost /\ FinalCost <= hi)
\* the script of a finalised object is a legal list script whose costs add up
ScriptOK(s) ==
  LET sc == s.script   \* reversed: from the lower right cell back to the origin
      remd == {sc[k][3] : k \in {k \in 1..Len(sc) : sc[k][1] \in {"rem", "pair"}}}
      insd == {sc[k][2] : k \in {k \in 1..Len(sc) : sc[k][1] \in {"ins", "pair"}}}
      RECURSIVE Total(_)
      Total(k) == IF k = 0 THEN 0 ELSE sc[k][4] + Total(k - 1)
  IN /\ remd = 1..N /\ insd = 1..M
     /\ Cardinality({k \in 1..Len(sc) : sc[k][1] \in {"rem", "pair"}}) = N
     /\ Cardinality({k \in 1..Len(sc) : sc[k][1] \in {"ins", "pair"}}) = M
     /\ \A k \in 1..(Len(sc) - 1) : sc[k][2] >= sc[k + 1][2] /\ sc[k][3] >= sc[k + 1][3]
     /\ Total(Len(sc)) = s.final
ScriptLegal == (st.edits /\ st.err = "" /\ ~Degenerate) => ScriptOK(st)
=============================================================================
