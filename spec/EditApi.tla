------------------------------ MODULE EditApi ------------------------------
(***************************************************************************)
(* L1 contract behind C05: for a fixed pair of documents and build options *)
(* there is ONE final cost and ONE script.  A client may call the public   *)
(* operations of an edit - on the top-level edit or on any nested edit it  *)
(* has got hold of - in any order; after the canonical completion          *)
(* (refine until no progress, read cost and script) it observes that same  *)
(* result, and no call raises.  Status settings (quiet default printer,    *)
(* colour) are part of the history's configuration and must not matter.    *)
(*                                                                         *)
(* `ref` is a write-once register: the first completed history fixes the   *)
(* result; every later history must reproduce it.                          *)
(***************************************************************************)
EXTENDS Integers, Sequences, FiniteSets, TLC
CONSTANTS Ops,        \* public operations, e.g. {"bounds","tighten","complete","valid","edits","nonzero"} x {top, sub}
          MaxOps,     \* model checking / generation bound on history length
          Results     \* model checking: abstract results an implementation might produce
VARIABLES hist,       \* operations called so far in the current history
          phase,      \* "calling" | "completed"
          ref,        \* write-once reference result, "" = not yet written
          out,        \* result observed by the current history ("" before completion)
          raised      \* some call of the current history raised
vars == <<hist, phase, ref, out, raised>>

Init == hist = << >> /\ phase = "calling" /\ ref = "" /\ out = "" /\ raised = FALSE
Call(op) == /\ phase = "calling" /\ Len(hist) < MaxOps
            /\ hist' = Append(hist, op) /\ UNCHANGED <<phase, ref, out, raised>>
\* canonical completion observing result r (r = "" stands for: a call raised)
Complete(r, ex) ==
  /\ phase = "calling"
  /\ phase' = "completed" /\ out' = r /\ raised' = ex
  /\ ref' = IF ref = "" /\ ~ex THEN r ELSE ref
  /\ UNCHANGED hist
\* start the next history on a fresh edit for the same pair
Restart == phase = "completed" /\ hist' = << >> /\ phase' = "calling" /\ out' = "" /\ raised' = FALSE /\ UNCHANGED ref

\* C05, as clauses on a completed history
Clauses == <<
  <<"a-call-raised-an-internal-error", ~raised>>,
  <<"result-depends-on-how-the-edit-api-was-driven", (phase = "completed" /\ ~raised) => out = ref>> >>
FirstFail(cs) == LET bad == {k \in DOMAIN cs : ~cs[k][2]}
                 IN IF bad = {} THEN "" ELSE cs[CHOOSE k \in bad : \A m \in bad : k <= m][1]

\* the design: a correct implementation is a function of the inputs, so it always completes with ref
NextCorrect == \/ \E op \in Ops : Call(op)
               \/ \E r \in Results : (ref = "" \/ r = ref) /\ Complete(r, FALSE)
               \/ Restart
Spec == Init /\ [][NextCorrect]_vars
Deterministic == FirstFail(Clauses) = ""
=============================================================================
