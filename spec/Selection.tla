------------------------------ MODULE Selection ------------------------------
(***************************************************************************)
(* L1 contract behind C17.  Environment: a finite collection of items;      *)
(* item i follows a CHAIN of strictly nested integer intervals ending in    *)
(* the single value Fin(i); each tighten step moves it one link down the    *)
(* chain (any end may move, by any amount: every sound schedule is a chain).*)
(* Against this environment the four algorithms must, for every schedule:   *)
(*   search        end with an item of minimum final cost, and a            *)
(*                 single-valued bound equal to that cost                   *)
(*   sort          yield all items, by non-decreasing final cost            *)
(*   min_bounded   return an item of minimum final cost                     *)
(*   make_distinct leave every pair of items with disjoint intervals or     *)
(*                 both single-valued                                       *)
(* and all of them terminate (an unfinished run is recorded as such).       *)
(***************************************************************************)
EXTENDS Integers, Sequences, FiniteSets, TLC
CONSTANTS NItems, V
Items == 1..NItems
RECURSIVE Chains(_, _)
Chains(l, h) == IF l = h THEN { << <<l, h>> >> }
                ELSE { << <<l, h>> >> \o c : c \in UNION { Chains(l2, h2) :
                         <<l2, h2>> \in { p \in (l..h) \X (l..h) : p[1] <= p[2] /\ p # <<l, h>> } } }
AllChains == UNION { Chains(l, h) : <<l, h>> \in { p \in (0..V) \X (0..V) : p[1] <= p[2] } }
VARIABLES chain      \* the schedule: item -> chain
FinOf(c) == c[Len(c)][1]
Fin(i) == FinOf(chain[i])
N == Len(chain)
MinFin == CHOOSE m \in {Fin(i) : i \in 1..N} : \A i \in 1..N : m <= Fin(i)
SetOf(s) == {s[k] : k \in 1..Len(s)}

SearchClauses(o) == <<
  <<"search-did-not-terminate", o.finished>>,
  <<"search-raised", o.exc = "">>,
  <<"search-returned-no-item", o.finished /\ o.exc = "" => o.best \in 1..N>>,
  <<"search-result-is-not-of-minimum-final-cost", (o.finished /\ o.exc = "" /\ o.best \in 1..N) => Fin(o.best) = MinFin>>,
  <<"search-bound-is-not-the-single-minimum-value", (o.finished /\ o.exc = "") => (o.lo = MinFin /\ o.hi = MinFin)>> >>
SortClauses(o) == <<
  <<"sort-did-not-terminate", o.finished>>,
  <<"sort-raised", o.exc = "">>,
  <<"sort-lost-or-duplicated-items", (o.finished /\ o.exc = "") => (Len(o.order) = N /\ SetOf(o.order) = 1..N)>>,
  <<"sort-order-is-not-by-non-decreasing-final-cost",
       (o.finished /\ o.exc = "" /\ SetOf(o.order) \subseteq 1..N) =>
          \A k \in 1..(Len(o.order) - 1) : Fin(o.order[k]) <= Fin(o.order[k + 1])>> >>
MinClauses(o) == <<
  <<"min-did-not-terminate", o.finished>>,
  <<"min-raised", o.exc = "">>,
  <<"min-returned-no-item", (o.finished /\ o.exc = "") => o.best \in 1..N>>,
  <<"min-result-is-not-of-minimum-final-cost", (o.finished /\ o.exc = "" /\ o.best \in 1..N) => Fin(o.best) = MinFin>> >>
Disjoint(a, b) == a[2] < b[1] \/ b[2] < a[1]
Point(a) == a[1] = a[2]
DistinctClauses(o) == <<
  <<"separation-did-not-terminate", o.finished>>,
  <<"separation-raised", o.exc = "">>,
  <<"separation-left-overlapping-intervals",
       (o.finished /\ o.exc = "") =>
          \A i \in 1..N, j \in 1..N : i < j => (Disjoint(o.iv[i], o.iv[j]) \/ (Point(o.iv[i]) /\ Point(o.iv[j])))>>,
  <<"item-interval-left-its-chain", (o.finished /\ o.exc = "") =>
          \A i \in 1..N : \E k \in 1..Len(chain[i]) : chain[i][k] = o.iv[i]>> >>
FirstFail(cs) == LET bad == {k \in DOMAIN cs : ~cs[k][2]}
                 IN IF bad = {} THEN "" ELSE cs[CHOOSE k \in bad : \A m \in bad : k <= m][1]
\* schedule generator: every assignment of chains to items
GenInit == chain \in [Items -> AllChains]
GenSpec == GenInit /\ [][FALSE]_chain
=============================================================================
