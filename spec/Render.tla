------------------------------- MODULE Render -------------------------------
(***************************************************************************)
(* C06: both documents can be read back from a diff rendered as JSON.       *)
(*                                                                         *)
(* The raw output of the JSON formatter into Printer(ansi_color=True) is    *)
(* split LEXICALLY into cells (no structure is guessed outside the spec):   *)
(*   [t |-> "sgr", p |-> <<codes>>]   an SGR escape  ESC [ codes m          *)
(*   [t |-> "ch",  c |-> code point]  any other character, incl. the        *)
(*                                    combining marks U+0336 (strike) and   *)
(*                                    U+031F (under-plus) the printer adds  *)
(* PRINTER MODEL: SGR state (background colour; 0 resets everything, 49     *)
(* resets the background), and per character the combining marks that       *)
(* follow it.  A character is REMOVED if struck or on a red background,      *)
(* INSERTED if under-plussed or on a green background, else KEPT.            *)
(* TWO JSON PUSHDOWN ACCEPTORS run side by side: the from-view consumes      *)
(* every character that is not INSERTED, the to-view every character that    *)
(* is not REMOVED.  Each acceptor skips whitespace, treats commas as         *)
(* optional separators ("separator placement aside"), treats the token "->"  *)
(* outside string literals as decoration (JSON has no such token), decodes   *)
(* string escapes (\uXXXX incl. surrogate pairs), and builds the PATH SET    *)
(* of the value it reads.  The same acceptor then reads the reference        *)
(* renderings json.dumps(first) and json.dumps(second).                      *)
(* Acceptance: both views are well-formed, their path sets equal those of    *)
(* the references, and there are change marks exactly when the two           *)
(* reference path sets differ.                                               *)
(***************************************************************************)
EXTENDS Integers, Sequences, FiniteSets, TLC

Strike == 822          \* U+0336
UnderPlus == 799       \* U+031F
IsMark(c) == c = Strike \/ c = UnderPlus
IsWs(c) == c \in {32, 9, 10, 13}
Quote == 34
Backslash == 92
Comma == 44
Colon == 58
Minus == 45
Greater == 62
LBr == 91
RBr == 93
LCu == 123
RCu == 125
Hex(c) == IF c \in 48..57 THEN c - 48 ELSE IF c \in 97..102 THEN c - 87 ELSE IF c \in 65..70 THEN c - 55 ELSE -1

(***************************************************************************)
(* The JSON acceptor: a record, advanced one character at a time by Feed.   *)
(*   mode   "ws" between tokens, "str" in a string, "esc" after backslash,   *)
(*          "uni" reading \uXXXX, "lex" in a number/literal run, "minus"     *)
(*          after a "-" that may start a number or the arrow, "done", "err"  *)
(*   stack  open containers: [kind "a"|"o", idx, key, st] with st            *)
(*          "k" expecting a key or the end, "c" expecting the colon,         *)
(*          "v" expecting a value (or the end of an array)                   *)
(***************************************************************************)
NewAcc == [mode |-> "ws", stack |-> << >>, cur |-> << >>, uni |-> 0, unicnt |-> 0, hi |-> 0,
           paths |-> {}, err |-> "", done |-> FALSE]
PathOf(stack) == [k \in 1..Len(stack) |-> IF stack[k].kind = "a" THEN <<0, stack[k].idx>> ELSE <<1>> \o stack[k].key]
Fail(a, msg) == [a EXCEPT !.mode = "err", !.err = IF a.err = "" THEN msg ELSE a.err]
\* a value has been completed at the current position
Advance(a) ==
  IF a.stack = << >> THEN [a EXCEPT !.done = TRUE, !.mode = "ws"]
  ELSE LET n == Len(a.stack) IN
       IF a.stack[n].kind = "a" THEN [a EXCEPT !.stack[n].idx = @ + 1, !.mode = "ws"]
       ELSE [a EXCEPT !.stack[n].st = "k", !.mode = "ws"]
ExpectingValue(a) ==
  IF a.stack = << >> THEN ~a.done ELSE a.stack[Len(a.stack)].st = "v"
ExpectingKey(a) == a.stack # << >> /\ a.stack[Len(a.stack)].st = "k"
Leaf(a, tag, text) == Advance([a EXCEPT !.paths = @ \cup {<<PathOf(a.stack), <<tag>> \o text>>}, !.cur = << >>])
Open(a, kind) ==
  LET b == [a EXCEPT !.paths = @ \cup {<<PathOf(a.stack), <<IF kind = "a" THEN LBr ELSE LCu>>>>}]
  IN [b EXCEPT !.stack = Append(@, [kind |-> kind, idx |-> 0, key |-> << >>, st |-> IF kind = "a" THEN "v" ELSE "k"]),
               !.mode = "ws"]
Close(a, kind) ==
  IF a.stack = << >> THEN Fail(a, "unbalanced-closing-bracket")
  ELSE LET n == Len(a.stack) top == a.stack[n] IN
       IF top.kind # kind THEN Fail(a, "mismatched-closing-bracket")
       ELSE IF kind = "o" /\ top.st # "k" THEN Fail(a, "object-closed-after-a-key-without-value")
       ELSE Advance([a EXCEPT !.stack = SubSeq(@, 1, n - 1)])
EndString(a) ==
  IF a.hi # 0 THEN Fail(a, "lone-high-surrogate")
  ELSE IF ExpectingKey(a)
  THEN LET n == Len(a.stack) IN [a EXCEPT !.stack[n].key = a.cur, !.stack[n].st = "c", !.cur = << >>, !.mode = "ws"]
  ELSE IF ExpectingValue(a) THEN Leaf(a, Quote, a.cur)
  ELSE Fail(a, "string-where-no-value-is-expected")
EndLex(a) ==          \* a number / literal run ended
  IF ExpectingValue(a) THEN Leaf(a, 35, a.cur) ELSE Fail(a, "literal-where-no-value-is-expected")
AddChar(a, c) ==      \* a decoded character inside a string; combines surrogate pairs
  IF a.hi # 0
  THEN IF c \in 56320..57343
       THEN [a EXCEPT !.cur = Append(@, 65536 + (a.hi - 55296) * 1024 + (c - 56320)), !.hi = 0, !.mode = "str"]
       ELSE Fail(a, "lone-high-surrogate")
  ELSE IF c \in 55296..56319 THEN [a EXCEPT !.hi = c, !.mode = "str"]
  ELSE [a EXCEPT !.cur = Append(@, c), !.mode = "str"]
RECURSIVE Feed(_, _)
Feed(a, c) ==
  IF a.mode = "err" THEN a
  ELSE IF a.mode = "str" THEN
       IF c = Quote THEN EndString(a)
       ELSE IF c = Backslash THEN [a EXCEPT !.mode = "esc"]
       ELSE IF c < 32 THEN Fail(a, "raw-control-character-in-string")
       ELSE AddChar(a, c)
  ELSE IF a.mode = "esc" THEN
       IF c = 117 THEN [a EXCEPT !.mode = "uni", !.uni = 0, !.unicnt = 0]
       ELSE IF c \in {Quote, Backslash, 47} THEN AddChar(a, c)
       ELSE IF c = 110 THEN AddChar(a, 10) ELSE IF c = 116 THEN AddChar(a, 9) ELSE IF c = 114 THEN AddChar(a, 13)
       ELSE IF c = 98 THEN AddChar(a, 8) ELSE IF c = 102 THEN AddChar(a, 12)
       ELSE Fail(a, "unknown-escape")
  ELSE IF a.mode = "uni" THEN
       IF Hex(c) < 0 THEN Fail(a, "bad-unicode-escape")
       ELSE LET v == a.uni * 16 + Hex(c) IN
            IF a.unicnt = 3 THEN AddChar([a EXCEPT !.uni = 0, !.unicnt = 0], v)
            ELSE [a EXCEPT !.uni = v, !.unicnt = @ + 1]
  ELSE IF a.mode = "minus" THEN
       IF c = Greater THEN [a EXCEPT !.mode = "ws", !.cur = << >>]          \* the decoration "->"
       ELSE Feed([a EXCEPT !.mode = "lex"], c)
  ELSE IF a.mode = "lex" THEN
       IF IsWs(c) \/ c \in {Comma, Colon, LBr, RBr, LCu, RCu, Quote}
       THEN Feed(EndLex(a), c)
       ELSE [a EXCEPT !.cur = Append(@, c)]
  ELSE \* "ws": between tokens
       IF IsWs(c) \/ c = Comma THEN a
       ELSE IF c = Quote THEN
            IF ExpectingKey(a) \/ ExpectingValue(a) THEN [a EXCEPT !.mode = "str", !.cur = << >>, !.hi = 0]
            ELSE Fail(a, "string-where-no-value-is-expected")
       ELSE IF c = Colon THEN
            IF a.stack # << >> /\ a.stack[Len(a.stack)].st = "c"
            THEN [a EXCEPT !.stack[Len(a.stack)].st = "v"] ELSE Fail(a, "unexpected-colon")
       ELSE IF c = LBr THEN IF ExpectingValue(a) THEN Open(a, "a") ELSE Fail(a, "container-where-no-value-is-expected")
       ELSE IF c = LCu THEN IF ExpectingValue(a) THEN Open(a, "o") ELSE Fail(a, "container-where-no-value-is-expected")
       ELSE IF c = RBr THEN Close(a, "a")
       ELSE IF c = RCu THEN Close(a, "o")
       ELSE IF c = Minus THEN [a EXCEPT !.mode = "minus", !.cur = <<Minus>>]
       ELSE IF ExpectingValue(a) THEN [a EXCEPT !.mode = "lex", !.cur = <<c>>]
       ELSE Fail(a, "text-where-no-value-is-expected")
\* end of input
Finish(a) ==
  LET b == IF a.mode = "lex" THEN EndLex(a) ELSE a
  IN IF b.mode = "err" THEN b
     ELSE IF b.mode \in {"str", "esc", "uni", "minus"} THEN Fail(b, "input-ends-inside-a-token")
     ELSE IF b.stack # << >> THEN Fail(b, "input-ends-inside-a-container")
     ELSE IF ~b.done THEN Fail(b, "no-value")
     ELSE b
WellFormed(a) == a.err = "" /\ a.done /\ a.stack = << >>

(***************************************************************************)
(* The printer model and the two views.                                     *)
(***************************************************************************)
VARIABLES bg,          \* background colour code in force: 0 none, 41 red, 42 green, other codes kept as is
          pend,        \* the last character cell and the marks seen after it: [c, struck, plussed, bg] or [c |-> -1]
          fromA, toA,  \* the two acceptors over the rendered output
          ref1, ref2,  \* the acceptors over the reference renderings
          marks        \* number of characters classified REMOVED or INSERTED
rvars == <<bg, pend, fromA, toA, ref1, ref2, marks>>
NoPend == [c |-> -1, struck |-> FALSE, plussed |-> FALSE, bg |-> 0]
Init0 == bg = 0 /\ pend = NoPend /\ fromA = NewAcc /\ toA = NewAcc /\ ref1 = NewAcc /\ ref2 = NewAcc /\ marks = 0
Class(p) == IF p.struck \/ p.bg = 41 THEN "REM" ELSE IF p.plussed \/ p.bg = 42 THEN "INS" ELSE "KEEP"
\* hand the pending character to the views
FlushInto(p, f, t, m) ==
  IF p.c < 0 THEN <<f, t, m>>
  ELSE LET cl == Class(p) IN
       << IF cl # "INS" THEN Feed(f, p.c) ELSE f,
          IF cl # "REM" THEN Feed(t, p.c) ELSE t,
          IF cl # "KEEP" THEN m + 1 ELSE m >>
RECURSIVE ApplySgr(_, _)
ApplySgr(b, codes) ==
  IF codes = << >> THEN b
  ELSE LET k == Head(codes) IN
       ApplySgr(IF k = 0 \/ k = 49 THEN 0 ELSE IF k \in 40..47 \/ k \in 100..107 THEN k ELSE b, Tail(codes))
Cell(e) ==
  IF e.t = "sgr"
  THEN LET r == FlushInto(pend, fromA, toA, marks) IN
       /\ fromA' = r[1] /\ toA' = r[2] /\ marks' = r[3] /\ pend' = NoPend
       /\ bg' = ApplySgr(bg, e.p)
       /\ UNCHANGED <<ref1, ref2>>
  ELSE IF IsMark(e.c) /\ pend.c >= 0
  THEN /\ pend' = [pend EXCEPT !.struck = @ \/ e.c = Strike, !.plussed = @ \/ e.c = UnderPlus]
       /\ UNCHANGED <<bg, fromA, toA, ref1, ref2, marks>>
  ELSE LET r == FlushInto(pend, fromA, toA, marks) IN
       /\ fromA' = r[1] /\ toA' = r[2] /\ marks' = r[3]
       /\ pend' = [c |-> e.c, struck |-> FALSE, plussed |-> FALSE, bg |-> bg]
       /\ UNCHANGED <<bg, ref1, ref2>>
EndOfOutput ==
  LET r == FlushInto(pend, fromA, toA, marks) IN
  /\ fromA' = Finish(r[1]) /\ toA' = Finish(r[2]) /\ marks' = r[3] /\ pend' = NoPend
  /\ UNCHANGED <<bg, ref1, ref2>>
RefChar(which, c) ==
  /\ IF which = 1 THEN ref1' = Feed(ref1, c) /\ UNCHANGED ref2 ELSE ref2' = Feed(ref2, c) /\ UNCHANGED ref1
  /\ UNCHANGED <<bg, pend, fromA, toA, marks>>
EndOfRefs == ref1' = Finish(ref1) /\ ref2' = Finish(ref2) /\ UNCHANGED <<bg, pend, fromA, toA, marks>>

Clauses == <<
  <<"machinery:reference-rendering-not-accepted", WellFormed(ref1) /\ WellFormed(ref2)>>,
  <<"from-view-is-not-well-formed-json", WellFormed(fromA)>>,
  <<"to-view-is-not-well-formed-json", WellFormed(toA)>>,
  <<"from-view-does-not-read-back-the-first-document", fromA.paths = ref1.paths>>,
  <<"to-view-does-not-read-back-the-second-document", toA.paths = ref2.paths>>,
  <<"change-marks-although-the-documents-are-equal", ref1.paths = ref2.paths => marks = 0>>,
  <<"no-change-marks-although-the-documents-differ", ref1.paths # ref2.paths => marks > 0>> >>
FirstFail(cs) == LET bad == {i \in DOMAIN cs : ~cs[i][2]}
                 IN IF bad = {} THEN "" ELSE cs[CHOOSE i \in bad : \A m \in bad : i <= m][1]
=============================================================================
