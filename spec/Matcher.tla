------------------------------- MODULE Matcher -------------------------------
(***************************************************************************)
(* L2 (mechanism) model of graphtage.matching.WeightedBipartiteMatcher,     *)
(* the bounded object behind every multiset / mapping edit:                 *)
(*   1. make all N x M edges pairwise distinct (bounds.make_distinct, the   *)
(*      machine of Distinct.tla, instantiated here on the edge cells),      *)
(*   2. solve the assignment problem on the edges' UPPER bounds             *)
(*      (min_weight_bipartite_matching; ties are resolved by scipy, so ANY  *)
(*      optimal assignment is a possible outcome here),                     *)
(*   3. then tighten the matched edges one at a time, in row order.         *)
(* tighten_bounds() is wrapped by @repeat_until_tightened: it repeats the   *)
(* body until bounds() has shrunk or is a single value.                     *)
(*                                                                         *)
(* Small-step: one TLC action per statement block of the code (Func), per  *)
(* iteration of make_distinct's loops (D!PickBiggest, D!Squeeze), and per   *)
(* iteration of the wrapper's loop (Check).  Public operations (bounds,     *)
(* tighten_bounds, matching, is_complete) start when pc = "idle".           *)
(* Environment: edge (i, j) follows a chain of strictly nested intervals    *)
(* (cell id (i-1)*M + j).  Nodes are assumed pairwise unequal (the code     *)
(* keys its result by node VALUE; duplicates are the known findings F17 /   *)
(* F20 and are outside this model).                                         *)
(*                                                                         *)
(* TLC checks for all environments, all internal choices and all orders of  *)
(* <= MaxOps public operations:                                             *)
(*   NeverWidens, ProgressShrinks, QuiescentDefinitive  (C04 on the model)  *)
(*   MatchIsAssignment   the matching pairs min(N, M) rows and columns 1:1  *)
(*   CacheSound          the memoised bounds equal the recomputed ones      *)
(*   Returns             every public operation returns (WF on the          *)
(*                       internal steps): no livelock in the wrapper        *)
(***************************************************************************)
EXTENDS Integers, Sequences, FiniteSets, TLC
CONSTANTS N, M, V, MaxOps
Cells == 1..(N * M)
Id(i, j) == (i - 1) * M + j
K == IF N < M THEN N ELSE M
VARIABLES chain, ptr,                 \* environment and its progress (shared with Distinct)
          tree, dpc, big, sec,        \* make_distinct's state
          flag,                       \* _edges_are_distinct
          match,                      \* _match: {} = None, else a set of <<row, col>>
          matched,                    \* _match is not None
          cache,                      \* _bounds: <<>> or <<lo, hi>>
          pc,                         \* "idle" | "func" | "distinct" | "check" | "force" | "force-distinct"
          start,                      \* the wrapper's starting_bounds
          nops, lastop, lo, hi, seen
dvars == <<chain, ptr, tree, dpc, big, sec>>
vars == <<chain, ptr, tree, dpc, big, sec, flag, match, matched, cache, pc, start, nops, lastop, lo, hi, seen>>
D == INSTANCE Distinct WITH NItems <- N * M, pc <- dpc

Lo(p, c) == chain[c][p[c]][1]
Hi(p, c) == chain[c][p[c]][2]
RECURSIVE SumSet(_, _)
SumSet(f, S) == IF S = {} THEN 0 ELSE LET x == CHOOSE y \in S : TRUE IN f[x] + SumSet(f, S \ {x})
MinOf(S) == CHOOSE x \in S : \A y \in S : x <= y
MaxOf(S) == CHOOSE x \in S : \A y \in S : x >= y
\* sum of the k smallest / largest values of f over the index set S
RECURSIVE Smallest(_, _, _), Largest(_, _, _)
Smallest(f, S, k) == IF k = 0 \/ S = {} THEN 0
                     ELSE LET x == CHOOSE y \in S : \A z \in S : f[y] <= f[z] IN f[x] + Smallest(f, S \ {x}, k - 1)
Largest(f, S, k) == IF k = 0 \/ S = {} THEN 0
                    ELSE LET x == CHOOSE y \in S : \A z \in S : f[y] >= f[z] IN f[x] + Largest(f, S \ {x}, k - 1)
\* bounds() as a function of the state: <<lo, hi>>
Compute(p, mt, isM) ==
  IF N = 0 \/ M = 0 THEN <<0, 0>>
  ELSE IF ~isM
       THEN <<Smallest([i \in 1..N |-> MinOf({Lo(p, Id(i, j)) : j \in 1..M})], 1..N, K),
              Largest([i \in 1..N |-> MaxOf({Hi(p, Id(i, j)) : j \in 1..M})], 1..N, K)>>
       ELSE <<SumSet([e \in mt |-> Lo(p, Id(e[1], e[2]))], mt), SumSet([e \in mt |-> Hi(p, Id(e[1], e[2]))], mt)>>
Cur == IF cache # <<>> THEN cache ELSE Compute(ptr, match, matched)
\* the side effect of bounds(): memoise a single value
Memo == IF cache = <<>> /\ Cur[1] = Cur[2] THEN Cur ELSE cache

\* all one-to-one pairings of K rows with K columns
Assignments == IF N <= M THEN {{<<i, f[i]>> : i \in 1..N} : f \in {g \in [1..N -> 1..M] : \A a, b \in 1..N : a # b => g[a] # g[b]}}
               ELSE {{<<f[j], j>> : j \in 1..M} : f \in {g \in [1..M -> 1..N] : \A a, b \in 1..M : a # b => g[a] # g[b]}}
Weight(A) == SumSet([e \in A |-> Hi(ptr, Id(e[1], e[2]))], A)
Optimal == {A \in Assignments : \A B \in Assignments : Weight(A) <= Weight(B)}

Init == /\ chain \in [Cells -> D!AllChains] /\ ptr = [c \in Cells |-> 1]
        /\ tree = {} /\ dpc = "done" /\ big = 0 /\ sec = 0
        /\ flag = FALSE /\ match = {} /\ matched = FALSE /\ cache = <<>> /\ pc = "idle" /\ start = <<0, 0>>
        /\ nops = 0 /\ lastop = <<"init">> /\ lo = 0 /\ hi = 0 /\ seen = FALSE

Unch(S) == UNCHANGED S
\* ---- public operations (start in idle) ------------------------------------
DoBounds == /\ pc = "idle"
            /\ cache' = Memo /\ lastop' = <<"bounds", Cur[1], Cur[2]>> /\ lo' = Cur[1] /\ hi' = Cur[2] /\ seen' = TRUE
            /\ UNCHANGED <<chain, ptr, tree, dpc, big, sec, flag, match, matched, pc, start>>
OpBounds == nops < MaxOps /\ nops' = nops + 1 /\ DoBounds
OpComplete == /\ pc = "idle" /\ nops < MaxOps /\ nops' = nops + 1
              /\ lastop' = <<"is_complete", matched>>
              /\ UNCHANGED <<chain, ptr, tree, dpc, big, sec, flag, match, matched, cache, pc, start, lo, hi, seen>>
\* tighten_bounds(): the wrapper's prologue
DoTighten == /\ pc = "idle"
             /\ cache' = Memo /\ start' = Cur
             /\ IF Cur[1] = Cur[2] THEN pc' = "idle" /\ lastop' = <<"tighten", FALSE>>
                ELSE pc' = "func" /\ lastop' = <<"tighten-running">>
             /\ UNCHANGED <<chain, ptr, tree, dpc, big, sec, flag, match, matched, lo, hi, seen>>
OpTighten == nops < MaxOps /\ nops' = nops + 1 /\ DoTighten
\* the `matching' property read by a client (MultiSetEdit)
DoMatching == /\ pc = "idle"
              /\ IF matched \/ N = 0 \/ M = 0
                 THEN pc' = "idle" /\ lastop' = <<"matching">> /\ matched' = TRUE /\ UNCHANGED <<tree, dpc>>
                 ELSE IF flag THEN pc' = "force" /\ lastop' = <<"matching-running">> /\ UNCHANGED <<matched, tree, dpc>>
                 ELSE /\ pc' = "force-distinct" /\ lastop' = <<"matching-running">> /\ UNCHANGED matched
                      /\ tree' = {D!Entry(c) : c \in Cells} /\ dpc' = "outer"
              /\ UNCHANGED <<chain, ptr, big, sec, flag, match, cache, start, lo, hi, seen>>
OpMatching == nops < MaxOps /\ nops' = nops + 1 /\ DoMatching
\* ---- internal steps ---------------------------------------------------------
\* the body of tighten_bounds, one call
Func == /\ pc = "func"
        /\ IF ~matched
           THEN IF ~flag
                THEN /\ tree' = {D!Entry(c) : c \in Cells} /\ dpc' = "outer" /\ pc' = "distinct"
                     /\ UNCHANGED <<chain, ptr, big, sec, flag, match, matched, cache>>
                ELSE /\ \E A \in Optimal : match' = A
                     /\ matched' = TRUE /\ pc' = "check"
                     /\ UNCHANGED <<chain, ptr, tree, dpc, big, sec, flag, cache>>
           ELSE LET open == {e \in match : ptr[Id(e[1], e[2])] < Len(chain[Id(e[1], e[2])])}
                IN /\ IF open = {} THEN UNCHANGED ptr
                      ELSE LET e == CHOOSE x \in open : \A y \in open : x[1] <= y[1]      \* row order
                           IN ptr' = [ptr EXCEPT ![Id(e[1], e[2])] = @ + 1]
                   /\ pc' = "check"
                   /\ UNCHANGED <<chain, tree, dpc, big, sec, flag, match, matched, cache>>
        /\ UNCHANGED <<start, nops, lastop, lo, hi, seen>>
\* make_distinct's loops
DistinctStep == /\ pc \in {"distinct", "force-distinct"} /\ dpc # "done"
                /\ D!Next
                /\ UNCHANGED <<flag, match, matched, cache, pc, start, nops, lastop, lo, hi, seen>>
DistinctDone == /\ pc \in {"distinct", "force-distinct"} /\ dpc = "done"
                /\ flag' = TRUE /\ pc' = IF pc = "distinct" THEN "check" ELSE "force"
                /\ UNCHANGED <<chain, ptr, tree, dpc, big, sec, match, matched, cache, start, nops, lastop, lo, hi, seen>>
\* the `matching' property computing the assignment
Force == /\ pc = "force"
         /\ \E A \in Optimal : match' = A
         /\ matched' = TRUE /\ pc' = "idle" /\ lastop' = <<"matching">>
         /\ UNCHANGED <<chain, ptr, tree, dpc, big, sec, flag, cache, start, nops, lo, hi, seen>>
\* the wrapper's loop test
Check == /\ pc = "check"
         /\ cache' = Memo
         /\ IF Cur[1] < start[1] \/ Cur[2] > start[2] THEN pc' = "func" /\ UNCHANGED lastop           \* warning, try again
            ELSE IF Cur[1] = Cur[2] \/ Cur[1] > start[1] \/ Cur[2] < start[2]
                 THEN pc' = "idle" /\ lastop' = <<"tighten", TRUE>>
                 ELSE pc' = "func" /\ UNCHANGED lastop
         /\ UNCHANGED <<chain, ptr, tree, dpc, big, sec, flag, match, matched, start, nops, lo, hi, seen>>
Internal == Func \/ DistinctStep \/ DistinctDone \/ Force \/ Check
Next == OpBounds \/ OpComplete \/ OpTighten \/ OpMatching \/ Internal
Spec == Init /\ [][Next]_vars /\ WF_vars(Internal)

\* ---- properties -----------------------------------------------------------------
NeverWidens == [][seen /\ seen' => lo' >= lo /\ hi' <= hi]_vars
\* intervals as seen by a client right before and after a complete tighten_bounds()
ProgressShrinks == (pc = "idle" /\ lastop = <<"tighten", TRUE>>) =>
                      (Cur[1] >= start[1] /\ Cur[2] <= start[2] /\ (Cur[1] > start[1] \/ Cur[2] < start[2]))
QuiescentDefinitive == (pc = "idle" /\ lastop = <<"tighten", FALSE>>) => Cur[1] = Cur[2]
InternalNeverWidens == [][Cur'[1] >= Cur[1] /\ Cur'[2] <= Cur[2]]_vars
MatchIsAssignment == matched /\ N > 0 /\ M > 0 =>
                        /\ Cardinality(match) = K
                        /\ \A a, b \in match : a # b => a[1] # b[1] /\ a[2] # b[2]
CacheSound == cache # <<>> => cache = Compute(ptr, match, matched)
Returns == [](pc # "idle" => <>(pc = "idle"))
\* once matched and every matched edge exhausted, the interval is the single value sum of the matched finals
Settled == (matched /\ \A e \in match : ptr[Id(e[1], e[2])] = Len(chain[Id(e[1], e[2])])) => Compute(ptr, match, matched)[1] = Compute(ptr, match, matched)[2]
=============================================================================
