---------------------------- MODULE LevenshteinMC ----------------------------
(* Model-checking instances of Levenshtein.tla (cfg files cannot hold sequences). *)
EXTENDS Levenshtein
RC_21 == <<2, 1>>
RC_22 == <<2, 2>>
RC_1 == <<1>>
RC_212 == <<2, 1, 2>>
IC_2 == <<2>>
IC_12 == <<1, 2>>
IC_21 == <<2, 1>>
Empty == << >>
\* symmetry-free bound used with the larger instances
Small == nops <= MaxOps
=============================================================================
