------------------------------ MODULE TermHtml ------------------------------
(***************************************************************************)
(* L2 (mechanism) model of graphtage.printer.HTMLPrinter with colour on:    *)
(* the same context stack as Term.tla, but a context writes                 *)
(* <span style="..."> / </span> instead of escape codes                     *)
(* (HTMLANSIContext._set_codes), strike is an inline <span>, indent a       *)
(* <div>, newline a <br /> followed by a line break.                        *)
(*                                                                         *)
(* Entering a chain, link by link (outermost first): a link whose value is  *)
(* not yet in force contributes its CSS to ONE span opened by the link -    *)
(* each link of a chain is a context of its own, so a chain of three opens  *)
(* up to three nested spans and closes them innermost first.                *)
(* NAMED DEVIATION (shared with the code): when a link changes nothing (its *)
(* value is already in force) it writes no span - and throws away the start *)
(* tags its outer links had produced, while their end tags are still        *)
(* written on exit: printer.bright().color(c) entered where c is already    *)
(* the colour in force writes "</span>" without ever having written the     *)
(* "<span style=font-weight: bold...>" (ghost `lostOpen`).  TLC shows it    *)
(* reachable; Balanced / Faithful are stated for behaviours without it.     *)
(*                                                                         *)
(* Output is a sequence of tokens:  <<"open", attr, value>>  <<"close">>    *)
(* <<"ch", c>>  <<"br">>  <<"ind", n>>  <<"strike">>  <<"unstrike">>        *)
(* <<"div">>  <<"undiv">>.                                                  *)
(***************************************************************************)
EXTENDS Integers, Sequences, FiniteSets, TLC
CONSTANTS Values, MaxDepth, MaxOps
Attr == 1..3
Links == Attr \X Values
Chains == { <<l>> : l \in Links } \cup { <<l1, l2>> : l1 \in Links, l2 \in Links } \cup
          { <<l1, l2, l3>> : l1 \in {<<3, v>> : v \in Values}, l2 \in {<<2, v>> : v \in Values}, l3 \in {<<1, v>> : v \in Values} }
None3 == <<0, 0, 0>>
VARIABLES ctx,       \* stack of entered contexts: [eff, nclose]  (attributes in force inside; number of </span> written on exit)
          nest,      \* stack of what is open in the output, innermost last: "span" / "strike" / "div"
          indents, lastnl, out, lostOpen, nops, lastop
vars == <<ctx, nest, indents, lastnl, out, lostOpen, nops, lastop>>
InForce == IF ctx = << >> THEN None3 ELSE ctx[Len(ctx)].eff
\* link by link: <<attributes in force, start tokens, number of end tags, some start tag was thrown away>>
RECURSIVE Codes(_, _, _, _, _)
Codes(chain, eff, start, nend, lost) ==
  IF chain = << >> THEN <<eff, start, nend, lost>>
  ELSE LET a == Head(chain)[1] v == Head(chain)[2] IN
       IF eff[a] = v
       THEN Codes(Tail(chain), eff, << >>, nend, lost \/ start # << >>)          \* writes nothing AND forgets the outer links' tags
       ELSE Codes(Tail(chain), [eff EXCEPT ![a] = v], Append(start, <<"open", a, v>>), nend + 1, lost)
Init == /\ ctx = << >> /\ nest = << >> /\ indents = 0 /\ lastnl = FALSE /\ out = << >> /\ lostOpen = FALSE
        /\ nops = 0 /\ lastop = <<"init">>
Enter(chain) == /\ Len(ctx) < MaxDepth
                /\ LET c == Codes(chain, InForce, << >>, 0, FALSE) IN
                     /\ ctx' = Append(ctx, [eff |-> c[1], nclose |-> c[3]])
                     /\ out' = out \o c[2]
                     /\ nest' = nest \o [i \in 1..Len(c[2]) |-> "span"]
                     /\ lostOpen' = (lostOpen \/ c[4])
                /\ lastop' = <<"enter", chain>> /\ UNCHANGED <<indents, lastnl>>
\* leaving is only legal in LIFO order with respect to strike / div elements opened inside (the formatters use `with`)
TopSpans(n) == Len(nest) >= n /\ \A i \in (Len(nest) - n + 1)..Len(nest) : nest[i] = "span"
Exit == /\ ctx # << >>
        /\ LET n == ctx[Len(ctx)].nclose IN
             /\ (lostOpen \/ TopSpans(n))
             /\ out' = out \o [i \in 1..n |-> <<"close">>]
             /\ nest' = IF TopSpans(n) THEN SubSeq(nest, 1, Len(nest) - n) ELSE nest
        /\ ctx' = SubSeq(ctx, 1, Len(ctx) - 1)
        /\ lastop' = <<"exit">> /\ UNCHANGED <<indents, lastnl, lostOpen>>
Strike == /\ Len(nest) < 3 * MaxDepth /\ out' = Append(out, <<"strike">>) /\ nest' = Append(nest, "strike")
          /\ lastop' = <<"mark">> /\ UNCHANGED <<ctx, indents, lastnl, lostOpen>>
Unstrike == /\ nest # << >> /\ nest[Len(nest)] = "strike"
            /\ out' = Append(out, <<"unstrike">>) /\ nest' = SubSeq(nest, 1, Len(nest) - 1)
            /\ lastop' = <<"unmark">> /\ UNCHANGED <<ctx, indents, lastnl, lostOpen>>
Write(ch) == /\ out' = out \o (IF lastnl /\ indents > 0 THEN << <<"ind", indents>> >> ELSE << >>) \o << <<"ch", ch>> >>
             /\ lastnl' = FALSE /\ lastop' = <<"write", ch>> /\ UNCHANGED <<ctx, nest, indents, lostOpen>>
Newline == /\ out' = Append(out, <<"br">>) /\ lastnl' = TRUE /\ lastop' = <<"newline">> /\ UNCHANGED <<ctx, nest, indents, lostOpen>>
Next == /\ nops < MaxOps /\ nops' = nops + 1
        /\ \/ \E chain \in Chains : Enter(chain)
           \/ Exit \/ Strike \/ Unstrike \/ Newline
           \/ \E ch \in {"x", "y"} : Write(ch)
Spec == Init /\ [][Next]_vars

\* every close tag written so far had an open one
RECURSIVE Depth(_, _)
Depth(toks, d) == IF toks = << >> THEN d
                  ELSE LET t == Head(toks) IN
                       IF d < 0 THEN d
                       ELSE Depth(Tail(toks), IF t[1] \in {"open", "strike"} THEN d + 1 ELSE IF t[1] \in {"close", "unstrike"} THEN d - 1 ELSE d)
Balanced == ~lostOpen => (Depth(out, 0) >= 0 /\ (ctx = << >> /\ nest = << >> => Depth(out, 0) = 0))
NeverUnbalanced == Depth(out, 0) >= 0
=============================================================================
