------------------------------- MODULE Driver -------------------------------
(***************************************************************************)
(* L2 (mechanism) model of the DRIVING LOOPS of graphtage.tree: what        *)
(* TreeNode.get_all_edit_contexts / get_all_edits (the flat list of edits), *)
(* TreeNode.diff (the annotated tree) and EditedTreeNode.edited_cost do     *)
(* with the edit they get from TreeNode.edits - the single order of public  *)
(* operations every test and the command use (C05 anchors it), and the      *)
(* three "views" whose totals C03 compares.                                 *)
(*                                                                         *)
(* Environment: the top-level edit is a compound edit over N leaf edits;    *)
(* leaf e follows a chain of strictly nested intervals within 0..V ending   *)
(* in a single value; the compound reports the sum and refines its first    *)
(* refinable leaf.  Early = TRUE: its is_complete() answers True from the   *)
(* start ("the shape is final", as MultiSetEdit once matched); FALSE: the   *)
(* default (complete when the interval is a single value).                  *)
(*                                                                         *)
(* pc = "drive"   `while edit.valid and not edit.is_complete() and          *)
(*                 edit.tighten_bounds(): pass' (both entry points)         *)
(* flat view: pc = "pop" / "leaf": the explicit stack of                    *)
(*   get_all_edit_contexts; for a leaf `while lb = 0 and not definitive and *)
(*   tighten: pass', then it is yielded iff its lower bound is positive     *)
(* tree view: pc = "annotate" (on_diff: the top-level edit is entered in    *)
(*   the root's edit_list, every sub-edit in its own node's), then          *)
(*   pc = "cost": edited_cost = `while any(e.tighten_bounds() for e in      *)
(*   edit_list): pass; sum of upper bounds'                                 *)
(*                                                                         *)
(* TLC checks, for every environment: both loops terminate;                 *)
(*   FlatIsExactlyTheCostlyEdits  yielded = the leaves whose final cost is  *)
(*                                positive, each with a positive lower      *)
(*                                bound at the moment it is handed out;     *)
(*   FlatTotal    the final costs of the yielded edits add up to the total; *)
(*   TreeTotal    edited_cost() = the total;                                *)
(*   AnnotatedOnce  every edit is entered in exactly one edit_list once.    *)
(***************************************************************************)
EXTENDS Integers, Sequences, FiniteSets, TLC
CONSTANTS N, V, Early, View
ASSUME View \in {"flat", "tree"} /\ Early \in BOOLEAN
Leaves == 1..N
RECURSIVE Chains(_, _)
Chains(l, h) == IF l = h THEN { << <<l, h>> >> }
                ELSE { << <<l, h>> >> \o c : c \in UNION { Chains(l2, h2) :
                         <<l2, h2>> \in { p \in (l..h) \X (l..h) : p[1] <= p[2] /\ p # <<l, h>> } } }
AllChains == UNION { Chains(l, h) : <<l, h>> \in { p \in (0..V) \X (0..V) : p[1] <= p[2] } }
VARIABLES chain, ptr, pc,
          stack,      \* flat view: the explicit stack (0 = the compound, e = leaf e), top at the end
          cur,        \* flat view: the leaf being looked at
          yielded,    \* flat view: <<leaf, its lower bound when handed out, all positions at that moment>> in order
          lists,      \* tree view: how often each edit (0 = compound) was entered in an edit_list
          cost        \* tree view: what edited_cost() returned (-1 = not yet)
vars == <<chain, ptr, pc, stack, cur, yielded, lists, cost>>
RECURSIVE Sum(_, _)
Sum(f, k) == IF k = 0 THEN 0 ELSE f[k] + Sum(f, k - 1)
Lo(e) == chain[e][ptr[e]][1]
Hi(e) == chain[e][ptr[e]][2]
AtEnd(e) == ptr[e] = Len(chain[e])
TopLo == Sum([e \in Leaves |-> Lo(e)], N)
TopHi == Sum([e \in Leaves |-> Hi(e)], N)
Open == { e \in Leaves : ~AtEnd(e) }
FirstOpen == CHOOSE e \in Open : \A f \in Open : e <= f
TopComplete == IF Early THEN TRUE ELSE TopLo = TopHi
\* top.tighten_bounds(): refines the first refinable leaf; the answer is Open # {}
TopTighten == ptr' = [ptr EXCEPT ![FirstOpen] = @ + 1]
Final(e) == chain[e][Len(chain[e])][1]
FinalCost == Sum([e \in Leaves |-> Final(e)], N)

Init == /\ chain \in [Leaves -> AllChains] /\ ptr = [e \in Leaves |-> 1] /\ pc = "drive"
        /\ stack = << >> /\ cur = 0 /\ yielded = << >> /\ lists = [e \in 0..N |-> 0] /\ cost = -1
\* while edit.valid and not edit.is_complete() and edit.tighten_bounds(): pass
Drive == /\ pc = "drive"
         /\ IF ~TopComplete /\ Open # {}
            THEN TopTighten /\ UNCHANGED <<pc, stack>>
            ELSE /\ UNCHANGED ptr
                 /\ IF View = "flat" THEN pc' = "pop" /\ stack' = << 0 >> ELSE pc' = "annotate" /\ UNCHANGED stack
         /\ UNCHANGED <<chain, cur, yielded, lists, cost>>
\* ancestors, edit = edit_stack.pop(); a compound pushes its sub-edits in reverse
Pop == /\ pc = "pop"
       /\ IF stack = << >> THEN pc' = "done" /\ UNCHANGED <<stack, cur>>
          ELSE LET e == stack[Len(stack)] rest == SubSeq(stack, 1, Len(stack) - 1) IN
               IF e = 0 THEN stack' = rest \o [i \in 1..N |-> N + 1 - i] /\ UNCHANGED <<pc, cur>>
               ELSE stack' = rest /\ cur' = e /\ pc' = "leaf"
       /\ UNCHANGED <<chain, ptr, yielded, lists, cost>>
\* while edit.bounds().lower_bound == 0 and not edit.bounds().definitive() and edit.tighten_bounds(): pass
\* if edit.bounds().lower_bound > 0: yield
Leaf == /\ pc = "leaf"
        /\ IF Lo(cur) = 0 /\ Lo(cur) # Hi(cur) /\ ~AtEnd(cur)
           THEN ptr' = [ptr EXCEPT ![cur] = @ + 1] /\ UNCHANGED <<pc, yielded>>
           ELSE /\ UNCHANGED ptr /\ pc' = "pop"
                /\ yielded' = IF Lo(cur) > 0 THEN Append(yielded, <<cur, Lo(cur), ptr>>) ELSE yielded
        /\ UNCHANGED <<chain, stack, cur, lists, cost>>
\* edit.on_diff(ret): the compound enters itself in the root's list, then every sub-edit in its own node's
Annotate == /\ pc = "annotate" /\ lists' = [e \in 0..N |-> lists[e] + 1] /\ pc' = "cost"
            /\ UNCHANGED <<chain, ptr, stack, cur, yielded, cost>>
\* edited_cost(): while any(e.tighten_bounds() for e in self.edit_list): pass  (the root's list holds the compound)
Cost == /\ pc = "cost"
        /\ IF Open # {} THEN TopTighten /\ UNCHANGED <<pc, cost>>
           ELSE cost' = TopHi /\ pc' = "done" /\ UNCHANGED ptr
        /\ UNCHANGED <<chain, stack, cur, yielded, lists>>
Next == Drive \/ Pop \/ Leaf \/ Annotate \/ Cost
Spec == Init /\ [][Next]_vars /\ WF_vars(Next)

Terminates == <>(pc = "done")
YieldedLeaves == { yielded[i][1] : i \in 1..Len(yielded) }
FlatIsExactlyTheCostlyEdits == (pc = "done" /\ View = "flat") =>
      /\ YieldedLeaves = { e \in Leaves : Final(e) > 0 }
      /\ Len(yielded) = Cardinality(YieldedLeaves)
      /\ \A i \in 1..Len(yielded) : yielded[i][2] > 0
      /\ \A i, j \in 1..Len(yielded) : i < j => yielded[i][1] < yielded[j][1]
FlatTotal == (pc = "done" /\ View = "flat") => Sum([e \in Leaves |-> IF e \in YieldedLeaves THEN Final(e) ELSE 0], N) = FinalCost
TreeTotal == (pc = "done" /\ View = "tree") => cost = FinalCost
AnnotatedOnce == (pc = "done" /\ View = "tree") => \A e \in 0..N : lists[e] = 1
=============================================================================
