----------------------------- MODULE FunctionalMC -----------------------------
EXTENDS Functional
MCKeys == {"k1", "k2", "k3"}
MCVals == {"a", "b"}
MCF == [k \in MCKeys |-> IF k = "k2" THEN "b" ELSE "a"]
=============================================================================
