-------------------------------- MODULE Term --------------------------------
(***************************************************************************)
(* L2 (mechanism) model of graphtage.printer.Printer in colour mode: the    *)
(* stack of ANSI contexts (printer.color / background / bright / dim and    *)
(* their chained forms such as printer.bright().background(R).color(W)),    *)
(* the combining-mark contexts (strike, under_plus), indentation and        *)
(* newline handling - and the TERMINAL the written codes act on.            *)
(*                                                                         *)
(* An attribute triple is <<fore, back, style>>; 0 is "not set" for a       *)
(* context and "default" for the terminal.  A context chain is a sequence   *)
(* of links <<attribute index, value>>, outermost first; entering it        *)
(* computes, link by link against the attributes in force so far, the       *)
(* start code (the value, unless it is already in force) and the end code   *)
(* (the value in force before - or the RESET of that attribute when none    *)
(* was; for the style that is RESET_ALL, which also clears both colours).   *)
(* The end codes are written innermost link first when the context exits.   *)
(* This transcribes ANSIContext._set_codes / __enter__ / __exit__.          *)
(*                                                                         *)
(* Output is a sequence of cells <<character, fore, back, style, marks>>    *)
(* as a terminal would show them.  write() after newline() first writes the *)
(* indentation (raw: it gets no combining marks but the colours in force).  *)
(*                                                                         *)
(* TLC checks for all sequences of <= MaxOps operations:                    *)
(*   Balanced     when every context has been left, the terminal is back to *)
(*                its defaults and no mark is active;                       *)
(*   Faithful     the terminal shows exactly the attributes of the          *)
(*                innermost context - EXCEPT for the named deviation below; *)
(*   MarksAsAsked every cell written through write() carries exactly the    *)
(*                marks of the mark contexts it was written in.             *)
(* NAMED DEVIATION (shared with the code): leaving a style context whose    *)
(* surroundings have no style writes RESET_ALL; if a colour context is      *)
(* still open around it, the terminal loses that colour until the next      *)
(* context is entered (ghost risky = TRUE).  The formatters never open a    *)
(* style inside a colour (they chain style first): no rendering shows it.   *)
(***************************************************************************)
EXTENDS Integers, Sequences, FiniteSets, TLC
CONSTANTS Values,      \* attribute values a link can set, e.g. 1..2
          MaxDepth, MaxOps, MaxIndent
Attr == 1..3           \* 1 fore, 2 back, 3 style
Links == Attr \X Values
Chains == { <<l>> : l \in Links } \cup { <<l1, l2>> : l1 \in Links, l2 \in Links } \cup
          { <<l1, l2, l3>> : l1 \in {<<3, v>> : v \in Values}, l2 \in {<<2, v>> : v \in Values}, l3 \in {<<1, v>> : v \in Values} }
Marks == {"strike", "plus"}
None3 == <<0, 0, 0>>

VARIABLES ctx,        \* stack of entered contexts: [eff |-> attributes in force inside, end |-> end codes, innermost first]
          term,       \* the terminal's attributes
          marks,      \* stack of mark contexts: the set each one ADDED
          indents, lastnl,
          cells,      \* what the terminal shows
          risky,      \* ghost: a style was opened inside a colour whose surroundings have no style (the named deviation)
          nops, lastop
vars == <<ctx, term, marks, indents, lastnl, cells, risky, nops, lastop>>

InForce == IF ctx = << >> THEN None3 ELSE ctx[Len(ctx)].eff
ActiveMarks == UNION { marks[i] : i \in 1..Len(marks) }
\* a code is <<attribute, value>>; value 0 = the RESET of that attribute (RESET_ALL for the style)
Apply(t, code) == IF code[2] = 0 /\ code[1] = 3 THEN None3 ELSE [t EXCEPT ![code[1]] = code[2]]
RECURSIVE ApplyAll(_, _)
ApplyAll(t, codes) == IF codes = << >> THEN t ELSE ApplyAll(Apply(t, Head(codes)), Tail(codes))
\* link by link: <<attributes in force, start codes, end codes (innermost first)>>
RECURSIVE Codes(_, _, _, _)
Codes(chain, eff, start, end) ==
  IF chain = << >> THEN <<eff, start, end>>
  ELSE LET a == Head(chain)[1] v == Head(chain)[2] IN
       IF eff[a] = v THEN Codes(Tail(chain), eff, start, end)
       ELSE Codes(Tail(chain), [eff EXCEPT ![a] = v], Append(start, <<a, v>>), << <<a, eff[a]>> >> \o end)

Init == /\ ctx = << >> /\ term = None3 /\ marks = << >> /\ indents = 0 /\ lastnl = FALSE /\ cells = << >>
        /\ risky = FALSE /\ nops = 0 /\ lastop = <<"init">>
Enter(chain) == /\ Len(ctx) < MaxDepth
                /\ LET c == Codes(chain, InForce, << >>, << >>) IN
                     /\ ctx' = Append(ctx, [eff |-> c[1], end |-> c[3]])
                     /\ term' = ApplyAll(term, c[2])
                /\ risky' = (risky \/ (InForce[3] = 0 /\ (InForce[1] # 0 \/ InForce[2] # 0)
                                        /\ \E i \in 1..Len(chain) : chain[i][1] = 3))
                /\ lastop' = <<"enter", chain>> /\ UNCHANGED <<marks, indents, lastnl, cells>>
Exit == /\ ctx # << >>
        /\ term' = ApplyAll(term, ctx[Len(ctx)].end)
        /\ ctx' = SubSeq(ctx, 1, Len(ctx) - 1)
        /\ lastop' = <<"exit">> /\ UNCHANGED <<marks, indents, lastnl, cells, risky>>
EnterMark(m) == /\ Len(marks) < MaxDepth
                /\ marks' = Append(marks, {m} \ ActiveMarks)       \* __exit__ removes only what this context added
                /\ lastop' = <<"mark", m>> /\ UNCHANGED <<ctx, term, indents, lastnl, cells, risky>>
ExitMark == /\ marks # << >> /\ marks' = SubSeq(marks, 1, Len(marks) - 1)
            /\ lastop' = <<"unmark">> /\ UNCHANGED <<ctx, term, indents, lastnl, cells, risky>>
Indent == indents < MaxIndent /\ indents' = indents + 1 /\ lastop' = <<"indent">> /\ UNCHANGED <<ctx, term, marks, lastnl, cells, risky>>
Dedent == indents > 0 /\ indents' = indents - 1 /\ lastop' = <<"dedent">> /\ UNCHANGED <<ctx, term, marks, lastnl, cells, risky>>
Cell(ch, ms) == <<ch, term[1], term[2], term[3], ms>>
Write(ch) == /\ cells' = cells \o (IF lastnl THEN [i \in 1..(4 * indents) |-> Cell(" ", {})] ELSE << >>) \o << Cell(ch, ActiveMarks) >>
             /\ lastnl' = FALSE /\ lastop' = <<"write", ch>> /\ UNCHANGED <<ctx, term, marks, indents, risky>>
Newline == /\ cells' = Append(cells, Cell("n", {})) /\ lastnl' = TRUE /\ lastop' = <<"newline">>
           /\ UNCHANGED <<ctx, term, marks, indents, risky>>
Next == /\ nops < MaxOps /\ nops' = nops + 1
        /\ \/ \E chain \in Chains : Enter(chain)
           \/ Exit \/ ExitMark \/ Indent \/ Dedent \/ Newline
           \/ \E m \in Marks : EnterMark(m)
           \/ \E ch \in {"x", "y"} : Write(ch)
Spec == Init /\ [][Next]_vars

Balanced == ctx = << >> => term = None3
\* the terminal shows the attributes of the innermost context - unless a style was opened inside a colour (named deviation)
Faithful == ~risky => term = InForce
\* the deviation is real: some behaviour with it leaves the terminal wrong (checked as an expected violation by the binding)
NeverWrong == term = InForce
MarksAsAsked == lastop[1] = "write" => cells[Len(cells)][5] = ActiveMarks
=============================================================================
