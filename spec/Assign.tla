------------------------------- MODULE Assign -------------------------------
(***************************************************************************)
(* L1 contract behind C15: minimum-weight assignment.                       *)
(* A TABLE is a sequence of rows, each a sequence of weights; Missing (-1)  *)
(* marks a pair that does not exist.  A RESULT is a sequence of triples     *)
(* <<row, col, reported weight>>.                                           *)
(*   valid:   no row and no column occurs twice, every pair exists in the   *)
(*            table and is reported with its true weight;                   *)
(*   optimal: if no pair is missing, as many items as possible are paired   *)
(*            (min(rows, cols)) and the total weight is the smallest        *)
(*            achievable - MinTotal, computed by brute force over all       *)
(*            injections.                                                   *)
(***************************************************************************)
EXTENDS Integers, Sequences, FiniteSets, TLC
Missing == -1
VARIABLES table, result, outcome      \* outcome: "pending" | "returned" | "raised"
avars == <<table, result, outcome>>
NR == Len(table)
NC == IF Len(table) = 0 THEN 0 ELSE Len(table[1])
Complete == \A r \in 1..NR, c \in 1..NC : table[r][c] # Missing
Min2(a, b) == IF a < b THEN a ELSE b
Big == 1000000
\* cheapest way to assign rows r..NR to distinct columns not in `used` (all rows must be assigned): NR <= NC
RECURSIVE BestRows(_, _)
BestRows(r, used) ==
  IF r > NR THEN 0
  ELSE LET opts == {table[r][c] + BestRows(r + 1, used \cup {c}) : c \in (1..NC) \ used}
       IN IF opts = {} THEN Big ELSE CHOOSE m \in opts : \A o \in opts : m <= o
\* ... and columns c..NC to distinct rows: NC < NR
RECURSIVE BestCols(_, _)
BestCols(c, used) ==
  IF c > NC THEN 0
  ELSE LET opts == {table[r][c] + BestCols(c + 1, used \cup {r}) : r \in (1..NR) \ used}
       IN IF opts = {} THEN Big ELSE CHOOSE m \in opts : \A o \in opts : m <= o
MinTotal == IF NR <= NC THEN BestRows(1, {}) ELSE BestCols(1, {})
RECURSIVE Sum(_)
Sum(s) == IF s = << >> THEN 0 ELSE s[1][3] + Sum(Tail(s))
Rows(res) == {res[k][1] : k \in 1..Len(res)}
Cols(res) == {res[k][2] : k \in 1..Len(res)}

Clauses(res, raised) == <<
  <<"assignment-raised-an-error", ~raised>>,
  <<"a-row-is-paired-twice", ~raised => Cardinality(Rows(res)) = Len(res)>>,
  <<"a-column-is-paired-twice", ~raised => Cardinality(Cols(res)) = Len(res)>>,
  <<"a-pair-is-outside-the-table", ~raised => \A k \in 1..Len(res) : res[k][1] \in 1..NR /\ res[k][2] \in 1..NC>>,
  <<"a-missing-pair-is-used",
       ~raised => \A k \in 1..Len(res) : (res[k][1] \in 1..NR /\ res[k][2] \in 1..NC) => table[res[k][1]][res[k][2]] # Missing>>,
  <<"reported-weight-is-not-the-true-weight",
       ~raised => \A k \in 1..Len(res) : (res[k][1] \in 1..NR /\ res[k][2] \in 1..NC) => res[k][3] = table[res[k][1]][res[k][2]]>>,
  <<"not-as-many-items-paired-as-possible", (~raised /\ Complete) => Len(res) = Min2(NR, NC)>>,
  <<"total-weight-is-not-minimal", (~raised /\ Complete /\ Len(res) = Min2(NR, NC)) => Sum(res) = MinTotal>> >>
FirstFail(cs) == LET bad == {i \in DOMAIN cs : ~cs[i][2]}
                 IN IF bad = {} THEN "" ELSE cs[CHOOSE i \in bad : \A m \in bad : i <= m][1]

(* Model checking / generation: all tables of the given shapes over Weights \cup {Missing}.  The design check:
   a brute-force solver (any injection attaining MinTotal) satisfies every clause.                           *)
CONSTANTS Shapes, Weights
\* named shape sets for configurations (cfg files cannot hold tuples)
ShapesSmall == {<<1, 1>>, <<1, 2>>, <<2, 1>>, <<2, 2>>}
ShapesMid == ShapesSmall \cup {<<1, 3>>, <<3, 1>>, <<2, 3>>, <<3, 2>>}
ShapesFull == ShapesMid \cup {<<3, 3>>}
Tables == UNION {[1..s[1] -> [1..s[2] -> Weights \cup {Missing}]] : s \in Shapes}
Init == table \in Tables /\ result = << >> /\ outcome = "pending"
Injections(n, m) == {f \in [1..n -> 1..m] : \A a, b \in 1..n : a # b => f[a] # f[b]}
Solve ==
  /\ outcome = "pending" /\ Complete
  /\ \E f \in (IF NR <= NC THEN Injections(NR, NC) ELSE Injections(NC, NR)) :
       LET res == IF NR <= NC THEN [r \in 1..NR |-> <<r, f[r], table[r][f[r]]>>]
                  ELSE [c \in 1..NC |-> <<f[c], c, table[f[c]][c]>>]
       IN /\ Sum(res) = MinTotal
          /\ result' = res
  /\ outcome' = "returned" /\ UNCHANGED table
Spec == Init /\ [][Solve]_avars
ContractHolds == outcome = "returned" => FirstFail(Clauses(result, FALSE)) = ""
=============================================================================
