------------------------------ MODULE Builder ------------------------------
(***************************************************************************)
(* C18: converting Python object graphs into trees.                         *)
(*                                                                         *)
(* An OBJECT GRAPH G is a sequence of container objects; object n is a      *)
(* record [kind, kids] with kind in {"list","tuple","dict"} and kids a      *)
(* sequence of TARGETS: a positive number k is the container object k (so   *)
(* sharing and cycles are expressible), a negative number -s is the scalar  *)
(* Scalars[s].  For a dict the i-th kid is the value under key Keys[i].     *)
(*                                                                         *)
(* L1 (Unfold): the abstract value of an object is its PATH SET - the set   *)
(* of <<path, leaf>> with path a sequence of strings (list index, "k:"key)  *)
(* - tuples read back as lists; a container contributes a marker leaf so    *)
(* that empty containers count.  With cycle ignoring, a back edge to an     *)
(* object currently being unfolded contributes the leaf "CYC".              *)
(*                                                                         *)
(* L2 (the work-stack machine of Builder.build_tree): Descend / DetectCycle *)
(* / Placeholder / Build / Finish.  TLC checks that the machine terminates  *)
(* and that its result equals Unfold for every graph within the constants   *)
(* (refinement of L1), that sharing is never reported as a cycle, and that  *)
(* a reachable cycle gives a cycle error or placeholders.                   *)
(***************************************************************************)
EXTENDS Integers, Sequences, FiniteSets, TLC
CONSTANTS Scalars,      \* sequence of scalar labels, e.g. <<"int:1", "str:a">>
          Keys          \* sequence of key labels for dict slots, e.g. <<"k:str:a", "k:str:b">>
VARIABLES G, root, opts,          \* the input: graph, root object, [check, ignore]
          work,                   \* stack of [node, built (seq of path sets), pending (seq of targets)]
          outcome, value          \* "running" | "value" | "cycle-error" ;  path set of the result
bvars == <<G, root, opts, work, outcome, value>>

IsObj(t) == t > 0
Nat2Str(i) == ToString(i)
IsSetKind(kind) == kind \in {"set", "fset"}         \* Python sets: hashable (here: scalar) members only, read back as multisets
Marker(kind) == IF kind = "dict" THEN "map" ELSE IF IsSetKind(kind) THEN "mset" ELSE "list"
Label(kind, i) == IF kind = "dict" THEN Keys[i] ELSE Nat2Str(i - 1)
Prefix(lbl, ps) == {<<<<lbl>> \o p[1], p[2]>> : p \in ps}
\* path set of a container from the path sets of its kids
\* the members of a set are labelled by their own value (a set has no positions; equal members coincide)
MemberLabel(ps) == "e:" \o (CHOOSE p \in ps : p[1] = << >>)[2] \o "#0"
Assemble(kind, built) ==
  {<< << >>, Marker(kind)>>} \cup
     UNION {Prefix(IF IsSetKind(kind) THEN MemberLabel(built[i]) ELSE Label(kind, i), built[i]) : i \in 1..Len(built)}
ScalarPS(t) == {<< << >>, Scalars[0 - t]>>}
CycPS == {<< << >>, "CYC">>}

\* ---- L1: Unfold ---------------------------------------------------------------------------------
RECURSIVE Unfold(_, _, _)
\* anc: objects currently being unfolded.  A back edge unfolds to CYC (only meaningful when cycles are ignored).
Unfold(g, t, anc) ==
  IF ~IsObj(t) THEN ScalarPS(t)
  ELSE IF t \in anc THEN CycPS
  ELSE Assemble(g[t].kind, [i \in 1..Len(g[t].kids) |-> Unfold(g, g[t].kids[i], anc \cup {t})])
RECURSIVE HasCycleFrom(_, _, _)
HasCycleFrom(g, t, anc) ==
  IsObj(t) /\ (t \in anc \/ \E i \in 1..Len(g[t].kids) : HasCycleFrom(g, g[t].kids[i], anc \cup {t}))
Cyclic(g, r) == HasCycleFrom(g, r, {})

\* what any faithful converter must deliver (the entry point decides which of these apply)
Expected(g, r, o) ==
  IF ~Cyclic(g, r) THEN [outcome |-> "value", value |-> Unfold(g, r, {})]
  ELSE IF o.check /\ ~o.ignore THEN [outcome |-> "cycle-error", value |-> {}]
  ELSE IF o.check /\ o.ignore THEN [outcome |-> "value", value |-> Unfold(g, r, {})]
  ELSE [outcome |-> "unspecified", value |-> {}]

\* ---- L2: the work-stack machine ------------------------------------------------------------------
Top == work[Len(work)]
Ancestors == {work[k].node : k \in 1..Len(work)}
Expand(t) == IF IsObj(t) THEN G[t].kids ELSE << >>
AllLeaves(kids) == \A i \in 1..Len(kids) : Expand(kids[i]) = << >>
SetTop(fr) == [work EXCEPT ![Len(work)] = fr]
PushBuilt(w, ps) == [w EXCEPT ![Len(w)].built = Append(@, ps)]

Init0 == work = <<[node |-> root, built |-> << >>, pending |-> Expand(root)]>> /\ outcome = "running" /\ value = {}
\* take the next pending child of the top frame
Descend ==
  /\ outcome = "running" /\ work # << >> /\ Top.pending # << >>
  /\ LET child == Head(Top.pending)
         rest == [Top EXCEPT !.pending = Tail(@)]
         grandkids == Expand(child)
         mustCheck == grandkids # << >> /\ opts.check /\ ~AllLeaves(grandkids)
     IN IF mustCheck /\ child \in Ancestors
        THEN \* DetectCycle
             IF opts.ignore
             THEN work' = PushBuilt(SetTop(rest), CycPS) /\ UNCHANGED <<outcome, value>>      \* Placeholder
             ELSE outcome' = "cycle-error" /\ UNCHANGED <<work, value>>
        ELSE work' = Append(SetTop(rest), [node |-> child, built |-> << >>, pending |-> grandkids])
             /\ UNCHANGED <<outcome, value>>
  /\ UNCHANGED <<G, root, opts>>
\* all children of the top frame are built: build the node itself
Build ==
  /\ outcome = "running" /\ work # << >> /\ Top.pending = << >>
  /\ LET ps == IF IsObj(Top.node) THEN Assemble(G[Top.node].kind, Top.built) ELSE ScalarPS(Top.node)
     IN IF Len(work) = 1
        THEN outcome' = "value" /\ value' = ps /\ work' = << >>                                  \* Finish
        ELSE work' = PushBuilt(SubSeq(work, 1, Len(work) - 1), ps) /\ UNCHANGED <<outcome, value>>
  /\ UNCHANGED <<G, root, opts>>
Next == Descend \/ Build
MaxDepth == 12
Spec == Init0 /\ [][Next]_bvars /\ WF_bvars(Next)

\* refinement of L1, checked by TLC for every graph of the generator's space (only meaningful while the
\* stack is bounded: a cyclic graph without cycle checking never terminates, which the constraint cuts off)
Faithful ==
  outcome # "running" =>
    LET e == Expected(G, root, opts) IN
    e.outcome # "unspecified" => (outcome = e.outcome /\ (outcome = "value" => value = e.value))
SharingIsNotACycle == (outcome = "cycle-error") => Cyclic(G, root)
Terminates == (opts.check \/ ~Cyclic(G, root)) => <>(outcome # "running")
Bounded == Len(work) <= MaxDepth
=============================================================================
