------------------------------ MODULE AssignGen ------------------------------
(* Table generator for C15: TLC enumerates every table of the given shapes and
   prints it; the harness calls the real min_weight_bipartite_matching on it
   (as ints, floats, bools, and shifted to dtype boundaries).               *)
EXTENDS Assign, Json
GenSpec == Init /\ [][FALSE]_avars
Emit == PrintT(ToJson(table))
=============================================================================
