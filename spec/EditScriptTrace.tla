-------------------------- MODULE EditScriptTrace --------------------------
(* Trace validation: the flattened edit script of a real comparison (and the
   other views of the same comparison) is consumed event by event by the
   actions of EditScript.  One behaviour per recorded comparison (tid);
   the verdict lists, per property, the first clause that was broken.     *)
EXTENDS EditScript, Json, IOUtils
Traces == JsonDeserialize(IOEnv.TRACE_FILE)
VARIABLES tid, l
tvars == <<F, T, O, stack, removed, inserted, nonkeep, total, errs, tid, l>>
Ev == Traces[tid].ev
SetOf(s) == {s[k] : k \in 1..Len(s)}
Views(e, step) ==
  /\ Closed
  /\ Record(WholeClauses \o ViewClauses([top |-> e.top, edited |-> e.edited, flat |-> e.flat,
                                          annRemoved |-> SetOf(e.annRemoved), annInserted |-> SetOf(e.annInserted),
                                          hadEdits |-> e.hadEdits, ann |-> e.ann, chained |-> e.chained,
                                          partsFirst |-> e.partsFirst]), step)
  /\ UNCHANGED <<docvars, stack, removed, inserted, nonkeep, total>>
\* comparisons observed without the extra views (e.g. scripts recorded from the repository's own tests)
Whole(step) ==
  /\ Closed
  /\ Record(WholeClauses, step)
  /\ UNCHANGED <<docvars, stack, removed, inserted, nonkeep, total>>
TraceInit == /\ tid \in 1..Len(Traces) /\ l = 1
             /\ F = Traces[tid].F /\ T = Traces[tid].T /\ O = Traces[tid].O
             /\ Init0
TraceNext ==
  /\ l <= Len(Ev) /\ l' = l + 1 /\ UNCHANGED tid
  /\ LET e == Ev[l] IN
       \/ e.e = "keep"   /\ Keep(e.i, e.j, l)
       \/ e.e = "change" /\ Change(e.i, e.j, e.c, l)
       \/ e.e = "open"   /\ Open(e.i, e.j, l)
       \/ e.e = "remove" /\ Remove(e.i, e.c, l)
       \/ e.e = "insert" /\ Insert(e.j, e.c, l)
       \/ e.e = "self"   /\ SelfMatch(l)
       \/ e.e = "close"  /\ Close(e.r, l)
       \/ e.e = "views"  /\ Views(e, l)
       \/ e.e = "whole"  /\ Whole(l)
TraceSpec == TraceInit /\ [][TraceNext]_tvars
Done == l > Len(Ev)
Report == Done => PrintT(ToJson([tid |-> tid, v |-> "DONE", errs |-> errs]))
=============================================================================
