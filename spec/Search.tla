------------------------------ MODULE Search ------------------------------
(***************************************************************************)
(* L2 (mechanism) model of graphtage.search.IterativeTighteningSearch:     *)
(* one TLC step per iteration of the `while True` loop of tighten_bounds,  *)
(* the two heaps abstracted to sets of entries with possibly stale keys    *)
(* (a key is refreshed only when the lower bound rose, as in the code;     *)
(* peek returns ANY minimum).  Environment: every item follows one chain   *)
(* of strictly nested intervals chosen in Init - all sound tightening      *)
(* schedules.  TLC checks Correct (ends with an item of minimum final cost *)
(* and bounds equal to it) and termination under weak fairness.            *)
(* Simplifications: no initial_bounds; the single-untightened fast path,   *)
(* the goal_test shortcut and dominated-node deletion are not transcribed  *)
(* (they only prune).  A counterexample here is a lead, replayed on the    *)
(* code before it counts (DESIGN 6.1).                                     *)
(***************************************************************************)
EXTENDS Integers, Sequences, FiniteSets, TLC
CONSTANTS NItems, V
Items == 1..NItems
Inf == 1000
RECURSIVE Chains(_, _)
Chains(l, h) == IF l = h THEN { << <<l, h>> >> }
                ELSE { << <<l, h>> >> \o c : c \in UNION { Chains(l2, h2) :
                         <<l2, h2>> \in { p \in (l..h) \X (l..h) : p[1] <= p[2] /\ p # <<l, h>> } } }
AllChains == UNION { Chains(l, h) : <<l, h>> \in { p \in (0..V) \X (0..V) : p[1] <= p[2] } }
VARIABLES chain, ptr, next, untight, tight, pc, start, lastret, calls
vars == <<chain, ptr, next, untight, tight, pc, start, lastret, calls>>
Lo(i) == chain[i][ptr[i]][1]
Hi(i) == chain[i][ptr[i]][2]
Fin(i) == chain[i][Len(chain[i])][1]
Def(i) == Lo(i) = Hi(i)
KeyLt(a, b) == a.khi < b.khi \/ (a.khi = b.khi /\ a.klo < b.klo)
RangeLt(l1, h1, l2, h2) == h1 < h2 \/ (h1 = h2 /\ l1 < l2)
Mins(S) == { e \in S : \A f \in S : ~KeyLt(f, e) }
Exhausted == next > NItems
BestSet == IF ~Exhausted \/ (untight = {} /\ tight = {}) THEN {}
           ELSE IF tight # {} /\ untight # {}
                THEN { IF RangeLt(Lo(u.i), Hi(u.i), Lo(t.i), Hi(t.i)) THEN u.i ELSE t.i : u \in Mins(untight), t \in Mins(tight) }
                ELSE IF tight # {} THEN { t.i : t \in Mins(tight) } ELSE { u.i : u \in Mins(untight) }
MinOf(S) == CHOOSE x \in S : \A y \in S : x <= y
BoundsWith(b) == LET lb == MinOf({ e.klo : e \in untight \cup tight })
                 IN << IF lb < Hi(b) THEN lb ELSE Hi(b), Hi(b) >>
BoundsSet == IF BestSet = {} THEN { <<-Inf, Inf>> } ELSE { BoundsWith(b) : b \in BestSet }
Init == /\ chain \in [Items -> AllChains]
        /\ ptr = [i \in Items |-> 1] /\ next = 1 /\ untight = {} /\ tight = {}
        /\ pc = "idle" /\ start = <<-Inf, Inf>> /\ lastret = TRUE /\ calls = 0
Call == /\ pc = "idle" /\ lastret = TRUE
        /\ \E b \in BoundsSet : start' = b
        /\ pc' = "loop" /\ calls' = calls + 1
        /\ UNCHANGED <<chain, ptr, next, untight, tight, lastret>>
Entry(i, p) == [i |-> i, klo |-> chain[i][p][1], khi |-> chain[i][p][2]]
Loop ==
  /\ pc = "loop"
  /\ LET pulled == ~Exhausted
         i0 == next
         un1 == IF pulled /\ ~Def(i0) THEN untight \cup {Entry(i0, ptr[i0])} ELSE untight
         ti1 == IF pulled /\ Def(i0) THEN tight \cup {Entry(i0, ptr[i0])} ELSE tight
         nx1 == IF pulled THEN next + 1 ELSE next
         exh1 == nx1 > NItems
     IN
     IF un1 = {} THEN
        /\ next' = nx1 /\ untight' = un1 /\ tight' = ti1 /\ UNCHANGED <<chain, ptr>>
        /\ LET bs == IF ~exh1 \/ (un1 = {} /\ ti1 = {}) THEN <<-Inf, Inf>>
                     ELSE LET b == (CHOOSE t \in Mins(ti1) : TRUE).i
                              lb == MinOf({ e.klo : e \in ti1 })
                          IN << IF lb < chain[b][ptr[b]][2] THEN lb ELSE chain[b][ptr[b]][2], chain[b][ptr[b]][2] >>
           IN IF start[1] < bs[1] \/ start[2] > bs[2] THEN pc' = "idle" /\ lastret' = TRUE
              ELSE IF exh1 THEN pc' = "idle" /\ lastret' = FALSE
              ELSE pc' = "loop" /\ UNCHANGED lastret
        /\ UNCHANGED <<start, calls>>
     ELSE
        \E e \in Mins(un1) :
          LET i == e.i
              canT == ptr[i] < Len(chain[i])
              p2 == IF canT THEN ptr[i] + 1 ELSE ptr[i]
              lo2 == chain[i][p2][1]  hi2 == chain[i][p2][2]
              def2 == lo2 = hi2
          IN /\ ptr' = [ptr EXCEPT ![i] = p2]
             /\ next' = nx1
             /\ UNCHANGED chain
             /\ IF ~canT THEN untight' = un1 /\ tight' = ti1
                ELSE IF def2 THEN untight' = un1 \ {e} /\ tight' = ti1 \cup {Entry(i, p2)}
                ELSE IF lo2 > e.klo THEN untight' = (un1 \ {e}) \cup {Entry(i, p2)} /\ tight' = ti1
                ELSE untight' = un1 /\ tight' = ti1
             /\ pc' = "check" /\ UNCHANGED <<start, calls, lastret>>
Check == /\ pc = "check"
         /\ \E b \in BoundsSet :
              IF start[1] < b[1] \/ start[2] > b[2] THEN pc' = "idle" /\ lastret' = TRUE
              ELSE pc' = "loop" /\ UNCHANGED lastret
         /\ UNCHANGED <<chain, ptr, next, untight, tight, start, calls>>
Next == Call \/ Loop \/ Check
Spec == Init /\ [][Next]_vars /\ WF_vars(Next)
MinFin == MinOf({ Fin(i) : i \in Items })
Done == pc = "idle" /\ lastret = FALSE
Correct == Done => /\ BestSet # {}
                   /\ \A b \in BestSet : Fin(b) = MinFin
                   /\ \A bd \in BoundsSet : bd = <<MinFin, MinFin>>
Terminates == <>Done
=============================================================================
