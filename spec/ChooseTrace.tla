---------------------------- MODULE ChooseTrace ----------------------------
(* Validation of recorded edit selections against Choose.tla: each record holds the descriptors of two real nodes and
   what the real a.edits(b) returned (class of the edit, its cost when the edit is of constant cost, the insert / remove
   penalty of an EditDistance); TLC evaluates Chosen on the descriptors and names the first field that disagrees. *)
EXTENDS Choose, Json, IOUtils
Traces == JsonDeserialize(IOEnv.TRACE_FILE)
VARIABLES tid
Rec == Traces[tid]
Want == Chosen(Rec.a, Rec.b)
Verdict == IF Want[1] # Rec.cls THEN "edit-class"
           ELSE IF Want[2] >= 0 /\ Want[2] # Rec.cost THEN "constant-cost"
           ELSE IF Want[2] = -2 /\ Rec.cost <= 0 THEN "unequal-leaves-matched-at-no-cost"
           ELSE IF Want[3] >= 0 /\ Want[3] # Rec.penalty THEN "insert-remove-penalty"
           ELSE ""
TraceInit == tid \in 1..Len(Traces) /\ a = Rec.a /\ b = Rec.b
TraceNext == UNCHANGED <<a, b, tid>>
TraceSpec == TraceInit /\ [][TraceNext]_<<a, b, tid>>
Report == PrintT(ToJson([tid |-> tid, v |-> IF Verdict = "" THEN "ACCEPT" ELSE "REJECT", step |-> 1, clause |-> Verdict,
                         want |-> Want[1]]))
=============================================================================
