------------------------------ MODULE MultiSet ------------------------------
(***************************************************************************)
(* L2 (mechanism) model of graphtage.multiset.MultiSetEdit, the edit of     *)
(* every unordered collection (multisets, and mappings as multisets of      *)
(* key/value pairs).  It composes                                           *)
(*   - NK key/value edits matched up front by equal keys (bounded objects   *)
(*     following their own chains, refined first, in order),                *)
(*   - a WeightedBipartiteMatcher over the N unshared elements of the first *)
(*     collection and the M unshared elements of the second (Matcher.tla,   *)
(*     extended here: its actions are this module's internal steps),        *)
(*   - Remove / Insert edits of constant cost RS[i] / IS[j] for whatever    *)
(*     the matching leaves unpaired.                                        *)
(* bounds(): matcher + key/value edits + the unmatched part, which is exact *)
(* once the matching is known and otherwise the |N - M| cheapest .. most    *)
(* expensive removals (insertions).                                         *)
(* tighten_bounds(): a key/value edit if one can move; else the matcher;    *)
(* else, if the matcher is single-valued before it ever computed a          *)
(* matching, force the matching and report whether the total shrank.        *)
(* (The last two paragraphs are the repaired code of finding F3.)           *)
(*                                                                         *)
(* Elements are assumed pairwise unequal (duplicates: known findings F17 /  *)
(* F20).  TLC checks for all environments, all internal choices and all     *)
(* orders of <= MaxOps public operations: MNeverWidens, MProgressShrinks,   *)
(* MQuiescentDefinitive, MReturns, and that the edits listed once           *)
(* everything is refined cost exactly what bounds() says (MSumOfParts, the  *)
(* mechanism side of C03).                                                  *)
(***************************************************************************)
EXTENDS Matcher
CONSTANTS NK,        \* number of pre-matched key/value edits
          RS, IS     \* removal cost per row, insertion cost per column (sequences)
VARIABLES kchain, kptr,          \* the key/value edits
          mpc,                   \* "idle" | "tighten" | "force" | "edits"
          minit,                 \* bounds remembered before forcing the matching
          mnops, mlast, mlo, mhi, mseen
mvars == <<kchain, kptr, mpc, minit, mnops, mlast, mlo, mhi, mseen>>
allvars == <<vars, mvars>>
KV == 1..NK
KLo(k) == kchain[k][kptr[k]][1]
KHi(k) == kchain[k][kptr[k]][2]
RECURSIVE SumTo(_, _)
SumTo(f, n) == IF n = 0 THEN 0 ELSE f[n] + SumTo(f, n - 1)
KSumLo == SumTo([k \in KV |-> KLo(k)], NK)
KSumHi == SumTo([k \in KV |-> KHi(k)], NK)
\* the unmatched part of bounds(), as a pair <<lo, hi>>
Unmatched ==
  IF matched
  THEN LET ur == {i \in 1..N : \A e \in match : e[1] # i}
           uc == {j \in 1..M : \A e \in match : e[2] # j}
           c == SumSet([i \in ur |-> RS[i]], ur) + SumSet([j \in uc |-> IS[j]], uc)
       IN <<c, c>>
  ELSE IF N > M THEN <<Smallest([i \in 1..N |-> RS[i]], 1..N, N - M), Largest([i \in 1..N |-> RS[i]], 1..N, N - M)>>
  ELSE IF M > N THEN <<Smallest([j \in 1..M |-> IS[j]], 1..M, M - N), Largest([j \in 1..M |-> IS[j]], 1..M, M - N)>>
  ELSE <<0, 0>>
MCur == <<Cur[1] + KSumLo + Unmatched[1], Cur[2] + KSumHi + Unmatched[2]>>

MInit == /\ Init
         /\ kchain \in [KV -> D!AllChains] /\ kptr = [k \in KV |-> 1]
         /\ mpc = "idle" /\ minit = <<0, 0>> /\ mnops = 0 /\ mlast = <<"init">> /\ mlo = 0 /\ mhi = 0 /\ mseen = FALSE
MIdle == mpc = "idle" /\ pc = "idle" /\ mnops < MaxOps
\* bounds(): reads the matcher's bounds (which may memoise them)
MOpBounds == /\ MIdle /\ mnops' = mnops + 1
             /\ DoBounds /\ UNCHANGED nops
             /\ mlast' = <<"bounds", MCur[1], MCur[2]>> /\ mlo' = MCur[1] /\ mhi' = MCur[2] /\ mseen' = TRUE
             /\ UNCHANGED <<kchain, kptr, mpc, minit>>
MOpComplete == /\ MIdle /\ mnops' = mnops + 1 /\ mlast' = <<"is_complete", matched>>
               /\ UNCHANGED <<vars, kchain, kptr, mpc, minit, mlo, mhi, mseen>>
\* tighten_bounds(), first statement block
MOpTighten ==
  /\ MIdle /\ mnops' = mnops + 1
  /\ LET open == {k \in KV : kptr[k] < Len(kchain[k])} IN
     IF open # {}
     THEN /\ kptr' = [kptr EXCEPT ![CHOOSE k \in open : \A k2 \in open : k <= k2] = @ + 1]
          /\ mlast' = <<"tighten", TRUE>> /\ minit' = MCur
          /\ UNCHANGED <<vars, kchain, mpc, mlo, mhi, mseen>>
     ELSE /\ DoTighten /\ UNCHANGED nops                  \* self._matcher.tighten_bounds()
          /\ mpc' = "tighten" /\ mlast' = <<"tighten-running">> /\ minit' = MCur
          /\ UNCHANGED <<kchain, kptr, mlo, mhi, mseen>>
\* the matcher's tighten_bounds() has returned
MAfterTighten ==
  /\ mpc = "tighten" /\ pc = "idle"
  /\ IF lastop = <<"tighten", TRUE>>
     THEN mpc' = "idle" /\ mlast' = <<"tighten", TRUE>> /\ UNCHANGED <<vars, minit>>
     ELSE IF ~matched
          THEN /\ DoMatching /\ UNCHANGED nops /\ mpc' = "force" /\ minit' = <<MCur[1], MCur[2]>> /\ UNCHANGED mlast      \* _ = self._matcher.matching
          ELSE mpc' = "idle" /\ mlast' = <<"tighten", FALSE>> /\ UNCHANGED <<vars, minit>>
  /\ UNCHANGED <<kchain, kptr, mnops, mlo, mhi, mseen>>
MAfterForce ==
  /\ mpc = "force" /\ pc = "idle"
  /\ mpc' = "idle" /\ mlast' = <<"tighten", MCur[1] > minit[1] \/ MCur[2] < minit[2]>>
  /\ UNCHANGED <<vars, kchain, kptr, minit, mnops, mlo, mhi, mseen>>
\* edits(): needs the matching
MOpEdits == /\ MIdle /\ mnops' = mnops + 1
            /\ DoMatching /\ UNCHANGED nops /\ mpc' = "edits" /\ mlast' = <<"edits-running">>
            /\ UNCHANGED <<kchain, kptr, minit, mlo, mhi, mseen>>
MAfterEdits == /\ mpc = "edits" /\ pc = "idle" /\ mpc' = "idle" /\ mlast' = <<"edits">>
               /\ UNCHANGED <<vars, kchain, kptr, minit, mnops, mlo, mhi, mseen>>
\* the matcher's internal steps are internal steps here
MInternalMatcher == mpc # "idle" /\ Internal /\ UNCHANGED mvars
MInternal == MInternalMatcher \/ MAfterTighten \/ MAfterForce \/ MAfterEdits
MNext == MOpBounds \/ MOpComplete \/ MOpTighten \/ MOpEdits \/ MInternal
MSpec == MInit /\ [][MNext]_allvars /\ WF_allvars(MInternal)

MNeverWidens == [][mseen /\ mseen' => mlo' >= mlo /\ mhi' <= mhi]_allvars
MStepNeverWidens == [][MCur'[1] >= MCur[1] /\ MCur'[2] <= MCur[2]]_allvars
MProgressShrinks == (mpc = "idle" /\ mlast = <<"tighten", TRUE>>) =>
                       (MCur[1] >= minit[1] /\ MCur[2] <= minit[2] /\ (MCur[1] > minit[1] \/ MCur[2] < minit[2]))
MQuiescentDefinitive == (mpc = "idle" /\ mlast = <<"tighten", FALSE>>) => MCur[1] = MCur[2]
MReturns == [](mpc # "idle" => <>(mpc = "idle"))
\* once nothing can move any more the listed edits (key/value edits, matched pairs, removals, insertions) add up to bounds()
Exhausted == matched /\ (\A k \in KV : kptr[k] = Len(kchain[k])) /\ \A e \in match : ptr[Id(e[1], e[2])] = Len(chain[Id(e[1], e[2])])
MSumOfParts == Exhausted => MCur[1] = MCur[2]
=============================================================================
