------------------------------ MODULE FibHeap ------------------------------
(***************************************************************************)
(* L2 (mechanism) model of graphtage.fibonacci.FibonacciHeap, one operator *)
(* per method of the code:                                                 *)
(*   AppendRoot RemoveRoot AddChild RemoveChild Link Consolidate Cut       *)
(*   CascadingCut ExtractMin  and the public  Push Pop Peek DecreaseKey    *)
(*   Remove.                                                               *)
(* The circular sibling lists are modelled as sequences in ring order,     *)
(* starting at the entry pointer (heap._root for the root list, node.child *)
(* for a child list): `x.right` is the next element, wrapping around.      *)
(*                                                                         *)
(* TLC checks the structural invariants of the data structure and that the *)
(* model refines PQ.tla (what pop/peek return is a minimal live item, the  *)
(* size is the number of live items).  The model is also the DIRECTED      *)
(* GENERATOR of C16: behaviours that reach a cascading cut through a       *)
(* marked node, or a consolidation linking several trees, are printed and  *)
(* replayed on the real heap (they need 7 or more operations, out of reach *)
(* of blind enumeration).  Disagreement between this model and the code is *)
(* MODEL-DRIFT, never a verdict.                                           *)
(***************************************************************************)
EXTENDS Integers, Sequences, FiniteSets, TLC
CONSTANTS Keys, MaxNodes, MaxOps
VARIABLES node,      \* id -> [key, parent, kids, mark, deleted]   (parent 0 = none)
          roots,     \* root ring, starting at heap._root
          min,       \* id of heap._min, 0 = None
          n,         \* heap._n
          nextId, nops,
          hist,      \* operations so far (for replay)
          ret,       \* what the last pop/peek returned (id), 0 otherwise
          links, cuts, cascades    \* structural events so far (coverage / directed generation)
vars == <<node, roots, min, n, nextId, nops, hist, ret, links, cuts, cascades>>

Ids == DOMAIN node
Live == {i \in Ids : ~node[i].deleted /\ (i \in {roots[k] : k \in 1..Len(roots)} \/ node[i].parent # 0)}
\* HeapNode.__lt__ / __le__
Lt(s, a, b) == (s[a].deleted /\ ~s[b].deleted) \/ s[a].key < s[b].key
Le(s, a, b) == Lt(s, a, b) \/ s[a].key = s[b].key
Without(seq, x) == SelectSeq(seq, LAMBDA y : y # x)
InsertSecond(seq, x) == IF seq = << >> THEN <<x>> ELSE <<seq[1], x>> \o SubSeq(seq, 2, Len(seq))
\* ring successor of x in seq
RightOf(seq, x) == LET k == CHOOSE j \in 1..Len(seq) : seq[j] = x IN seq[(k % Len(seq)) + 1]
\* rotate seq so that it starts at x
StartAt(seq, x) == LET k == CHOOSE j \in 1..Len(seq) : seq[j] = x IN SubSeq(seq, k, Len(seq)) \o SubSeq(seq, 1, k - 1)

(* A heap state as a record, so that the method bodies can be composed as operators *)
H == [node |-> node, roots |-> roots, min |-> min, n |-> n, links |-> links, cuts |-> cuts, cascades |-> cascades]

AppendRoot(h, x) == [h EXCEPT !.roots = InsertSecond(@, x)]
RemoveRoot(h, x) ==
  IF h.roots[1] = x THEN [h EXCEPT !.roots = Tail(@)]          \* _root = node.right, then unlink
  ELSE [h EXCEPT !.roots = Without(@, x)]
AddChild(h, p, c) == [h EXCEPT !.node[p].kids = InsertSecond(@, c)]
RemoveChild(h, p, c) ==
  LET ks == h.node[p].kids IN
  IF Len(ks) = 1 THEN [h EXCEPT !.node[p].kids = << >>]
  ELSE IF ks[1] = c THEN [h EXCEPT !.node[p].kids = Tail(ks)]
  ELSE [h EXCEPT !.node[p].kids = Without(ks, c)]
\* _link(y, x): y becomes a child of x
Link(h, y, x) ==
  LET h1 == RemoveRoot(h, y)
      h2 == AddChild(h1, x, y)
  IN [h2 EXCEPT !.node[y].parent = x, !.node[y].mark = FALSE, !.links = @ + 1]
\* _cut(x, y)
Cut(h, x, y) ==
  LET h1 == RemoveChild(h, y, x)
      h2 == AppendRoot(h1, x)
  IN [h2 EXCEPT !.node[x].parent = 0, !.node[x].mark = FALSE, !.cuts = @ + 1]
RECURSIVE CascadingCut(_, _)
CascadingCut(h, y) ==
  LET z == h.node[y].parent IN
  IF z = 0 THEN h
  ELSE IF ~h.node[y].mark THEN [h EXCEPT !.node[y].mark = TRUE]
  ELSE CascadingCut([Cut(h, y, z) EXCEPT !.cascades = @ + 1], z)
\* _consolidate: `a` maps degree -> root; the roots are visited in ring order as of the start
RECURSIVE PickMin(_, _, _)
PickMin(h, a, d) ==              \* the final loop: if a[i] <= self._min: self._min = a[i]
  IF d > Len(a) THEN h
  ELSE IF a[d] # 0 /\ Le(h.node, a[d], h.min) THEN PickMin([h EXCEPT !.min = a[d]], a, d + 1)
  ELSE PickMin(h, a, d + 1)
Consolidate(h) ==
  LET size == MaxNodes + 2
      a0 == [d \in 1..size |-> 0]
      \* degrees are 0-based in the code; a[d+1] here
      RECURSIVE CR(_, _, _, _)
      CR(hh, a, x, d) ==
        IF a[d + 1] = 0 THEN <<hh, [a EXCEPT ![d + 1] = x]>>
        ELSE LET y0 == a[d + 1]
                 xx == IF Lt(hh.node, y0, x) THEN y0 ELSE x
                 yy == IF Lt(hh.node, y0, x) THEN x ELSE y0
             IN CR(Link(hh, yy, xx), [a EXCEPT ![d + 1] = 0], xx, d + 1)
      RECURSIVE CA(_, _, _)
      CA(hh, a, todo) ==
        IF todo = << >> THEN <<hh, a>>
        ELSE LET x == Head(todo)
                 r == CR(hh, a, x, Len(hh.node[x].kids))
             IN CA(r[1], r[2], Tail(todo))
      r == CA(h, a0, h.roots)
  IN PickMin(r[1], r[2], 1)
\* _extract_min
RECURSIVE PromoteKids(_, _)
PromoteKids(h, ks) ==
  IF ks = << >> THEN h
  ELSE LET c == Head(ks) IN PromoteKids([AppendRoot(h, c) EXCEPT !.node[c].parent = 0], Tail(ks))
ExtractMin(h) ==
  LET z == h.min IN
  IF z = 0 THEN h
  ELSE LET h1 == PromoteKids(h, h.node[z].kids)
           alone == Len(h1.roots) = 1
           zright == IF alone THEN z ELSE RightOf(h1.roots, z)
           h2 == RemoveRoot(h1, z)
           h3 == IF alone THEN [h2 EXCEPT !.min = 0, !.roots = << >>]
                 ELSE Consolidate([h2 EXCEPT !.min = zright])
       IN [h3 EXCEPT !.n = @ - 1, !.node[z].kids = h.node[z].kids]
\* pop / peek first discard lazily deleted minima
RECURSIVE DropDeleted(_)
DropDeleted(h) == IF h.min # 0 /\ h.node[h.min].deleted THEN DropDeleted(ExtractMin(h)) ELSE h

Install(h) == /\ node' = h.node /\ roots' = h.roots /\ min' = h.min /\ n' = h.n
              /\ links' = h.links /\ cuts' = h.cuts /\ cascades' = h.cascades
Step(op) == nops' = nops + 1 /\ hist' = Append(hist, op)

Push(k) ==
  /\ Cardinality(Live) < MaxNodes
  /\ LET i == nextId
         h0 == [H EXCEPT !.node = [j \in Ids \cup {i} |-> IF j = i THEN [key |-> k, parent |-> 0, kids |-> << >>, mark |-> FALSE, deleted |-> FALSE]
                                                           ELSE node[j]]]
         h1 == AppendRoot(h0, i)
         h2 == IF h1.min = 0 \/ Lt(h1.node, i, h1.min) THEN [h1 EXCEPT !.min = i] ELSE h1
     IN Install([h2 EXCEPT !.n = @ + 1])
  /\ nextId' = nextId + 1 /\ ret' = 0 /\ Step([op |-> "push", key |-> k])
Pop ==
  /\ n > 0
  /\ LET h1 == DropDeleted(H) IN
     /\ h1.min # 0
     /\ ret' = h1.min
     /\ Install(ExtractMin(h1))
  /\ UNCHANGED nextId /\ Step([op |-> "pop"])
DecreaseKey(i, k) ==
  /\ i \in Live /\ k <= node[i].key
  /\ LET h0 == [H EXCEPT !.node[i].key = k]
         y == node[i].parent
         h1 == IF y # 0 /\ Lt(h0.node, i, y) THEN CascadingCut(Cut(h0, i, y), y) ELSE h0
         h2 == IF Lt(h1.node, i, h1.min) THEN [h1 EXCEPT !.min = i] ELSE h1
     IN Install(h2)
  /\ UNCHANGED nextId /\ ret' = 0 /\ Step([op |-> "dec", id |-> i, key |-> k])
Remove(i) ==
  /\ i \in Live
  /\ LET h0 == [H EXCEPT !.node[i].deleted = TRUE]
         y == node[i].parent
         h1 == IF y # 0 /\ Lt(h0.node, i, y) THEN CascadingCut(Cut(h0, i, y), y) ELSE h0
     IN Install(ExtractMin([h1 EXCEPT !.min = i]))
  /\ UNCHANGED nextId /\ ret' = 0 /\ Step([op |-> "rem", id |-> i])
Init == /\ node = << >> /\ roots = << >> /\ min = 0 /\ n = 0 /\ nextId = 1 /\ nops = 0 /\ hist = << >> /\ ret = 0
        /\ links = 0 /\ cuts = 0 /\ cascades = 0
Next == /\ nops < MaxOps
        /\ \/ \E k \in Keys : Push(k)
           \/ Pop
           \/ \E i \in Live, k \in Keys : DecreaseKey(i, k)
           \/ \E i \in Live : Remove(i)
Spec == Init /\ [][Next]_vars

(* ---- structural invariants ---- *)
RootSet == {roots[k] : k \in 1..Len(roots)}
RECURSIVE Desc(_)
Desc(i) == {i} \cup UNION {Desc(node[i].kids[k]) : k \in 1..Len(node[i].kids)}
InHeap == UNION {Desc(r) : r \in RootSet}
SizeOK == n = Cardinality(InHeap)
RootsOK == /\ Cardinality(RootSet) = Len(roots) /\ \A r \in RootSet : node[r].parent = 0
ParentsOK == \A i \in InHeap : \A k \in 1..Len(node[i].kids) : node[node[i].kids[k]].parent = i
NoDeletedInside == \A i \in InHeap : ~node[i].deleted
HeapOrder == \A i \in InHeap : \A k \in 1..Len(node[i].kids) : node[i].key <= node[node[i].kids[k]].key
MinOK == IF n = 0 THEN min = 0 ELSE min \in RootSet /\ \A r \in RootSet : node[min].key <= node[r].key
(* ---- refinement of PQ: what pop returns is a minimal live item of the state before ---- *)
PopReturnsMin == [][(ret' # 0) => (ret' \in InHeap /\ \A j \in InHeap : node[ret'].key <= node[j].key)]_vars
(* ---- directed generation: behaviours whose last step produced a cascading cut / a multi-link consolidation ---- *)
NoCascadeYet == cascades = 0
Quiet == cascades = 0 /\ links < 3
=============================================================================
