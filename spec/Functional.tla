------------------------------ MODULE Functional ------------------------------
(***************************************************************************)
(* "Results are a function of the abstract inputs" - the history invariant  *)
(* shared by C07, C08, C09, C12 and C14.                                    *)
(*                                                                         *)
(* A write-once map: the first observation of an abstract input k fixes     *)
(* result[k]; any later observation of the same k must report the same      *)
(* value.  What k and v ARE is the substance and is fixed per property by   *)
(* the harness (and documented in each check):                              *)
(*   C07  k = (files, argv)                 v = (stdout bytes digest, rc)   *)
(*        observed across processes with different hash seeds and across    *)
(*        repeated calls; and k = input tree, v = structural snapshot       *)
(*        before / after a comparison                                       *)
(*   C08  k = (data of both documents, options), v = (cost, pairing,        *)
(*        removed, inserted) observed across key permutations               *)
(*   C09  k = data id, v = abstract value per input format; k = (data,      *)
(*        third document), v = cost per format pair                         *)
(*   C12  k = (format, document), v = abstract value before and after       *)
(*        print -> reload                                                   *)
(*   C14  k = (files, resolved options), v = (stdout, rc) observed through  *)
(*        the library and through every equivalent command-line spelling    *)
(* Observations may also carry `raised`: the observation itself failed.     *)
(***************************************************************************)
EXTENDS Integers, Sequences, FiniteSets, TLC
CONSTANTS Keys, Vals, MaxObs          \* model checking only
VARIABLES result, nobs, err
fvars == <<result, nobs, err>>
Init == result = << >> /\ nobs = 0 /\ err = ""
Known(k) == k \in DOMAIN result
Clauses(k, v, raised) == <<
  <<"observation-raised-an-error", ~raised>>,
  <<"same-abstract-input-gave-a-different-result", (~raised /\ Known(k)) => result[k] = v>> >>
FirstFail(cs) == LET bad == {i \in DOMAIN cs : ~cs[i][2]}
                 IN IF bad = {} THEN "" ELSE cs[CHOOSE i \in bad : \A m \in bad : i <= m][1]
Observe(k, v, raised) ==
  /\ nobs' = nobs + 1
  /\ result' = IF Known(k) \/ raised THEN result
               ELSE [x \in DOMAIN result \cup {k} |-> IF x = k THEN v ELSE result[x]]
  /\ err' = IF err = "" THEN FirstFail(Clauses(k, v, raised)) ELSE err
\* the design: any deterministic function f : Keys -> Vals satisfies the invariant, whatever the order of observation
CONSTANT F
Next == nobs < MaxObs /\ \E k \in Keys : Observe(k, F[k], FALSE)
Spec == Init /\ [][Next]_fvars
Consistent == err = ""
WriteOnce == [][\A k \in DOMAIN result : k \in DOMAIN result' /\ result'[k] = result[k]]_fvars
=============================================================================
