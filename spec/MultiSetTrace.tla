--------------------------- MODULE MultiSetTrace ---------------------------
(* Trace validation for the L2 model MultiSet.tla: recordings of real MultiSetEdit objects over scripted elements
   (see props/_mset.py), as MatcherTrace.tla.  Fields: n, m, rs, is, chain, ev[{op, ret, ptr, matched, match}]. *)
EXTENDS MultiSet, Json, IOUtils
Traces == JsonDeserialize(IOEnv.TRACE_FILE)
VARIABLES tid, l
tvars == <<allvars, tid, l>>
Ev == Traces[tid].ev
TraceInit == /\ tid \in {t \in 1..Len(Traces) : Traces[t].n = N /\ Traces[t].m = M /\ Traces[t].rs = RS /\ Traces[t].is = IS} /\ l = 1
             /\ chain = Traces[tid].chain /\ ptr = [c \in Cells |-> 1]
             /\ tree = {} /\ dpc = "done" /\ big = 0 /\ sec = 0
             /\ flag = FALSE /\ match = {} /\ matched = FALSE /\ cache = <<>> /\ pc = "idle" /\ start = <<0, 0>>
             /\ nops = 0 /\ lastop = <<"init">> /\ lo = 0 /\ hi = 0 /\ seen = FALSE
             /\ kchain = << >> /\ kptr = << >>
             /\ mpc = "idle" /\ minit = <<0, 0>> /\ mnops = 0 /\ mlast = <<"init">> /\ mlo = 0 /\ mhi = 0 /\ mseen = FALSE
B2N(b) == IF b THEN 1 ELSE 0
RetOf(op) == IF op[1] = "bounds" THEN <<op[2], op[3]>>
             ELSE IF op[1] \in {"tighten", "is_complete"} THEN <<B2N(op[2])>>
             ELSE << >>
Agrees(e) == /\ mlast'[1] = e.op /\ RetOf(mlast') = e.ret
             /\ \A c \in Cells : ptr'[c] = e.ptr[c]
             /\ matched' = e.matched
             /\ (matched' => match' = {<<e.match[k][1], e.match[k][2]>> : k \in 1..Len(e.match)})
Advance == IF mpc' = "idle" /\ pc' = "idle" THEN Agrees(Ev[l]) /\ l' = l + 1 ELSE l' = l
TOp == /\ mpc = "idle" /\ pc = "idle" /\ l <= Len(Ev)
       /\ \/ Ev[l].op = "bounds" /\ MOpBounds
          \/ Ev[l].op = "is_complete" /\ MOpComplete
          \/ Ev[l].op = "tighten" /\ MOpTighten
          \/ Ev[l].op = "edits" /\ MOpEdits
       /\ Advance /\ UNCHANGED tid
TInternal == MInternal /\ l <= Len(Ev) /\ Advance /\ UNCHANGED tid
TraceNext == TOp \/ TInternal
TraceSpec == TraceInit /\ [][TraceNext]_tvars
Accepting == mpc = "idle" /\ pc = "idle" /\ l = Len(Ev) + 1
Report == Accepting => PrintT(ToJson([tid |-> tid, v |-> "ACCEPT"]))
=============================================================================
