------------------------------- MODULE CliGen -------------------------------
(* Configuration generator for the command line checks: TLC enumerates the
   type-selection space (how each file's type is given x what its name
   suggests) and prints every point; the harness materialises files and
   argv for it and runs the real main().                                  *)
EXTENDS Cli, Json
SelSpace ==
  { c \in [fromSel : Sels, fromSelType : Types \cup {""}, fromExt : Types \cup {""},
           toSel : Sels, toSelType : Types \cup {""}, toExt : Types \cup {""}] :
      /\ (c.fromSel = "none") = (c.fromSelType = "")
      /\ (c.toSel = "none") = (c.toSelType = "") }
GenInit == cfg \in SelSpace /\ Init0
GenSpec == GenInit /\ [][FALSE]_vars
Emit == PrintT(ToJson(cfg))
=============================================================================
