--------------------------- MODULE DispatchTrace ---------------------------
(* Code -> spec: recorded resolutions of the real get_formatter on generated formatter classes are compared
   with the model's resolution for the same universe.  One verdict per recording. *)
EXTENDS Dispatch, Json, IOUtils
Traces == JsonDeserialize(IOEnv.TRACE_FILE)
N0 == <<"object">>
VARIABLES tid
TraceInit == /\ tid \in 1..Len(Traces)
             /\ has = [c \in 1..Len(Traces[tid].has) |-> {Traces[tid].has[c][i] : i \in 1..Len(Traces[tid].has[c])}]
             /\ subtypes = Traces[tid].subtypes /\ reg = Traces[tid].reg /\ mro = Traces[tid].mro /\ base = Traces[tid].base
TraceSpec == TraceInit /\ [][UNCHANGED <<vars, tid>>]_<<vars, tid>>
Model == IF Resolve = None THEN <<>> ELSE <<ToString(Resolve[1]), Resolve[2]>>
Report == PrintT(ToJson([tid |-> tid, v |-> IF Model = Traces[tid].answer THEN "ACCEPT" ELSE "REJECT", step |-> 1,
                         clause |-> IF Model = Traces[tid].answer THEN "" ELSE "model-resolves-to-something-else",
                         model |-> Model]))
=============================================================================
