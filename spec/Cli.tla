-------------------------------- MODULE Cli --------------------------------
(***************************************************************************)
(* L1/L2 model of the command line entry point  graphtage.__main__.main :   *)
(*   option resolution -> type selection -> load first file -> load second  *)
(*   file -> diff -> render -> exit status.                                 *)
(*                                                                         *)
(* A RUN is described by its abstract configuration `cfg` (fixed in Init):  *)
(*   fromSel / toSel      how a type is given explicitly for that file:     *)
(*                        "none", "type" (--from-TYPE) or "mime"            *)
(*   fromSelType/toSelType the type so given ("" if none)                   *)
(*   fromExt / toExt      the type the file NAME suggests ("" if none)      *)
(*   fromValid / toValid  the set of types for which the file CONTENT is    *)
(*                        syntactically valid (from independent parsers)    *)
(*   sameData             both contents denote equal data                   *)
(*   sameKind             both files are parsed as the same type family     *)
(*                        (the outcome clauses for valid input only speak   *)
(*                        about such runs)                                  *)
(* Observable events of the real run:                                       *)
(*   Load(side, type)     the loader of `type` was invoked for that file    *)
(*   Exit(rc, outBlank, namesFrom, namesTo, raised)                         *)
(* Clauses are tagged with the property they belong to (C02, C13, C14, C20).*)
(***************************************************************************)
EXTENDS Integers, Sequences, FiniteSets, TLC
CONSTANTS Types      \* e.g. {"json","json5","yaml","csv","xml","html","plist","pickle"}
VARIABLES cfg, phase, loaded, errs
vars == <<cfg, phase, loaded, errs>>
Props == {"C02", "C13", "C14", "C20"}
NoErr == [p \in Props |-> [step |-> 0, clause |-> ""]]

\* ---- type selection (what main() is documented to do) ---------------------------------------
Chosen(sel, selType, ext) == IF sel # "none" THEN selType ELSE ext
FromType == Chosen(cfg.fromSel, cfg.fromSelType, cfg.fromExt)
ToType == Chosen(cfg.toSel, cfg.toSelType, cfg.toExt)
TypesKnown == FromType # "" /\ ToType # ""
FromOK == TypesKnown /\ FromType \in cfg.fromValid
ToOK == TypesKnown /\ ToType \in cfg.toValid
BothOK == FromOK /\ ToOK

\* ---- clauses -----------------------------------------------------------------------------------
LoadClauses(side, type) == <<
  <<"C14", "a-file-is-loaded-although-its-type-cannot-be-determined", TypesKnown>>,
  <<"C14", "files-loaded-out-of-order-or-twice",
       (side = "from" => phase = "start") /\ (side = "to" => phase = "fromLoaded")>>,
  <<"C14", "second-file-loaded-although-the-first-is-invalid", side = "to" => FromOK>>,
  <<"C14", "first-file-not-parsed-as-the-selected-type", (side = "from" /\ TypesKnown) => type = FromType>>,
  <<"C14", "second-file-not-parsed-as-the-selected-type", (side = "to" /\ TypesKnown) => type = ToType>> >>

ExitClauses(e) == <<
  \* C20: malformed input (or an undeterminable type) is reported, not crashed on
  <<"C20", "uncaught-exception-on-malformed-input", (~BothOK) => ~e.raised>>,
  <<"C20", "zero-exit-status-on-malformed-input", (~BothOK /\ ~e.raised) => e.rc # 0>>,
  <<"C20", "a-diff-is-printed-for-malformed-input", (~BothOK /\ ~e.raised) => e.outBlank>>,
  <<"C20", "error-message-does-not-name-the-malformed-first-file",
       (TypesKnown /\ ~FromOK /\ ~e.raised) => e.namesFrom>>,
  <<"C20", "error-message-does-not-name-the-malformed-second-file",
       (TypesKnown /\ FromOK /\ ~ToOK /\ ~e.raised) => e.namesTo>>,
  \* C13: valid input of one kind renders in every format and mode without an internal error
  <<"C13", "internal-error-while-diffing-or-rendering-valid-input", (BothOK /\ cfg.sameKind) => ~e.raised>>,
  <<"C13", "exit-status-is-neither-0-nor-1", (BothOK /\ cfg.sameKind /\ ~e.raised) => e.rc \in {0, 1}>>,
  \* C02: exit status 0 exactly for equal documents
  <<"C02", "exit-status-0-although-the-documents-differ",
       (BothOK /\ cfg.sameKind /\ cfg.decided /\ ~e.raised /\ ~cfg.sameData) => e.rc = 1>>,
  <<"C02", "exit-status-1-although-the-documents-are-equal",
       (BothOK /\ cfg.sameKind /\ cfg.decided /\ ~e.raised /\ cfg.sameData) => e.rc = 0>>,
  \* C14: both files are loaded before anything is rendered
  <<"C14", "valid-files-not-both-loaded", (BothOK /\ ~e.raised) => loaded = {"from", "to"}>> >>

FirstFail(cs, p) ==
  LET bad == {k \in 1..Len(cs) : cs[k][1] = p /\ ~cs[k][3]}
  IN IF bad = {} THEN "" ELSE cs[CHOOSE k \in bad : \A m \in bad : k <= m][2]
Record(cs, step) ==
  errs' = [p \in Props |-> IF errs[p].step = 0 /\ FirstFail(cs, p) # ""
                           THEN [step |-> step, clause |-> FirstFail(cs, p)] ELSE errs[p]]
AllHold(cs) == \A k \in 1..Len(cs) : cs[k][3]

\* ---- actions -------------------------------------------------------------------------------------
Load(side, type, step) ==
  /\ phase \in {"start", "fromLoaded", "toLoaded"}
  /\ Record(LoadClauses(side, type), step)
  /\ phase' = IF side = "from" THEN "fromLoaded" ELSE "toLoaded"
  /\ loaded' = loaded \cup {side}
  /\ UNCHANGED cfg
Exit(e, step) ==
  /\ phase # "exit"
  /\ Record(ExitClauses(e), step)
  /\ phase' = "exit"
  /\ UNCHANGED <<cfg, loaded>>

Init0 == phase = "start" /\ loaded = {} /\ errs = NoErr

(***************************************************************************)
(* The design (model checking): main() as documented.  TLC enumerates the   *)
(* configuration space, checks that the documented behaviour breaks no      *)
(* clause, and - in CliGen - prints every configuration for replay.         *)
(***************************************************************************)
Sels == {"none", "type", "mime"}
CfgSpace ==
  { c \in [fromSel : Sels, fromSelType : Types \cup {""}, fromExt : Types \cup {""},
           toSel : Sels, toSelType : Types \cup {""}, toExt : Types \cup {""},
           fromValid : {{}} \cup {{t} : t \in Types}, toValid : {{}} \cup {{t} : t \in Types},
           sameData : BOOLEAN, sameKind : {TRUE}, decided : {TRUE}] :
      /\ (c.fromSel = "none") = (c.fromSelType = "")
      /\ (c.toSel = "none") = (c.toSelType = "") }
MCInit == cfg \in CfgSpace /\ Init0
DocLoadFrom == phase = "start" /\ TypesKnown /\ Load("from", FromType, 0)
DocLoadTo == phase = "fromLoaded" /\ FromOK /\ Load("to", ToType, 0)
DocExit ==
  \/ /\ phase = "start" /\ ~TypesKnown
     /\ Exit([rc |-> 1, outBlank |-> TRUE, namesFrom |-> FALSE, namesTo |-> FALSE, raised |-> FALSE], 0)
  \/ /\ phase = "fromLoaded" /\ ~FromOK
     /\ Exit([rc |-> 1, outBlank |-> TRUE, namesFrom |-> TRUE, namesTo |-> FALSE, raised |-> FALSE], 0)
  \/ /\ phase = "toLoaded" /\ ~ToOK
     /\ Exit([rc |-> 1, outBlank |-> TRUE, namesFrom |-> FALSE, namesTo |-> TRUE, raised |-> FALSE], 0)
  \/ /\ phase = "toLoaded" /\ ToOK
     /\ Exit([rc |-> IF cfg.sameData THEN 0 ELSE 1, outBlank |-> FALSE, namesFrom |-> FALSE, namesTo |-> FALSE,
              raised |-> FALSE], 0)
MCNext == DocLoadFrom \/ DocLoadTo \/ DocExit
MCSpec == MCInit /\ [][MCNext]_vars /\ WF_vars(MCNext)
NoClauseBroken == errs = NoErr
AlwaysExits == <>(phase = "exit")
=============================================================================
