---------------------------- MODULE CollectionGen ----------------------------
(* Behaviour generator for Collection.tla (as LevenshteinGen): a history variable records what every public
   operation returned and the projection of the model state after it (sub-edits expanded, iterator exhausted,
   cost memoised); TLC simulates behaviours; props/_coll.py replays each on the real EditSequence over scripted
   sub-edits and compares step by step (MODEL-DRIFT); the executions also feed the L1 checks C04 and C05. *)
EXTENDS Collection, Json
VARIABLE hist
Proj(s) == [k |-> s.k, done |-> s.done, cached |-> s.cache # <<>>, ptr |-> s.ptr]
GenInit == Init /\ hist = << >>
GenNext == /\ Next
           /\ hist' = Append(hist, [op |-> lastop'[1],
                                    ret |-> IF lastop'[1] = "tighten" THEN <<IF lastop'[2] THEN 1 ELSE 0>>
                                            ELSE IF lastop'[1] = "bounds" THEN <<lastop'[2], lastop'[3]>>
                                            ELSE << >>,
                                    proj |-> Proj(st')])
GenSpec == GenInit /\ [][GenNext]_<<vars, hist>>
Emit == (nops = MaxOps) => PrintT(ToJson([chains |-> chain, U |-> U, hist |-> hist, final |-> FinalCost]))
=============================================================================
