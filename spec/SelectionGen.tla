----------------------------- MODULE SelectionGen -----------------------------
(* TLC enumerates every tightening schedule (item -> chain of nested intervals)
   within the constants and prints it; the harness runs the real search / sort /
   min_bounded / make_distinct on scripted items following it.               *)
EXTENDS Selection, Json
Emit == PrintT(ToJson([i \in Items |-> chain[i]]))
=============================================================================
