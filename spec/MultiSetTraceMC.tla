--------------------------- MODULE MultiSetTraceMC ---------------------------
(* Instances of MultiSetTrace.tla (cfg files cannot hold sequences). *)
EXTENDS MultiSetTrace
RS_12 == <<1, 2>>
RS_21 == <<2, 1>>
RS_1 == <<1>>
RS_123 == <<1, 2, 3>>
IS_1 == <<1>>
IS_12 == <<1, 2>>
IS_21 == <<2, 1>>
IS_312 == <<3, 1, 2>>
=============================================================================
