--------------------------- MODULE StringScriptGen ---------------------------
(* Input generator for C11: TLC enumerates all pairs of strings over Alphabet
   up to MaxLen and prints them; the harness diffs each pair with the real code. *)
EXTENDS StringScript, Json
GenSpec == MCInit /\ [][FALSE]_svars
Emit == PrintT(ToJson(<<A, B>>))
=============================================================================
