------------------------------ MODULE TermGen ------------------------------
(* Behaviour generator for Term.tla: the operations of a behaviour with the cells the terminal shows and the terminal's
   attributes at the end; TLC simulates behaviours; props/_term.py replays each on a real Printer in colour mode, interprets
   the escape codes it wrote as a terminal would, and compares cell by cell (MODEL-DRIFT). *)
EXTENDS Term, Json
VARIABLE hist
GenInit == Init /\ hist = << >>
OpRec(op) == IF op[1] = "enter" THEN [op |-> "enter", chain |-> op[2], ch |-> ""]
             ELSE IF op[1] = "mark" THEN [op |-> "mark", chain |-> << >>, ch |-> op[2]]
             ELSE IF op[1] = "write" THEN [op |-> "write", chain |-> << >>, ch |-> op[2]]
             ELSE [op |-> op[1], chain |-> << >>, ch |-> ""]
GenNext == Next /\ hist' = Append(hist, OpRec(lastop'))
GenSpec == GenInit /\ [][GenNext]_<<vars, hist>>
CellRec(c) == [ch |-> c[1], f |-> c[2], b |-> c[3], s |-> c[4], strike |-> "strike" \in c[5], plus |-> "plus" \in c[5]]
Emit == (nops = MaxOps) => PrintT(ToJson([hist |-> hist, cells |-> [i \in 1..Len(cells) |-> CellRec(cells[i])],
                                          term |-> term, risky |-> risky, open |-> Len(ctx)]))
=============================================================================
