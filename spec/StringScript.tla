---------------------------- MODULE StringScript ----------------------------
(***************************************************************************)
(* L1 contract behind C11: the character-level script that edits string A  *)
(* into string B.  Characters are small integers (code points).            *)
(*   Keep(i, j)   A[i] is shown unchanged and is B[j]                      *)
(*   Subst(i, j)  A[i] is shown removed and B[j] inserted in its place     *)
(*   Remove(i)    A[i] is shown removed                                    *)
(*   Insert(j)    B[j] is shown inserted                                   *)
(* Every character of A and of B is consumed exactly once, in order, and   *)
(* when the script ends the kept characters are a LONGEST common           *)
(* subsequence: their number is LCS(A, B), defined independently below.    *)
(***************************************************************************)
EXTENDS Integers, Sequences, FiniteSets, TLC
VARIABLES A, B, pa, pb, kept, removed, inserted
svars == <<A, B, pa, pb, kept, removed, inserted>>

Max(x, y) == IF x > y THEN x ELSE y
\* length of a longest common subsequence, by the textbook recurrence
\*   L[i, j] = 0                               if i = 0 or j = 0
\*           = L[i-1, j-1] + 1                 if a[i] = b[j]
\*           = Max(L[i-1, j], L[i, j-1])       otherwise
\* evaluated row by row (a row is the sequence L[i, 0..Len(b)], stored at indices 1..Len(b)+1)
RECURSIVE LCSRow(_, _, _, _, _), LCSRows(_, _, _, _)
LCSRow(a, b, prev, i, acc) ==
  LET j == Len(acc) IN
  IF j > Len(b) THEN acc
  ELSE LCSRow(a, b, prev, i, Append(acc, IF a[i] = b[j] THEN prev[j] + 1 ELSE Max(prev[j + 1], acc[j])))
LCSRows(a, b, i, prev) ==
  IF i > Len(a) THEN prev ELSE LCSRows(a, b, i + 1, LCSRow(a, b, prev, i, <<0>>))
LCS(a, b) == LCSRows(a, b, 1, [j \in 1..(Len(b) + 1) |-> 0])[Len(b) + 1]

KeepClauses(i, j) == <<
  <<"from-characters-out-of-order-or-skipped", i = pa + 1>>,
  <<"to-characters-out-of-order-or-skipped", j = pb + 1>>,
  <<"from-character-out-of-range", i \in 1..Len(A)>>,
  <<"to-character-out-of-range", j \in 1..Len(B)>>,
  <<"different-characters-shown-as-unchanged", (i \in 1..Len(A) /\ j \in 1..Len(B)) => A[i] = B[j]>> >>
SubstClauses(i, j) == <<
  <<"from-characters-out-of-order-or-skipped", i = pa + 1>>,
  <<"to-characters-out-of-order-or-skipped", j = pb + 1>>,
  <<"from-character-out-of-range", i \in 1..Len(A)>>,
  <<"to-character-out-of-range", j \in 1..Len(B)>> >>
RemoveClauses(i) == <<
  <<"from-characters-out-of-order-or-skipped", i = pa + 1>>,
  <<"from-character-out-of-range", i \in 1..Len(A)>> >>
InsertClauses(j) == <<
  <<"to-characters-out-of-order-or-skipped", j = pb + 1>>,
  <<"to-character-out-of-range", j \in 1..Len(B)>> >>
EndClauses == <<
  <<"a-from-character-is-not-accounted-for", pa = Len(A)>>,
  <<"a-to-character-is-not-accounted-for", pb = Len(B)>>,
  <<"unchanged-characters-are-not-a-longest-common-subsequence", kept = LCS(A, B)>>,
  <<"removed-plus-inserted-is-not-minimal", removed + inserted = Len(A) + Len(B) - 2 * LCS(A, B)>> >>
AllHold(cs) == \A k \in DOMAIN cs : cs[k][2]
FirstFail(cs) == LET bad == {k \in DOMAIN cs : ~cs[k][2]}
                 IN IF bad = {} THEN "" ELSE cs[CHOOSE k \in bad : \A m \in bad : k <= m][1]

Keep(i, j)  == pa' = i /\ pb' = j /\ kept' = kept + 1 /\ UNCHANGED <<A, B, removed, inserted>>
Subst(i, j) == pa' = i /\ pb' = j /\ removed' = removed + 1 /\ inserted' = inserted + 1 /\ UNCHANGED <<A, B, kept>>
Remove(i)   == pa' = i /\ removed' = removed + 1 /\ UNCHANGED <<A, B, pb, kept, inserted>>
Insert(j)   == pb' = j /\ inserted' = inserted + 1 /\ UNCHANGED <<A, B, pa, kept, removed>>
Init0 == pa = 0 /\ pb = 0 /\ kept = 0 /\ removed = 0 /\ inserted = 0

(* Model checking the contract: a script that always keeps when the next two characters agree and that
   respects every clause is NOT necessarily minimal (greedy matching is not LCS) - so the end clause is an
   independent obligation.  TLC instead checks the reference itself on all small pairs:
   LCS is symmetric, bounded by both lengths, and at least the common prefix + common suffix.           *)
CONSTANTS Alphabet, MaxLen
Strings == UNION {[1..n -> Alphabet] : n \in 0..MaxLen}
MCInit == A \in Strings /\ B \in Strings /\ Init0
MCNext == \/ \E i \in 1..Len(A), j \in 1..Len(B) : AllHold(KeepClauses(i, j)) /\ Keep(i, j)
          \/ \E i \in 1..Len(A) : AllHold(RemoveClauses(i)) /\ Remove(i)
          \/ \E j \in 1..Len(B) : AllHold(InsertClauses(j)) /\ Insert(j)
MCSpec == MCInit /\ [][MCNext]_svars
Finished == pa = Len(A) /\ pb = Len(B)
\* no clause-respecting script keeps MORE than LCS characters (LCS really is an upper bound) ...
LCSIsUpperBound == kept <= LCS(A, B)
\* ... and the reference is sane
LCSSane == /\ LCS(A, B) = LCS(B, A) /\ LCS(A, B) <= Len(A) /\ LCS(A, B) <= Len(B)
           /\ (A = B => LCS(A, B) = Len(A))
\* for every pair some clause-respecting script attains it (checked as: the set of finished kept-counts reaches LCS)
=============================================================================
