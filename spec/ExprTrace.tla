------------------------------ MODULE ExprTrace ------------------------------
(* Trace validation for Expr: one behaviour per evaluated program. *)
EXTENDS Expr, Json, IOUtils
Traces == JsonDeserialize(IOEnv.TRACE_FILE)
VARIABLES tid, l, err, bad
tvars == <<privateReads, badResolves, leaks, ended, tid, l, err, bad>>
Ev == Traces[tid].ev
TraceInit == Init /\ tid \in 1..Len(Traces) /\ l = 1 /\ err = "" /\ bad = 0
TraceNext == /\ l <= Len(Ev) /\ l' = l + 1 /\ UNCHANGED tid
             /\ Observe(Ev[l])
             /\ IF err = "" /\ FirstFail(Clauses(Ev[l])) # "" THEN err' = FirstFail(Clauses(Ev[l])) /\ bad' = l
                ELSE UNCHANGED <<err, bad>>
TraceSpec == TraceInit /\ [][TraceNext]_tvars
Done == l > Len(Ev)
Report == Done => PrintT(ToJson([tid |-> tid, v |-> IF err = "" THEN "ACCEPT" ELSE "REJECT", step |-> bad, clause |-> err]))
DummyNames == {<<97>>}
=============================================================================
