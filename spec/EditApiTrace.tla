---------------------------- MODULE EditApiTrace ----------------------------
(* Trace validation for EditApi: one behaviour per (pair of documents,
   options); its events are the completed histories that were replayed on
   the real code, each with the operations called, whether a call raised and
   the digest of (final cost, final script) observed after completion.    *)
EXTENDS EditApi, Json, IOUtils
Traces == JsonDeserialize(IOEnv.TRACE_FILE)
VARIABLES tid, l, err, bad
tvars == <<hist, phase, ref, out, raised, tid, l, err, bad>>
Ev == Traces[tid].ev
TraceInit == Init /\ tid \in 1..Len(Traces) /\ l = 1 /\ err = "" /\ bad = 0
\* one event = one whole history: calls, completion, verdict, restart
TraceNext ==
  /\ l <= Len(Ev) /\ l' = l + 1 /\ UNCHANGED tid
  /\ LET e == Ev[l]
         newref == IF ref = "" /\ ~e.raised THEN e.out ELSE ref
         fail == IF e.raised THEN "a-call-raised-an-internal-error"
                 ELSE IF e.out # newref THEN "result-depends-on-how-the-edit-api-was-driven" ELSE ""
     IN /\ hist' = e.ops /\ phase' = "completed" /\ out' = e.out /\ raised' = e.raised /\ ref' = newref
        /\ IF fail # "" /\ err = "" THEN err' = fail /\ bad' = l ELSE UNCHANGED <<err, bad>>
TraceSpec == TraceInit /\ [][TraceNext]_tvars
Done == l > Len(Ev)
Report == Done => PrintT(ToJson([tid |-> tid, v |-> IF err = "" THEN "ACCEPT" ELSE "REJECT", step |-> bad, clause |-> err]))
=============================================================================
