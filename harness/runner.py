"""The per-property check driver: collects what was explored, verdicts, known findings, evidence."""
import json
import os
import sys
import traceback

from . import evidence, findings
from .common import (MACHINERY, OK, REPLAYS, VIOLATION, MachineryError, Timer, digest, seed, tier)


class Check:
    def __init__(self, prop, level):
        self.prop = prop
        self.level = level
        self.timer = Timer()
        self.states = 0           # distinct states, all TLC runs of this invocation
        self.transitions = 0      # states generated (= transitions explored)
        self.mc_runs = []         # [{module, cfg, distinct, generated, depth, wall}]
        self.traces_validated = 0
        self.evaluations = 0
        self.nontrivial = set()
        self.samples = []
        self.rule = ""
        self.assumptions = []
        self.extra = {}
        self.violations = []      # [(signature, replay dict, message)]
        self.known_hits = {}      # finding id -> count
        self.inconclusive = 0
        self.notes = []
        self.exhaustive = False
        self.drift = []

    # ---- bookkeeping ---------------------------------------------------------------------
    def add_tlc(self, res, module, what):
        self.states += res.distinct
        self.transitions += res.generated
        entry = {"module": module, "what": what, "distinct": res.distinct,
                 "generated": res.generated, "depth": res.depth, "wall_s": round(res.wall, 2)}
        cov = res.coverage() if hasattr(res, "coverage") else {}
        if cov:
            entry["actions_taken"] = {k: v[1] for k, v in sorted(cov.items())}
            never = sorted(k for k, v in cov.items() if v[1] == 0)
            if never:
                entry["actions_never_taken"] = never
        self.mc_runs.append(entry)

    def add_trace_stats(self, stats, module, n):
        self.states += stats["distinct"]
        self.transitions += stats["generated"]
        self.traces_validated += n
        self.mc_runs.append({"module": module, "what": "trace validation of %d recorded executions" % n,
                             "distinct": stats["distinct"], "generated": stats["generated"],
                             "wall_s": round(stats["wall"], 2)})

    def sample(self, s, limit=8):
        if len(self.samples) < limit:
            self.samples.append(s)

    def count(self, key=None, nontrivial=True):
        self.evaluations += 1
        if nontrivial and key is not None:
            self.nontrivial.add(key if isinstance(key, (str, int, tuple)) else digest(key))

    def violation(self, signature, replay, message):
        """Record a violation of the property on a real execution."""
        entry = findings.match(self.prop, signature)
        if entry is not None:
            fid = entry.get("id", "?")
            if fid not in self.known_hits:
                self.known_hits[fid] = {"count": 0, "entry": entry, "example": message}
            self.known_hits[fid]["count"] += 1
            return False
        self.violations.append((signature, replay, message))
        return True

    def model_violation_must_hold(self, res, module, what):
        """A TLC run on a model of the *design* that must pass; failure is a machinery/model problem."""
        if not res.completed:
            raise MachineryError("model check %s (%s) did not pass:\n%s" % (module, what, res.out[-3000:]))

    # ---- finishing -----------------------------------------------------------------------
    def finish(self):
        os.makedirs(REPLAYS, exist_ok=True)
        for fid, hit in sorted(self.known_hits.items()):
            print("KNOWN-FINDING: property=%s %s [%s; %d occurrence(s) this run, e.g. %s]"
                  % (self.prop, hit["entry"].get("what", ""), fid, hit["count"], hit["example"]))
        seen = set()
        reported = 0
        # one replay per distinct signature first, so that every class of failure is written out
        classes = {}
        for sig, replay, msg in self.violations:
            classes.setdefault(json.dumps(sig, sort_keys=True), []).append((sig, replay, msg))
        ordered = [v[0] for v in classes.values()] + [x for v in classes.values() for x in v[1:]]
        if len(classes) > 1 or len(self.violations) > 3:
            for k, v in sorted(classes.items(), key=lambda kv: -len(kv[1])):
                print("  violation class x%d: %s" % (len(v), k))
        for sig, replay, msg in ordered:
            d = digest([sig, replay])
            if d in seen:
                continue
            seen.add(d)
            if reported >= 25:
                continue
            reported += 1
            path = os.path.join(REPLAYS, "%s-%s.json" % (self.prop, d))
            with open(path, "w") as f:
                json.dump({"property": self.prop, "signature": sig, "replay": replay, "message": msg,
                           "seed": seed(), "tier": tier()}, f, indent=1, default=str)
            print("VIOLATION property=%s replay=%s" % (self.prop, path))
            print("  " + msg)
        cov = {
            "states": self.states,
            "transitions": self.transitions,
            "traces_validated_against_impl": self.traces_validated,
            "evaluations": self.evaluations,
            "distinct_nontrivial": len(self.nontrivial),
            "rule": self.rule,
            "samples": self.samples or ["(no sample recorded)"],
            "exhaustive": bool(self.exhaustive),
            "tlc_runs": self.mc_runs,
            "known_findings_hit": {k: v["count"] for k, v in self.known_hits.items()},
            "inconclusive": self.inconclusive,
            "model_drift": self.drift,
            "notes": self.notes,
        }
        cov.update(self.extra)
        path = evidence.write(self.prop, self.level, cov, self.timer.s(), violations=len(seen),
                              assumptions=self.assumptions)
        print("%s: %s tier=%s seed=%d evaluations=%d traces=%d states=%d known=%d violations=%d wall=%.1fs"
              % (self.prop, "FAIL" if seen else "ok", tier(), seed(), self.evaluations, self.traces_validated,
                 self.states, sum(v["count"] for v in self.known_hits.values()), len(seen), self.timer.s()))
        return VIOLATION if seen else OK


def main(prop, fn):
    """Run a property check function `fn()` -> exit code, mapping machinery failures to exit 2."""
    try:
        rc = fn()
    except MachineryError as ex:
        # sys.__stderr__: the drivers point sys.stderr at /dev/null to silence the progress bars of the code under test
        print("MACHINERY-FAILURE property=%s: %s" % (prop, ex), file=sys.__stderr__)
        return MACHINERY
    except Exception:
        print("MACHINERY-FAILURE property=%s: unexpected exception in the harness" % prop, file=sys.__stderr__)
        traceback.print_exc(file=sys.__stderr__)
        return MACHINERY
    return rc
