"""Flattening a real edit tree into the event language of spec/EditScript.tla, and recording the
other views of the same comparison.  No judgement is made here: node identities are resolved to
table ids, costs are copied from the code, and TLC decides.
"""
from .project import Table
from .watchdog import Expired, deadline

MAX_TIGHTEN = 200000


class Inconclusive(Exception):
    pass


def tighten_fully(edit):
    n = 0
    while edit.tighten_bounds():
        n += 1
        if n > MAX_TIGHTEN:
            raise Inconclusive("more than %d refinement steps" % MAX_TIGHTEN)
    return n


def _cost(edit):
    b = edit.bounds()
    if not b.definitive():
        tighten_fully(edit)
        b = edit.bounds()
    ub = b.upper_bound
    return int(ub) if isinstance(ub, int) or hasattr(ub, "__int__") else 2 ** 30


def is_compound(edit):
    from graphtage.tree import CompoundEdit
    return isinstance(edit, CompoundEdit)


class Flattener:
    def __init__(self, ftable: Table, ttable: Table):
        self.F = ftable
        self.T = ttable
        self.events = []
        self.string_edits = []   # (from text, to text, StringEdit) for C11

    # -- identity resolution ------------------------------------------------------------------
    def _resolve(self, table, node, container_idx, used):
        """table id of `node` among the unused children of container_idx: by identity first, then by content."""
        kids = [k for k in table.kids(container_idx) if k not in used]
        ids = table.by_identity.get(id(node), ())
        if ids:
            # the object is a node of this document: identity decides (an id that is not an unused child of
            # the container makes the specification name the problem)
            for idx in ids:
                if idx in kids:
                    return idx
            return ids[0]
        if node is None:
            return 0
        # not an object of this document at all (MultiSetEdit emits exact matches as Match(n, n, 0) with the
        # first document's object on both sides): resolve to an unused child with the same content
        try:
            lh = Table(node).rows[0]["lh"]
        except Exception:
            return 0
        for k in kids:
            if table.rows[k - 1]["lh"] == lh:
                return k
        return 0

    def flatten(self, edit, f_idx=0, t_idx=0):
        """Emit the events of `edit`, which lives in the frame (f_idx, t_idx)."""
        self._frame(edit, f_idx, t_idx, set(), set())

    def _frame(self, edit, f_idx, t_idx, used_f, used_t):
        from graphtage.edits import Insert, Match, Remove, Replace
        cls = type(edit)
        if isinstance(edit, Remove):
            i = self._resolve(self.F, edit.from_node, f_idx, used_f)
            used_f.add(i)
            self.events.append({"e": "remove", "i": i, "c": _cost(edit)})
        elif isinstance(edit, Insert):
            j = self._resolve(self.T, edit.from_node, t_idx, used_t)
            used_t.add(j)
            self.events.append({"e": "insert", "j": j, "c": _cost(edit)})
        elif is_compound(edit):
            i = self._resolve(self.F, edit.from_node, f_idx, used_f)
            j = self._resolve(self.T, getattr(edit, "to_node", None), t_idx, used_t)
            used_f.add(i)
            used_t.add(j)
            self.events.append({"e": "open", "i": i, "j": j, "cls": cls.__name__})
            sub_f, sub_t = set(), set()
            fnode = edit.from_node
            for sub in list(edit.edits()):
                if isinstance(sub, Match) and sub.from_node is fnode:
                    self.events.append({"e": "self"})
                    continue
                self._frame(sub, i, j, sub_f, sub_t)
            self.events.append({"e": "close", "r": _cost(edit)})
        else:
            i = self._resolve(self.F, edit.from_node, f_idx, used_f)
            j = self._resolve(self.T, getattr(edit, "to_node", None), t_idx, used_t)
            used_f.add(i)
            used_t.add(j)
            c = _cost(edit)
            if cls.__name__ == "StringEdit":
                self.string_edits.append(edit)
            if c == 0:
                self.events.append({"e": "keep", "i": i, "j": j})
            else:
                self.events.append({"e": "change", "i": i, "j": j, "c": c, "cls": cls.__name__})


def record_diff(a, b, opts, views=True, timeout=8.0):
    """Run a.diff(b) on real trees and return the trace dict for EditScriptTrace (or raise Inconclusive).

    opts: {"strategy": .., "lists": ..} as requested by the caller when the trees were built."""
    try:
        with deadline(timeout):
            ret = a.diff(b)
            # the top-level edit is the first one diff() attached to the root (a wrapper edit such as the plist
            # root's may later attach its own zero-cost self-match, which overwrites ret.edit)
            edit = ret.edit_list[0] if getattr(ret, "edit_list", None) else ret.edit
            if edit is None:
                # diff() left the root of the annotated tree without an edit: the script is then taken from the edit API
                # on the same (editable) tree, and the views below report what the annotated tree itself says - if the
                # documents differ, its cost (0) disagrees with the script's
                edit = ret.edits(b)
            tighten_fully(edit)
            ft, tt = Table(ret), Table(b)
            fl = Flattener(ft, tt)
            fl.flatten(edit)
            ev = fl.events
            # the root pair lives in the virtual root frame, which is closed with the top-level cost
            ev.append({"e": "close", "r": _cost(edit)})
            if views:
                top = _cost(edit)
                edited = int(ret.edited_cost())
                flat = 0
                for e in a.get_all_edits(b):
                    flat += _cost(e)
                had = any(any(e.has_non_zero_cost() for e in n.edit_list) for n in ret.dfs())
                ann_removed, ann_inserted = [], []
                taken = set()
                for idx, n in enumerate(ft.nodes, 1):
                    if getattr(n, "removed", False):
                        ann_removed.append(idx)
                    for ins in getattr(n, "inserted", ()):
                        ids = [k for k in tt.by_identity.get(id(ins), ()) if k not in taken]
                        k = ids[0] if ids else 0
                        taken.add(k)
                        ann_inserted.append(k)
                # an object that occurs twice in a table (multiset duplicates) cannot carry per-occurrence marks
                ann = all(len(v) == 1 for v in ft.by_identity.values()) and \
                    all(len(v) == 1 for v in tt.by_identity.values())
                # a comparison that STARTS from the annotated tree of this one (a chained / three-way diff): the annotated
                # tree stands for the first document, so the cost it reports for (itself -> second document) is the same total
                try:
                    chained = int(ret.diff(b).edited_cost())
                except Expired:
                    raise
                except Exception:
                    chained = -1
                # the same comparison asked for its total only AFTER its parts were refined and listed by somebody else (a
                # formatter printing the tree, a bottom-up consumer): a fresh diff, every listed sub-edit refined completely,
                # deepest first, and only then the root's own cost
                try:
                    ret2 = a.diff(b)
                    top2 = ret2.edit_list[0] if getattr(ret2, "edit_list", None) else ret2.edit

                    def parts(e, depth=0):
                        if hasattr(e, "edits") and depth < 60:
                            for s in list(e.edits()):
                                parts(s, depth + 1)
                        if depth:
                            n = 0
                            while e.tighten_bounds() and n < 100000:
                                n += 1
                    if top2 is not None:
                        parts(top2)
                    parts_first = int(ret2.edited_cost()) if top2 is not None else int(edited)
                except Expired:
                    raise
                except Exception:
                    parts_first = -1
                ev.append({"e": "views", "top": top, "edited": edited, "flat": int(flat), "hadEdits": bool(had), "partsFirst": parts_first,
                           "ann": ann, "annRemoved": sorted(set(ann_removed)),
                           "annInserted": sorted(set(ann_inserted)), "chained": chained})
            else:
                ev.append({"e": "whole"})
    except Expired:
        raise Inconclusive("watchdog expired")
    return {"F": ft.json(), "T": tt.json(), "O": opts, "ev": ev}, fl
