"""Binding self-test of every trace specification: an unmodified recording must be accepted and the same
recording with one field corrupted / one event dropped / two events swapped must be rejected.
Run by `./check --selftest` (and from --setup).  A failure here is a machinery failure."""
import copy
import json

from . import tlc
from .common import MachineryError, use_repo

use_repo()


def _expect(module, good, bads, constants=None, field="v", ok=lambda v: v["v"] == "ACCEPT", prop=None):
    traces = [good] + [b for _, b in bads]
    verdicts, _ = tlc.validate_traces(module, traces, constants=constants, name="selftest-" + module)
    out = []

    def accepted(v):
        if prop is not None:
            return v["errs"][prop]["step"] == 0
        return v["v"] == "ACCEPT"
    if not accepted(verdicts[1]):
        raise MachineryError("%s rejects the unmodified recording: %s" % (module, verdicts[1]))
    for i, (name, _) in enumerate(bads, 2):
        if accepted(verdicts[i]):
            raise MachineryError("%s accepts a corrupted recording (%s)" % (module, name))
        v = verdicts[i]
        out.append("%s/%s -> %s" % (module, name, v["errs"][prop]["clause"] if prop else v["clause"]))
    return out


def run():
    from . import corpus
    corpus._quiet_env()
    log = []
    # PQ
    good = [{"op": "push", "id": 1, "key": 2, "len": 1, "truth": True}, {"op": "push", "id": 2, "key": 1, "len": 2, "truth": True},
            {"op": "pop", "id": 2, "key": 1, "len": 1, "truth": True}]
    b1 = copy.deepcopy(good); b1[2]["id"], b1[2]["key"] = 1, 2
    b2 = [good[0], good[2]]
    b3 = copy.deepcopy(good); b3[2]["len"] = 2
    log += _expect("PQTrace", good, [("wrong-item", b1), ("dropped-push", b2), ("wrong-size", b3)],
                   constants={"Keys": {0}, "MaxLive": 99, "MaxOps": 99, "MaxHeap": False})
    # Bounded
    good = {"final": 3, "ev": [{"k": "b", "lo": 0, "hi": 9}, {"k": "t", "r": True}, {"k": "b", "lo": 2, "hi": 5},
                               {"k": "t", "r": True}, {"k": "b", "lo": 3, "hi": 3}, {"k": "t", "r": False}, {"k": "b", "lo": 3, "hi": 3}]}
    b1 = copy.deepcopy(good); b1["ev"][2]["hi"] = 10
    b2 = copy.deepcopy(good); b2["ev"][2] = {"k": "b", "lo": 0, "hi": 9}
    b3 = copy.deepcopy(good); b3["ev"][4] = {"k": "b", "lo": 4, "hi": 5}
    b4 = copy.deepcopy(good); b4["ev"][5]["r"] = True
    log += _expect("BoundedTrace", good, [("widened", b1), ("progress-without-shrinking", b2), ("final-excluded", b3),
                                            ("progress-on-a-point", b4)], constants={"Vals": {0}, "Inf": 2 ** 30})
    # EditScript: a real recording
    from . import docs
    from .flatten import record_diff
    import graphtage  # noqa
    opts = {"strategy": "auto", "lists": "on"}
    tr, _ = record_diff(docs.build([1, [2, 3], "x"], opts), docs.build([[2, 4], "x", 5], opts), opts)
    ev = tr["ev"]
    drop = copy.deepcopy(tr); k = next(i for i, e in enumerate(ev) if e["e"] in ("remove", "insert")); del drop["ev"][k]
    cost = copy.deepcopy(tr); k = next(i for i, e in enumerate(ev) if e["e"] == "close"); cost["ev"][k]["r"] += 1
    log += _expect("EditScriptTrace", tr, [("dropped-event", drop)], prop="C01")
    log += _expect("EditScriptTrace", tr, [("changed-cost", cost)], prop="C03")
    eq = copy.deepcopy(tr)
    for e in eq["ev"]:
        if e["e"] == "views":
            e["hadEdits"] = False
    log += _expect("EditScriptTrace", tr, [("had-edits-flag", eq)], prop="C02")
    pf = copy.deepcopy(tr)
    for e in pf["ev"]:
        if e["e"] == "views":
            e["partsFirst"] += 1
    log += _expect("EditScriptTrace", tr, [("parts-first-total", pf)], prop="C03")
    # StringScript
    good = {"a": [97, 98], "b": [98], "ev": [{"e": "remove", "i": 1}, {"e": "keep", "i": 2, "j": 1}, {"e": "end"}]}
    b1 = {"a": [97, 98], "b": [98], "ev": [{"e": "remove", "i": 1}, {"e": "remove", "i": 2}, {"e": "insert", "j": 1}, {"e": "end"}]}
    b2 = {"a": [97, 98], "b": [98], "ev": [{"e": "keep", "i": 2, "j": 1}, {"e": "end"}]}
    log += _expect("StringScriptTrace", good, [("not-minimal", b1), ("dropped-event", b2)], constants={"Alphabet": {1}, "MaxLen": 0})
    # Selection
    ch = [[[0, 2], [1, 1]], [[0, 3], [2, 2]]]
    okev = [{"alg": "search", "finished": True, "exc": "", "best": 1, "lo": 1, "hi": 1},
            {"alg": "sort", "finished": True, "exc": "", "order": [1, 2]},
            {"alg": "min", "finished": True, "exc": "", "best": 1},
            {"alg": "distinct", "finished": True, "exc": "", "iv": [[1, 1], [2, 2]]}]
    b1 = copy.deepcopy(okev); b1[0]["best"] = 2
    b2 = copy.deepcopy(okev); b2[1]["order"] = [2, 1]
    b3 = copy.deepcopy(okev); b3[3]["iv"] = [[0, 2], [0, 3]]
    log += _expect("SelectionTrace", {"chain": ch, "ev": okev},
                   [("wrong-best", {"chain": ch, "ev": b1}), ("wrong-order", {"chain": ch, "ev": b2}),
                    ("overlapping", {"chain": ch, "ev": b3})], constants={"NItems": 1, "V": 0})
    # Distinct (L2 model of make_distinct): a real recording; dropped call / wrong order / wrong final must not be explained
    from props import c17
    dch = [[[0, 2], [0, 1], [0, 0]], [[0, 2], [1, 2], [1, 1]], [[1, 2], [2, 2]]]
    d = c17.run_schedule(dch)[0][-1]
    good = {"chain": dch, "calls": d["calls"], "final": d["iv"]}
    bads = [("dropped-call", dict(good, calls=d["calls"][:-1])),
            ("swapped-calls", dict(good, calls=[d["calls"][1], d["calls"][0]] + d["calls"][2:])),
            ("wrong-final", dict(good, final=[list(c[0]) for c in dch]))]
    acc, _ = c17.validate_distinct([good] + [b for _, b in bads], "selftest-DistinctTrace")
    if 0 not in acc:
        raise MachineryError("DistinctTrace does not explain an unmodified recording of make_distinct: %s" % good)
    for i, (name, _) in enumerate(bads, 1):
        if i in acc:
            raise MachineryError("DistinctTrace explains a corrupted recording (%s)" % name)
        log.append("DistinctTrace/%s -> not a behaviour" % name)
    # Matcher (L2 model of WeightedBipartiteMatcher): a real recording; a wrong answer / edge position / pairing must not be explained
    from props import _matcher
    mch = [[[0, 2], [0, 1], [0, 0]], [[0, 2], [1, 2], [1, 1]], [[1, 2], [2, 2]], [[0, 2], [1, 1]]]
    mrec, why = _matcher.record(2, 2, mch, ["bounds", "tighten", "matching", "tighten", "bounds"])
    if mrec is None:
        raise MachineryError("the scripted matcher run failed: %s" % why)
    mb1 = copy.deepcopy(mrec); mb1["ev"][0]["ret"][1] += 1
    mb2 = copy.deepcopy(mrec); mb2["ev"][1]["ptr"][0] += 1
    mb3 = copy.deepcopy(mrec); mb3["ev"][-1]["match"] = [[1, 1], [2, 1]]
    mb4 = copy.deepcopy(mrec); mb4["ev"][1]["ret"] = [1 - mb4["ev"][1]["ret"][0]]
    mbads = [("wrong-bounds", mb1), ("wrong-edge-position", mb2), ("not-an-assignment", mb3), ("wrong-answer", mb4)]
    acc, _ = _matcher.validate([mrec] + [b for _, b in mbads], "selftest-MatcherTrace")
    if 0 not in acc:
        raise MachineryError("MatcherTrace does not explain an unmodified recording: %s" % json.dumps(mrec))
    for i, (name, _) in enumerate(mbads, 1):
        if i in acc:
            raise MachineryError("MatcherTrace explains a corrupted recording (%s)" % name)
        log.append("MatcherTrace/%s -> not a behaviour" % name)
    # MultiSet (L2 model of MultiSetEdit)
    from props import _mset
    srec, why = _mset.record("2x1", [[[0, 2], [1, 1]], [[0, 3], [1, 2], [2, 2]]], ["bounds", "tighten", "edits", "tighten", "bounds"])
    if srec is None:
        raise MachineryError("the scripted multiset run failed: %s" % why)
    sb1 = copy.deepcopy(srec); sb1["ev"][0]["ret"][0] += 1
    sb2 = copy.deepcopy(srec); sb2["ev"][-1]["ret"] = [srec["ev"][-1]["ret"][0], srec["ev"][-1]["ret"][1] + 1]
    sb3 = copy.deepcopy(srec); sb3["ev"][2]["match"] = [[1, 1], [2, 1]]
    sbads = [("wrong-first-bounds", sb1), ("wrong-last-bounds", sb2), ("not-an-assignment", sb3)]
    acc, _ = _mset.validate([srec] + [b for _, b in sbads], "selftest-MultiSetTrace")
    if 0 not in acc:
        raise MachineryError("MultiSetTrace does not explain an unmodified recording: %s" % json.dumps(srec))
    for i, (name, _) in enumerate(sbads, 1):
        if i in acc:
            raise MachineryError("MultiSetTrace explains a corrupted recording (%s)" % name)
        log.append("MultiSetTrace/%s -> not a behaviour" % name)
    # Dispatch (L2 model of get_formatter): a real recording; a wrong answer must be rejected
    from props import _dispatch
    u = {"has": [["VA"], ["object"], []], "subtypes": [[], [1], [2, 1]], "reg": [2], "mro": ["VB", "VA", "object"],
         "base": [3, 1], "mro_full": ["VB", "VA", "object"]}
    u["answer"] = _dispatch.real_resolve(u)
    log += _expect("DispatchTrace", u, [("wrong-formatter", dict(u, answer=["1", "VA"] if u["answer"] != ["1", "VA"] else ["2", "object"])),
                                        ("none", dict(u, answer=[]))],
                   constants={"K": 1, "Names": "<- N0", "MaxSubs": 0, "MaxDepth": 1})
    # Compound (L2 model of KeyValuePairEdit / XMLElementEdit): a model behaviour replayed on the real classes agrees; a
    # behaviour with a corrupted answer / a different refinement order must be noticed
    from props import _compound
    cb = {"config": "xml", "final": 2,
          "chains": [[[0, 1], [1, 1]], [[0, 1], [0, 0]], [[0, 1], [1, 1]], [[0, 0]]],
          "hist": [{"op": "bounds", "ret": [0, 3], "ptr": [1, 1, 1, 1]}, {"op": "tighten", "ret": [1], "ptr": [2, 1, 1, 1]},
                   {"op": "tighten", "ret": [1], "ptr": [2, 1, 2, 1]}, {"op": "complete", "ret": [0], "ptr": [2, 1, 2, 1]},
                   {"op": "edits", "ret": [1, 2, 3, 4], "ptr": [2, 1, 2, 1]}, {"op": "bounds", "ret": [2, 3], "ptr": [2, 1, 2, 1]}]}
    d0, o0 = _compound.replay(cb)
    if d0 or o0["raised"]:
        raise MachineryError("Compound.tla behaviour does not replay on the real XMLElementEdit: %s %s" % (d0, o0))
    for name, mut in (("wrong-bounds", lambda b: b["hist"][5].__setitem__("ret", [2, 4])),
                      ("attrib-before-text", lambda b: b["hist"][2].__setitem__("ptr", [2, 2, 1, 1])),
                      ("complete-too-early", lambda b: b["hist"][3].__setitem__("ret", [1])),
                      ("edits-order", lambda b: b["hist"][4].__setitem__("ret", [1, 3, 2, 4])),
                      ("final-cost", lambda b: b.__setitem__("final", 3))):
        bad = copy.deepcopy(cb)
        mut(bad)
        d1, _ = _compound.replay(bad)
        if not d1:
            raise MachineryError("Compound replay does not notice a corrupted behaviour (%s)" % name)
        log.append("Compound/%s -> drift noticed" % name)
    # Status (L2 model of StatusWriter): a model behaviour replays on the real class; corrupted ones are noticed
    from props import _status
    sb = {"hist": [{"op": "write", "arg": ["a", "f"], "out": [], "pending": ["a", "f"]},
                   {"op": "write", "arg": ["a", "n", "a"], "out": ["a", "f", "a", "n"], "pending": ["a"]},
                   {"op": "flush", "arg": ["F"], "out": ["a", "f", "a", "n"], "pending": ["a"]},
                   {"op": "close", "arg": [], "out": ["a", "f", "a", "n", "a", "n"], "pending": []}]}
    for fch in ("\x0c", "\u2028", "b"):
        if _status.replay(sb, fch):
            raise MachineryError("Status.tla behaviour does not replay on the real StatusWriter: %s" % _status.replay(sb, fch))
    for name, mut in (("line-split-at-separator", lambda b: (b["hist"][1].__setitem__("out", ["a", "n", "a", "n"]))),
                      ("held-back", lambda b: b["hist"][1].__setitem__("pending", ["a", "a"])),
                      ("no-final-newline", lambda b: b["hist"][3].__setitem__("out", ["a", "f", "a", "n", "a"]))):
        bad = copy.deepcopy(sb)
        mut(bad)
        if not _status.replay(bad, "\x0c"):
            raise MachineryError("Status replay does not notice a corrupted behaviour (%s)" % name)
        log.append("Status/%s -> drift noticed" % name)
    # Driver (L2 model of the driving loops of tree.py): a model end state agrees with the real loops; corrupted ones do not
    from harness import corpus as _corpus
    from props import _driver
    _corpus._quiet_env()
    de = {"chains": [[[0, 0]], [[0, 1], [1, 1]]], "early": True, "view": "flat",
          "yielded": [{"leaf": 2, "lo": 1, "ptr": [1, 2]}], "ptr": [1, 2], "cost": -1, "lists": [0, 0, 0]}
    if _driver.replay(de):
        raise MachineryError("Driver.tla end state does not agree with the real get_all_edit_contexts: %s" % _driver.replay(de))
    dt = {"chains": [[[0, 2], [1, 2], [2, 2]], [[1, 1]]], "early": False, "view": "tree", "yielded": [], "ptr": [3, 1], "cost": 3,
          "lists": [1, 1, 1]}
    if _driver.replay(dt):
        raise MachineryError("Driver.tla end state does not agree with the real diff / edited_cost: %s" % _driver.replay(dt))
    for name, base, mut in (("zero-cost-edit-listed", de, lambda b: b.__setitem__("yielded", [{"leaf": 1, "lo": 0, "ptr": [1, 1]}] + b["yielded"])),
                            ("handed-out-unrefined", de, lambda b: b["yielded"][0].__setitem__("ptr", [1, 1])),
                            ("tree-cost", dt, lambda b: b.__setitem__("cost", 2)),
                            ("entered-twice", dt, lambda b: b.__setitem__("lists", [2, 1, 1]))):
        bad = copy.deepcopy(base)
        mut(bad)
        if not _driver.replay(bad):
            raise MachineryError("Driver replay does not notice a corrupted end state (%s)" % name)
        log.append("Driver/%s -> drift noticed" % name)
    # Choose (L2 decision table of edit selection): real observations agree; a changed class / cost / penalty does not
    from props import _choose
    cp = _choose.pool()
    by = {lab: (d, n) for d, n, lab in cp}
    crecs = []
    for la, lb in (("1", "2"), ("'a'", "'b'"), ("list[1, 2] ale=True alesl=False", "list[2, 1] ale=True alesl=False"),
                   ("list[1, ''] ale=True alesl=True", "list[1, 2, 3] ale=True alesl=True"), ("fdict{'k': 1}", "dict{'k': 1} auto=True")):
        (da, na), (db, nb) = by[la], by[lb]
        o = _choose.observe(na, nb)
        crecs.append({"a": da, "b": db, "cls": o["cls"], "cost": o["cost"], "penalty": o["penalty"]})
    cbad = [dict(crecs[0], cost=0), dict(crecs[1], cls="StringEdit", cost=-1), dict(crecs[2], cls="EditDistance", penalty=0),
            dict(crecs[3], penalty=0), dict(crecs[4], cls="FixedKeyDictNodeEdit", cost=-1)]
    cv, _ = tlc.validate_traces("ChooseTrace", crecs + cbad, constants={"Canons": {"c"}}, name="selftest-ChooseTrace")
    for i in range(1, len(crecs) + 1):
        if cv[i]["v"] != "ACCEPT":
            raise MachineryError("ChooseTrace rejects a real observation: %s %s" % (crecs[i - 1], cv[i]))
    for k, name in enumerate(("unequal-leaves-free", "single-characters-as-string-edit", "list-edits-despite-equal-length-option",
                              "penalty-dropped", "equal-mappings-not-matched"), len(crecs) + 1):
        if cv[k]["v"] == "ACCEPT":
            raise MachineryError("ChooseTrace accepts a corrupted observation (%s)" % name)
        log.append("ChooseTrace/%s -> %s" % (name, cv[k]["clause"]))
    # Term (L2 model of the Printer in colour mode): a model behaviour agrees with what the real Printer makes a terminal
    # show; corrupted ones do not
    from props import _term
    tb = {"hist": [{"op": "enter", "chain": [[3, 1], [2, 1], [1, 1]], "ch": ""}, {"op": "mark", "chain": [], "ch": "strike"},
                   {"op": "write", "chain": [], "ch": "x"}, {"op": "unmark", "chain": [], "ch": ""}, {"op": "exit", "chain": [], "ch": ""},
                   {"op": "newline", "chain": [], "ch": ""}, {"op": "indent", "chain": [], "ch": ""}, {"op": "write", "chain": [], "ch": "y"}],
          "cells": [{"ch": "x", "f": 1, "b": 1, "s": 1, "strike": True, "plus": False}, {"ch": "n", "f": 0, "b": 0, "s": 0, "strike": False, "plus": False}]
          + [{"ch": " ", "f": 0, "b": 0, "s": 0, "strike": False, "plus": False}] * 4
          + [{"ch": "y", "f": 0, "b": 0, "s": 0, "strike": False, "plus": False}],
          "term": [0, 0, 0], "risky": False, "open": 0}
    if _term.compare(tb):
        raise MachineryError("Term.tla behaviour does not agree with the real Printer: %s" % _term.compare(tb))
    for name, mut in (("colour-leaks-past-the-context", lambda b: b["cells"][1].__setitem__("f", 1)),
                      ("mark-lost", lambda b: b["cells"][0].__setitem__("strike", False)),
                      ("indentation", lambda b: b["cells"].pop(2)),
                      ("attributes-at-the-end", lambda b: b.__setitem__("term", [0, 0, 1]))):
        bad = copy.deepcopy(tb)
        mut(bad)
        if not _term.compare(bad):
            raise MachineryError("Term replay does not notice a corrupted behaviour (%s)" % name)
        log.append("Term/%s -> drift noticed" % name)
    # TermHtml (L2 model of the HTML printer): a model behaviour - with the named deviation - agrees with the real printer
    hb = {"hist": [{"op": "enter", "chain": [[1, 1], [1, 1]], "ch": ""}, {"op": "write", "chain": [], "ch": "x"},
                   {"op": "exit", "chain": [], "ch": ""}, {"op": "newline", "chain": [], "ch": ""}],
          "out": [{"k": "ch", "a": 0, "v": 0, "c": "x"}, {"k": "close", "a": 0, "v": 0, "c": ""}, {"k": "br", "a": 0, "v": 0, "c": ""}],
          "lost": True}
    if _term.compare_html(hb):
        raise MachineryError("TermHtml.tla behaviour does not agree with the real HTMLPrinter: %s" % _term.compare_html(hb))
    for name, mut in (("span-opened-after-all", lambda b: b["out"].insert(0, {"k": "open", "a": 1, "v": 1, "c": ""})),
                      ("end-tag-dropped", lambda b: b["out"].pop(1))):
        bad = copy.deepcopy(hb)
        mut(bad)
        if not _term.compare_html(bad):
            raise MachineryError("TermHtml replay does not notice a corrupted behaviour (%s)" % name)
        log.append("TermHtml/%s -> drift noticed" % name)
    # Assign
    good = {"table": [[1, 0], [0, 2]], "result": [[1, 2, 0], [2, 1, 0]], "raised": False}
    b1 = {"table": [[1, 0], [0, 2]], "result": [[1, 1, 1], [2, 2, 2]], "raised": False}
    b2 = {"table": [[1, 0], [0, 2]], "result": [[1, 2, 0], [2, 2, 2]], "raised": False}
    log += _expect("AssignTrace", good, [("not-minimal", b1), ("column-twice", b2)],
                   constants={"Shapes": "<- ShapesSmall", "Weights": {0}})
    # Builder
    g = [{"kind": "list", "kids": [-1, 2]}, {"kind": "dict", "kids": [-2]}]
    paths = [[[], "list"], [["0"], "int:1"], [["1"], "map"], [["1", "k:str:a"], "str:a"]]
    good = {"g": g, "check": True, "ignore": False, "strict": True, "outcome": "value", "paths": paths, "copied": True, "copyPaths": paths}
    b1 = copy.deepcopy(good); b1["paths"] = paths[:-1]
    b2 = copy.deepcopy(good); b2["outcome"] = "cycle-error"
    b3 = copy.deepcopy(good); b3["copied"] = False
    log += _expect("BuilderTrace", good, [("value-differs", b1), ("false-cycle", b2), ("copy-raised", b3)],
                   constants={"Scalars": "<- MCScalars", "Keys": "<- MCKeys"})
    # Cli
    cfg = {"fromSel": "type", "fromSelType": "yaml", "fromExt": "json", "toSel": "none", "toSelType": "", "toExt": "json",
           "fromValid": ["yaml"], "toValid": ["json"], "sameData": False, "sameKind": False, "decided": False}
    ev = [{"e": "load", "side": "from", "type": "yaml"}, {"e": "load", "side": "to", "type": "json"},
          {"e": "exit", "rc": 1, "outBlank": False, "namesFrom": False, "namesTo": False, "raised": False}]
    b1 = copy.deepcopy(ev); b1[0]["type"] = "json"
    log += _expect("CliTrace", {"cfg": cfg, "ev": ev}, [("wrong-parser", {"cfg": cfg, "ev": b1})],
                   constants={"Types": {"json", "yaml"}}, prop="C14")
    cfg2 = dict(cfg, fromValid=[])
    ev2 = [{"e": "load", "side": "from", "type": "yaml"},
           {"e": "exit", "rc": 1, "outBlank": True, "namesFrom": True, "namesTo": False, "raised": False}]
    b2 = copy.deepcopy(ev2); b2[1]["raised"] = True
    b3 = copy.deepcopy(ev2); b3[1]["rc"] = 0
    log += _expect("CliTrace", {"cfg": cfg2, "ev": ev2}, [("uncaught", {"cfg": cfg2, "ev": b2}), ("rc0", {"cfg": cfg2, "ev": b3})],
                   constants={"Types": {"json", "yaml"}}, prop="C20")
    # Functional
    from .functional import CONSTS
    good = {"ev": [{"k": "a", "v": "1", "raised": False}, {"k": "a", "v": "1", "raised": False}]}
    b1 = {"ev": [{"k": "a", "v": "1", "raised": False}, {"k": "a", "v": "2", "raised": False}]}
    log += _expect("FunctionalTrace", good, [("different-result", b1)], constants=CONSTS)
    # EditApi
    good = {"ev": [{"ops": [], "raised": False, "out": "5/x"}, {"ops": ["tighten"], "raised": False, "out": "5/x"}]}
    b1 = {"ev": [{"ops": [], "raised": False, "out": "5/x"}, {"ops": ["tighten"], "raised": False, "out": "6/x"}]}
    b2 = {"ev": [{"ops": [], "raised": False, "out": "5/x"}, {"ops": ["tighten"], "raised": True, "out": ""}]}
    log += _expect("EditApiTrace", good, [("order-dependent", b1), ("raised", b2)],
                   constants={"Ops": {"x"}, "MaxOps": 9, "Results": {"r"}})
    # Expr
    good = {"ev": [{"e": "resolve", "ok": True, "inLocals": True, "inWhitelist": False}, {"e": "attr", "name": [112, 117, 98]}, {"e": "end"}]}
    b1 = {"ev": [{"e": "resolve", "ok": True, "inLocals": True, "inWhitelist": False}, {"e": "attr", "name": [95, 120]}, {"e": "end"}]}
    b2 = {"ev": [{"e": "resolve", "ok": True, "inLocals": False, "inWhitelist": False}, {"e": "end"}]}
    log += _expect("ExprTrace", good, [("private-read", b1), ("outside-whitelist", b2)],
                   constants={"Names": "<- DummyNames", "Locals": "<- DummyNames", "Whitelist": "<- DummyNames", "Members": "<- DummyNames"})
    # Render
    def cells(text):
        return [{"t": "ch", "c": ord(ch), "p": []} for ch in text]
    red, off = {"t": "sgr", "c": 0, "p": [41]}, {"t": "sgr", "c": 0, "p": [0]}
    green = {"t": "sgr", "c": 0, "p": [42]}
    out = cells("[") + [red] + cells("1") + [off] + cells(" -> ") + [green] + cells("2") + [off] + cells("]")
    good = {"cells": out, "ref1": [ord(c) for c in "[1]"], "ref2": [ord(c) for c in "[2]"]}
    b1 = {"cells": cells("[1 -> 2]"), "ref1": good["ref1"], "ref2": good["ref2"]}
    b2 = {"cells": cells("[") + [red] + cells("1") + [off] + cells(" -> ") + [green] + cells("3") + [off] + cells("]"),
          "ref1": good["ref1"], "ref2": good["ref2"]}
    log += _expect("RenderTrace", good, [("marks-lost", b1), ("wrong-to-view", b2)])
    for line in log:
        print("selftest " + line)
    print("selftest: %d corrupted recordings rejected, all unmodified recordings accepted" % len(log))
    return 0
