"""External monitor of the Bounded refinement protocol (code -> spec direction of C04/C05/C17).

install() wraps, from outside and at import time, `bounds` and `tighten_bounds` of every class of the
graphtage package that defines them.  No source change.  Rules (DESIGN 2.1):

* passive by default: the wrapper records calls and results and never calls bounds() itself
  (bounds() has side effects in this code base); `active` mode additionally probes bounds()
  before and after every outermost tighten_bounds() - both are legal API histories;
* per object, only OUTERMOST calls are events: what an object asks of itself while one of its own
  methods is running is not an exposure to anybody;
* events are logged at the method's return, on the error path too;
* objects are named by a registry index and kept alive while registered (no id() reuse).
"""
import importlib
import pkgutil
import sys

INF = 2 ** 30

_state = {"on": False, "active": False, "objects": {}, "order": [], "installed": False, "probing": False}


def _enc(v):
    from graphtage.bounds import Infinity
    if isinstance(v, Infinity):
        return INF if v.positive else -INF
    try:
        v = int(v)
    except Exception:
        return INF
    return max(-INF, min(INF, v))


MAX_EVENTS = 20000      # per object; a longer history is cut and carries no verdict (counted as inconclusive)


class Rec:
    __slots__ = ("obj", "cls", "ev", "depth", "idx", "truncated")

    def __init__(self, obj, idx):
        self.obj = obj
        self.cls = type(obj).__name__
        self.ev = []
        self.depth = 0
        self.idx = idx
        self.truncated = False


def _rec(obj):
    r = _state["objects"].get(id(obj))
    if r is None or r.obj is not obj:
        r = Rec(obj, len(_state["order"]))
        _state["objects"][id(obj)] = r
        _state["order"].append(r)
    return r


def _wrap_bounds(fn):
    def bounds(self, *a, **k):
        if not _state["on"]:
            return fn(self, *a, **k)
        r = _rec(self)
        r.depth += 1
        try:
            res = fn(self, *a, **k)
        except BaseException as ex:
            r.depth -= 1
            if r.depth == 0 and not isinstance(ex, (KeyboardInterrupt,)) and type(ex).__name__ != "Expired":
                r.ev.append({"k": "raise", "in": "bounds", "exc": type(ex).__name__})
            raise
        r.depth -= 1
        if r.depth == 0:
            try:
                e = {"k": "b", "lo": _enc(res.lower_bound), "hi": _enc(res.upper_bound)}
                # an exposure identical to the one just recorded (nothing in between) adds nothing to the history: an
                # object polled a million times inside somebody else's loop must not produce a million events
                if not (r.ev and r.ev[-1] == e):
                    if len(r.ev) < MAX_EVENTS:
                        r.ev.append(e)
                    else:
                        r.truncated = True
            except Exception:
                r.ev.append({"k": "raise", "in": "bounds", "exc": "bounds() did not return a range"})
        return res
    bounds.__wrapped__ = fn
    bounds.__name__ = getattr(fn, "__name__", "bounds")
    bounds.__doc__ = getattr(fn, "__doc__", None)
    return bounds


def _wrap_tighten(fn):
    def tighten_bounds(self, *a, **k):
        if not _state["on"]:
            return fn(self, *a, **k)
        r = _rec(self)
        outer = r.depth == 0
        if outer and _state["active"]:
            try:
                self.bounds()
            except Exception:
                pass
        r.depth += 1
        try:
            res = fn(self, *a, **k)
        except BaseException as ex:
            r.depth -= 1
            if r.depth == 0 and type(ex).__name__ != "Expired":
                r.ev.append({"k": "raise", "in": "tighten_bounds", "exc": type(ex).__name__})
            raise
        r.depth -= 1
        if outer:
            if len(r.ev) < MAX_EVENTS:
                r.ev.append({"k": "t", "r": bool(res)})
            else:
                r.truncated = True
            if _state["active"]:
                try:
                    self.bounds()
                except Exception:
                    pass
        return res
    tighten_bounds.__wrapped__ = fn
    tighten_bounds.__name__ = getattr(fn, "__name__", "tighten_bounds")
    tighten_bounds.__doc__ = getattr(fn, "__doc__", None)
    return tighten_bounds


def install():
    """Wrap every class of the graphtage package that defines bounds / tighten_bounds (idempotent)."""
    if _state["installed"]:
        return
    import graphtage
    mods = [graphtage]
    for m in pkgutil.iter_modules(graphtage.__path__):
        if m.name in ("__main__",):
            continue
        try:
            mods.append(importlib.import_module("graphtage." + m.name))
        except Exception:
            pass
    seen = set()
    for mod in mods:
        for name, cls in list(vars(mod).items()):
            if not isinstance(cls, type) or cls in seen:
                continue
            if not getattr(cls, "__module__", "").startswith("graphtage"):
                continue
            seen.add(cls)
            d = vars(cls)
            if "bounds" in d and callable(d["bounds"]) and not hasattr(d["bounds"], "__wrapped_by_monitor__"):
                w = _wrap_bounds(d["bounds"])
                w.__wrapped_by_monitor__ = True
                setattr(cls, "bounds", w)
            if "tighten_bounds" in d and callable(d["tighten_bounds"]) and \
                    not hasattr(d["tighten_bounds"], "__wrapped_by_monitor__"):
                w = _wrap_tighten(d["tighten_bounds"])
                w.__wrapped_by_monitor__ = True
                setattr(cls, "tighten_bounds", w)
    _state["installed"] = True


def wrap_class(cls):
    """Wrap a class defined outside the package (synthetic Bounded items of C17)."""
    d = vars(cls)
    if "bounds" in d and not hasattr(d["bounds"], "__wrapped_by_monitor__"):
        w = _wrap_bounds(d["bounds"])
        w.__wrapped_by_monitor__ = True
        setattr(cls, "bounds", w)
    if "tighten_bounds" in d and not hasattr(d["tighten_bounds"], "__wrapped_by_monitor__"):
        w = _wrap_tighten(d["tighten_bounds"])
        w.__wrapped_by_monitor__ = True
        setattr(cls, "tighten_bounds", w)


def start(active=False):
    _state["objects"] = {}
    _state["order"] = []
    _state["active"] = active
    _state["on"] = True


def stop():
    _state["on"] = False
    recs = _state["order"]
    _state["objects"] = {}
    _state["order"] = []
    return recs


def pause():
    _state["on"] = False


def resume():
    _state["on"] = True


def records():
    return list(_state["order"])
