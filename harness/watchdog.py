"""Watchdog for real executions (main thread only).

The budget is CPU time of this process (ITIMER_PROF): a machine busy with other work stretches wall-clock time
arbitrarily, and a run that merely waits for the processor has not "failed to terminate".  A generous wall-clock
backstop (ITIMER_REAL) still ends executions that block without using the processor.
"""
import gc
import signal
from contextlib import contextmanager


class Expired(BaseException):
    """Deliberately not an Exception subclass so that `except Exception` in the code under test cannot swallow it."""


def _handler(signum, frame):
    raise Expired()


@contextmanager
def deadline(seconds):
    old_alrm = signal.signal(signal.SIGALRM, _handler)
    old_prof = signal.signal(signal.SIGPROF, _handler)
    wall = seconds * 20 + 60
    # no cyclic garbage collection inside the window: in a process that holds millions of recorded objects one full
    # collection takes seconds of CPU time, which is not the execution's
    gc_was = gc.isenabled()
    gc.disable()
    prev_prof = signal.setitimer(signal.ITIMER_PROF, seconds)[0]
    prev_real = signal.setitimer(signal.ITIMER_REAL, wall)[0]
    try:
        yield
    finally:
        if gc_was:
            gc.enable()
        # an enclosing deadline keeps running with what this one left of it
        used_prof = seconds - signal.setitimer(signal.ITIMER_PROF, 0)[0]
        used_real = wall - signal.setitimer(signal.ITIMER_REAL, 0)[0]
        signal.signal(signal.SIGALRM, old_alrm)
        signal.signal(signal.SIGPROF, old_prof)
        if prev_prof > 0:
            signal.setitimer(signal.ITIMER_PROF, max(prev_prof - used_prof, 0.001))
        if prev_real > 0:
            signal.setitimer(signal.ITIMER_REAL, max(prev_real - used_real, 0.001))


def patient(fn, budget, long_budget=120.0):
    """fn() under `budget` seconds of CPU time; if that expires, ONCE more with the cyclic garbage collector switched off and
    a long budget.  In a process that holds millions of recorded objects a single full collection can take seconds; an
    execution interrupted by one has not failed to terminate.  Raises Expired only if the second attempt expires too.
    fn must start from scratch on every call."""
    import gc
    try:
        with deadline(budget):
            return fn()
    except Expired:
        pass
    was = gc.isenabled()
    gc.collect()
    gc.disable()
    try:
        with deadline(long_budget):
            return fn()
    finally:
        if was:
            gc.enable()
