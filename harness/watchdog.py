"""Wall-clock watchdog for real executions (SIGALRM, main thread only)."""
import signal
from contextlib import contextmanager


class Expired(BaseException):
    """Deliberately not an Exception subclass so that `except Exception` in the code under test cannot swallow it."""


def _handler(signum, frame):
    raise Expired()


@contextmanager
def deadline(seconds):
    old = signal.signal(signal.SIGALRM, _handler)
    signal.setitimer(signal.ITIMER_REAL, seconds)
    try:
        yield
    finally:
        signal.setitimer(signal.ITIMER_REAL, 0)
        signal.signal(signal.SIGALRM, old)
