"""Watchdog for real executions (main thread only).

The budget is CPU time of this process (ITIMER_PROF): a machine busy with other work stretches wall-clock time
arbitrarily, and a run that merely waits for the processor has not "failed to terminate".  A generous wall-clock
backstop (ITIMER_REAL) still ends executions that block without using the processor.
"""
import signal
from contextlib import contextmanager


class Expired(BaseException):
    """Deliberately not an Exception subclass so that `except Exception` in the code under test cannot swallow it."""


def _handler(signum, frame):
    raise Expired()


@contextmanager
def deadline(seconds):
    old_alrm = signal.signal(signal.SIGALRM, _handler)
    old_prof = signal.signal(signal.SIGPROF, _handler)
    wall = seconds * 20 + 60
    prev_prof = signal.setitimer(signal.ITIMER_PROF, seconds)[0]
    prev_real = signal.setitimer(signal.ITIMER_REAL, wall)[0]
    try:
        yield
    finally:
        # an enclosing deadline keeps running with what this one left of it
        used_prof = seconds - signal.setitimer(signal.ITIMER_PROF, 0)[0]
        used_real = wall - signal.setitimer(signal.ITIMER_REAL, 0)[0]
        signal.signal(signal.SIGALRM, old_alrm)
        signal.signal(signal.SIGPROF, old_prof)
        if prev_prof > 0:
            signal.setitimer(signal.ITIMER_PROF, max(prev_prof - used_prof, 0.001))
        if prev_real > 0:
            signal.setitimer(signal.ITIMER_REAL, max(prev_real - used_real, 0.001))
