"""Apalache (symbolic model checker) runs: inductive-invariant obligations over unbounded integers.

Each obligation is one `apalache-mc check --init=<I> --inv=<P> --length=<n>` on a module of /verif/spec.
The outcome is "ok" (no error), "violated" (counterexample on the model) or "unavailable" (tool missing /
timeout / tool error); only the first two say something about the model and neither is a verdict about
the code."""
import os
import shutil
import subprocess
import time

from .common import VERIF, scratch


def run(module, init, inv, length, timeout=600):
    exe = shutil.which("apalache-mc")
    if exe is None:
        return {"outcome": "unavailable", "why": "apalache-mc not on PATH"}
    out = os.path.join(scratch(), "apalache-%s-%s-%s-%d" % (module, init, inv, length))
    os.makedirs(out, exist_ok=True)
    # the tool writes next to its working directory: work on a copy of the modules in the scratch directory
    import glob
    for f in glob.glob(os.path.join(VERIF, "spec", "*.tla")):
        shutil.copy(f, out)
    t0 = time.time()
    try:
        p = subprocess.run([exe, "check", "--init=" + init, "--inv=" + inv, "--length=%d" % length,
                            "--out-dir=" + os.path.join(out, "o"), module + ".tla"], cwd=out, capture_output=True, text=True,
                           timeout=timeout)
    except subprocess.TimeoutExpired:
        return {"outcome": "unavailable", "why": "timeout"}
    finally:
        shutil.rmtree(out, ignore_errors=True)
    wall = round(time.time() - t0, 1)
    if p.returncode == 0 and "The outcome is: NoError" in p.stdout:
        return {"outcome": "ok", "wall_s": wall}
    if p.returncode == 12:
        return {"outcome": "violated", "wall_s": wall}
    return {"outcome": "unavailable", "why": "exit %d: %s" % (p.returncode, (p.stdout + p.stderr)[-300:])}


def obligations(module, items, timeout=600):
    """items: [(label, init, inv, length, expected outcome)].  Runs them in parallel; returns a list of records."""
    from concurrent.futures import ThreadPoolExecutor
    with ThreadPoolExecutor(max_workers=min(6, len(items))) as ex:
        res = list(ex.map(lambda it: run(module, it[1], it[2], it[3], timeout), items))
    out = []
    for it, r in zip(items, res):
        r = dict(r)
        r.update({"obligation": it[0], "init": it[1], "inv": it[2], "length": it[3], "expected": it[4]})
        out.append(r)
    return out
