"""Document generators and tree builders shared by the input-quantified properties.

Documents are plain Python values (None, bool, int, float, str, list, dict with str keys); trees are
built from them by the code under test (graphtage.json.build_tree) under the requested options.
"""
import itertools

STRATEGIES = ("auto", "match", "none")
LIST_MODES = ("on", "off", "offsame")
ALL_OPTS = [{"strategy": s, "lists": m} for s in STRATEGIES for m in LIST_MODES]


def build_options(opts):
    import graphtage
    s, m = opts["strategy"], opts["lists"]
    return graphtage.BuildOptions(
        allow_key_edits=(s != "none"),
        auto_match_keys=(s == "auto"),
        allow_list_edits=(m != "off"),
        allow_list_edits_when_same_length=(m != "offsame"),
    )


def build(obj, opts):
    from graphtage import json as gjson
    return gjson.build_tree(obj, options=build_options(opts))


# ------------------------------------------------------------------------------------------------
# the small exhaustive domain
SCALARS = (1, 2, "a", "ab", "")
KEYS = ("a", "b", "ab")


def small_flat():
    """scalars, lists of <=3 scalars, maps over KEYS with <=2 entries and scalar values."""
    out = list(SCALARS)
    for n in range(0, 4):
        for t in itertools.product(SCALARS[:4] if n == 3 else SCALARS, repeat=n):
            out.append(list(t))
    for n in range(0, 3):
        for ks in itertools.combinations(KEYS, n):
            for vs in itertools.product(SCALARS[:3], repeat=n):
                out.append(dict(zip(ks, vs)))
    return out


def small_nested():
    """one nesting level: lists / maps whose elements are scalars, short lists or one-entry maps."""
    inner = [1, "a", [], [1], [1, 2], ["a", 1], {"a": 1}, {"b": "a"}, {}]
    out = []
    for n in range(1, 4):
        for t in itertools.product(inner if n < 3 else inner[:6], repeat=n):
            out.append(list(t))
    for ks in itertools.combinations(KEYS, 2):
        for vs in itertools.product(inner[:7], repeat=2):
            out.append(dict(zip(ks, vs)))
    for k in KEYS[:2]:
        for v in inner:
            out.append({k: v})
    return out


# ------------------------------------------------------------------------------------------------
# random documents (seeded), biased to collisions: tiny alphabets so equal elements, shared
# prefixes/suffixes and duplicate values arise by construction
WORDS = ("", "a", "b", "ab", "ba", "abc", "abd", "xyz", "hello", "help", "1", "true", "null", "aaaaaaaaaa", "aaaaaaaaab")
RKEYS = ("a", "b", "c", "ab", "ba", "abc", "key", "kez", "aaaaaaaaaa", "aaaaaaaaab", "A", "Key", "KEY", "aB")


def random_scalar(r, twins=False):
    c = r.random()
    if c < 0.30:
        # -1 / -2 and 0 / 2**61-1 collide under Python's hash(); numbers one character apart; a big integer
        return r.choice((0, 1, 2, 3, 10, 11, 12, 100, -1, -2, -1, -2, 2 ** 61 - 1, -10))
    if c < 0.70:
        return r.choice(WORDS)
    if c < 0.78:
        return None
    if c < 0.86:
        return r.choice((True, False)) if twins else r.choice((5, 6))
    if c < 0.93:
        return r.choice((0.5, 1.5, 2.25, 1e3, -1.5)) if not twins else r.choice((1.0, 0.0, 2.0, 0.5, -1.0, -2.0))
    return r.choice(WORDS)


def random_doc(r, depth=3, twins=False, width=4):
    c = r.random()
    if depth <= 0 or c < 0.30:
        return random_scalar(r, twins)
    if c < 0.68:
        return [random_doc(r, depth - 1, twins, width) for _ in range(r.randint(0, width))]
    keys = r.sample(RKEYS, r.randint(0, min(width, len(RKEYS))))
    return {k: random_doc(r, depth - 1, twins, width) for k in keys}


def mutate(doc, r, twins=False, depth=3):
    """A document a few atomic edits away from `doc` (so that diffs have structure to find)."""
    c = r.random()
    if isinstance(doc, list):
        out = list(doc)
        if out and c < 0.45:
            i = r.randrange(len(out))
            out[i] = mutate(out[i], r, twins, depth - 1)
        elif c < 0.60:
            out.insert(r.randint(0, len(out)), random_doc(r, max(depth - 1, 0), twins))
        elif out and c < 0.75:
            del out[r.randrange(len(out))]
        elif len(out) >= 2 and c < 0.85:
            i, j = r.sample(range(len(out)), 2)
            out[i], out[j] = out[j], out[i]
        elif c < 0.92:
            out = out + [random_doc(r, 1, twins) for _ in range(r.randint(1, 2))]
        else:
            return random_doc(r, depth, twins)
        if r.random() < 0.3:
            return mutate(out, r, twins, depth)
        return out
    if isinstance(doc, dict):
        out = dict(doc)
        ks = list(out)
        if ks and c < 0.45:
            k = r.choice(ks)
            out[k] = mutate(out[k], r, twins, depth - 1)
        elif c < 0.62:
            out[r.choice(RKEYS)] = random_doc(r, max(depth - 1, 0), twins)
        elif ks and c < 0.78:
            del out[r.choice(ks)]
        elif ks and c < 0.90:
            k = r.choice(ks)
            v = out.pop(k)
            out[r.choice(RKEYS)] = v          # key rename
        else:
            return random_doc(r, depth, twins)
        if r.random() < 0.3:
            return mutate(out, r, twins, depth)
        return out
    if twins and isinstance(doc, (int, float)) and c < 0.5:
        # the cross-type twin of a number: equal in Python (1 == 1.0 == True), different as data
        if isinstance(doc, bool):
            return int(doc) if c < 0.25 else float(doc)
        if isinstance(doc, int) and not isinstance(doc, bool):
            return float(doc) if c < 0.3 or doc not in (0, 1) else bool(doc)
        if float(doc).is_integer() and abs(doc) < 2 ** 31:
            return int(doc)
    if isinstance(doc, int) and not isinstance(doc, bool) and c >= 0.5 and c < 0.8:
        # a neighbouring number; -1 <-> -2 and 0 <-> 2**61-1 are the pairs whose Python hashes collide
        return {-1: -2, -2: -1, 0: 2 ** 61 - 1, 2 ** 61 - 1: 0}.get(doc, doc + 1)
    if isinstance(doc, str) and c < 0.6:
        if doc and c < 0.2:
            i = r.randrange(len(doc))
            return doc[:i] + doc[i + 1:]
        if c < 0.4:
            i = r.randint(0, len(doc))
            return doc[:i] + r.choice("abxyz") + doc[i:]
        if doc:
            i = r.randrange(len(doc))
            return doc[:i] + r.choice("abxyz") + doc[i + 1:]
    return random_scalar(r, twins)


def permute_keys(doc, r):
    """Same data, every mapping's insertion order shuffled (at all depths)."""
    if isinstance(doc, list):
        return [permute_keys(x, r) for x in doc]
    if isinstance(doc, dict):
        ks = list(doc)
        r.shuffle(ks)
        return {k: permute_keys(doc[k], r) for k in ks}
    return doc


def has_twins(doc):
    """Does the document contain bool/float scalars (members of the 1 / 1.0 / True twin classes)?"""
    if isinstance(doc, (bool, float)):
        return True
    if isinstance(doc, list):
        return any(has_twins(x) for x in doc)
    if isinstance(doc, dict):
        return any(has_twins(x) for x in doc.values())
    return False


# ------------------------------------------------------------------------------------------------
# other node kinds
def random_mset_tree(r, dup=False, depth=2):
    """graphtage.MultiSetNode over leaves / lists (built directly through the library's node classes)."""
    import graphtage
    n = r.randint(0, 4)
    pool = [1, 2, 3, "a", "ab", "abc"]
    items = []
    for _ in range(n):
        if depth > 0 and r.random() < 0.25:
            items.append(build([r.choice(pool) for _ in range(r.randint(0, 3))], {"strategy": "auto", "lists": "on"}))
        else:
            items.append(build(r.choice(pool), {"strategy": "auto", "lists": "on"}))
    if not dup:
        seen, uniq = set(), []
        for it in items:
            k = repr(it)
            if k not in seen:
                seen.add(k)
                uniq.append(it)
        items = uniq
    return graphtage.MultiSetNode(items)


def random_xml_element(r, depth=2):
    import xml.etree.ElementTree as ET
    e = ET.Element(r.choice(("a", "b", "item", "items")))
    for k in r.sample(("id", "x", "name", "nam"), r.randint(0, 2)):
        e.set(k, r.choice(("1", "2", "v", "vv", "")))
    if r.random() < 0.5:
        e.text = r.choice(("t", "text", "tex", "hello"))
    if depth > 0:
        for _ in range(r.randint(0, 3)):
            e.append(random_xml_element(r, depth - 1))
    return e


def mutate_xml(e, r):
    import copy
    import xml.etree.ElementTree as ET
    e = copy.deepcopy(e)
    nodes = list(e.iter())
    for _ in range(r.randint(1, 3)):
        n = r.choice(nodes)
        c = r.random()
        if c < 0.2:
            n.tag = r.choice(("a", "b", "item", "items"))
        elif c < 0.4:
            n.set(r.choice(("id", "x", "name", "nam")), r.choice(("1", "2", "v", "vv")))
        elif c < 0.5 and n.attrib:
            del n.attrib[r.choice(sorted(n.attrib))]
        elif c < 0.65:
            n.text = r.choice((None, "t", "text", "tex", "hello"))
        elif c < 0.8:
            n.insert(r.randint(0, len(n)), random_xml_element(r, 0))
        elif len(n):
            n.remove(r.choice(list(n)))
    return e


def relayout_xml(e, r):
    """The same XML data laid out differently: blanks / line breaks / indentation around every element's text (also where
    there is no text).  Element text is data modulo surrounding whitespace (the code's own equality; C02's anchors name it)."""
    import copy
    e = copy.deepcopy(e)
    for n in e.iter():
        pad = lambda: r.choice(("", " ", "\n", "\n  ", "\t", "  \n    "))
        if n.text is None:
            n.text = r.choice((None, pad())) or None
        else:
            n.text = pad() + n.text.strip() + pad()
    return e


def build_xml(e, opts):
    from graphtage import xml as gxml
    return gxml.build_tree(e, build_options(opts))


# ------------------------------------------------------------------------------------------------
# near-equality (C02): one atomic perturbation somewhere in the document
def _paths(doc, prefix=()):
    yield prefix, doc
    if isinstance(doc, list):
        for i, x in enumerate(doc):
            yield from _paths(x, prefix + (i,))
    elif isinstance(doc, dict):
        for k, x in doc.items():
            yield from _paths(x, prefix + (k,))


def _replace(doc, path, value):
    if not path:
        return value
    if isinstance(doc, list):
        out = list(doc)
        out[path[0]] = _replace(doc[path[0]], path[1:], value)
        return out
    out = dict(doc)
    out[path[0]] = _replace(doc[path[0]], path[1:], value)
    return out


def perturb(doc, r):
    """(perturbed copy, name of the perturbation) - the copy differs from doc as data, or (None, None)."""
    paths = list(_paths(doc))
    r.shuffle(paths)
    kinds = ["type", "char", "empty", "swap", "emptycontainer", "dropkey", "addkey", "nullify", "emptykind"]
    r.shuffle(kinds)
    for kind in kinds:
        for path, v in paths:
            if kind == "type":
                if isinstance(v, bool):
                    return _replace(doc, path, str(v)), "bool->str"
                if isinstance(v, int):
                    return _replace(doc, path, str(v)), "int->str"
                if v is None:
                    return _replace(doc, path, "None"), "null->str"
                if isinstance(v, str) and v.lstrip("-").isdigit() and len(v) < 9:
                    return _replace(doc, path, int(v)), "str->int"
                if isinstance(v, str) and v in ("True", "False"):
                    return _replace(doc, path, v == "True"), "str->bool"
            elif kind == "char" and isinstance(v, str) and v:
                i = r.randrange(len(v))
                c = "x" if v[i] != "x" else "y"
                return _replace(doc, path, v[:i] + c + v[i + 1:]), "one-char"
            elif kind == "empty":
                if isinstance(v, str) and v:
                    return _replace(doc, path, ""), "str->empty"
                if isinstance(v, str) and not v:
                    return _replace(doc, path, r.choice(("a", "0", "None"))), "empty->str"
                if isinstance(v, int) and not isinstance(v, bool):
                    return _replace(doc, path, ""), "int->empty"
            elif kind == "swap" and isinstance(v, list) and len(v) >= 2:
                idx = [(i, j) for i in range(len(v)) for j in range(i + 1, len(v)) if v[i] != v[j] or type(v[i]) is not type(v[j])]
                idx = [(i, j) for i, j in idx if v[i] != v[j]]
                if idx:
                    i, j = r.choice(idx)
                    w = list(v)
                    w[i], w[j] = w[j], w[i]
                    return _replace(doc, path, w), "swap-list-elements"
            elif kind == "emptycontainer" and isinstance(v, list):
                w = list(v)
                if r.random() < 0.5 and any(x in ([], {}) for x in w):
                    w.remove([] if [] in w else {})
                    return _replace(doc, path, w), "remove-empty-container"
                w.insert(r.randint(0, len(w)), r.choice(([], {}, "", None)))
                return _replace(doc, path, w), "add-empty-element"
            elif kind == "dropkey" and isinstance(v, dict) and v:
                w = dict(v)
                del w[r.choice(sorted(w))]
                return _replace(doc, path, w), "drop-key"
            elif kind == "addkey" and isinstance(v, dict):
                w = dict(v)
                k = next((c for c in ("zz", "new", "k9", "a0") if c not in w), None)
                if k is not None:
                    w[k] = r.choice((1, "v", None, [], {}))
                    return _replace(doc, path, w), "add-key"
            elif kind == "nullify" and v is not None and path:
                return _replace(doc, path, None), "value->null"
            elif kind == "emptykind" and v in ([], {}) and isinstance(v, (list, dict)):
                return _replace(doc, path, {} if isinstance(v, list) else []), "empty-list<->empty-map"
    return None, None


# ------------------------------------------------------------------------------------------------
# CSV tables and Python objects
def random_csv_pair(r, opts):
    import os
    import tempfile
    from graphtage import csv as gcsv
    mode = r.random()
    if mode < 0.12:
        # degenerate tables: no rows at all, only blank lines (rows without cells), in different numbers
        rows = [[] for _ in range(r.randint(0, 3))]
        rows2 = [[] for _ in range(r.randint(0, 3))]
        if r.random() < 0.3:
            rows2.insert(r.randint(0, len(rows2)), [r.choice(WORDS) or "x"])
        nmut = 0
    else:
        rows = [[r.choice(WORDS) if mode < 0.3 else (r.choice(WORDS) or "x") for _ in range(r.randint(0 if mode < 0.3 else 1, 4))]
                for _ in range(r.randint(1, 5))]
        rows2 = [list(row) for row in rows]
        nmut = r.randint(0, 3)
    for _ in range(nmut):
        c = r.random()
        if rows2 and c < 0.3:
            del rows2[r.randrange(len(rows2))]
        elif c < 0.55:
            rows2.insert(r.randint(0, len(rows2)), [r.choice(WORDS) or "y" for _ in range(r.randint(1, 4))])
        elif rows2 and c < 0.8:
            row = rows2[r.randrange(len(rows2))]
            if row:
                row[r.randrange(len(row))] = r.choice(WORDS) or "z"
            else:
                row.append("w")
        elif rows2:
            row = rows2[r.randrange(len(rows2))]
            if r.random() < 0.5 and len(row) > 1:
                del row[r.randrange(len(row))]
            else:
                row.insert(r.randint(0, len(row)), "new")
    import csv
    trees = []
    from .common import scratch
    for rws in (rows, rows2):
        fd, path = tempfile.mkstemp(suffix=".csv", dir=scratch())
        with os.fdopen(fd, "w", newline="") as f:
            csv.writer(f).writerows(rws)
        trees.append(gcsv.build_tree(path, build_options(opts)))
        os.unlink(path)
    return trees[0], trees[1]


def random_loaded_pair(r, opts, cross=None):
    """A random pair of documents written to files and read back by the real loaders (YAML incl. multi-document
    streams, JSON5, JSON) with the build options: what the command does, as opposed to build() above."""
    import json
    import os
    import tempfile
    import graphtage
    import yaml
    from .common import scratch
    fmt = cross or r.choice(("yaml", "yaml-stream", "yaml-stream", "json5", "json", "xml", "html"))
    if ">" in fmt:
        # a cross-format pair: the first document from a property list, the second from another format
        import plistlib

        def noneless(x):
            if isinstance(x, dict):
                return {k: noneless(v) for k, v in x.items() if v is not None}
            if isinstance(x, list):
                return [noneless(v) for v in x if v is not None]
            return x
        a = noneless(random_doc(r, depth=r.choice((1, 2, 3))))
        while not isinstance(a, (dict, list)):
            a = noneless(random_doc(r, depth=2))
        b = noneless(mutate(a, r))
        f1, f2 = fmt.split(">")
        trees = []
        for f, d in ((f1, a), (f2, b)):
            fd, path = tempfile.mkstemp(suffix="." + f, dir=scratch())
            with os.fdopen(fd, "wb") as fh:
                fh.write(plistlib.dumps(d) if f == "plist" else (json.dumps(d).encode() if f == "json" else yaml.safe_dump(d).encode()))
            trees.append(graphtage.FILETYPES_BY_TYPENAME[f].build_tree(path, build_options(opts)))
            os.unlink(path)
        return trees[0], trees[1]
    if fmt in ("xml", "html"):
        import xml.etree.ElementTree as ET
        ea = random_xml_element(r, 2)
        eb = mutate_xml(ea, r)
        trees = []
        for e in (ea, eb):
            text = ET.tostring(e)
            if fmt == "html":
                text = b"<html><body>" + text + b"</body></html>"
            fd, path = tempfile.mkstemp(suffix="." + fmt, dir=scratch())
            with os.fdopen(fd, "wb") as f:
                f.write(text)
            trees.append(graphtage.FILETYPES_BY_TYPENAME[fmt].build_tree(path, build_options(opts)))
            os.unlink(path)
        return trees[0], trees[1]
    if fmt == "yaml-stream":
        a = [random_doc(r, depth=r.choice((0, 1, 2))) for _ in range(r.randint(2, 4))]
        c = r.random()
        if c < 0.3:
            b = a[1:]                                   # head removed
        elif c < 0.5:
            b = a[1:] + [random_doc(r, depth=1)]        # shifted, same length
        elif c < 0.7:
            b = a[:1] + [random_doc(r, depth=1)] + a[1:]
        else:
            b = mutate(a, r)
            if not isinstance(b, list):
                b = [b, a[0]]
        while len(b) < 2:
            b = b + [random_doc(r, depth=1)]
    else:
        a = random_doc(r, depth=r.choice((1, 2, 3)))
        b = mutate(a, r)
        if r.random() < 0.12:
            # whole documents that are "falsy" values of DIFFERENT kinds (an empty list is not an empty mapping is not null
            # is not zero is not the empty string): a loader may not take one for another
            a, b = r.sample(([], {}, 0, False, "", None, 0.0, [[]], [None], {"k": None}), 2)
    trees = []
    for d in (a, b):
        fd, path = tempfile.mkstemp(suffix="." + fmt.split("-")[0], dir=scratch())
        with os.fdopen(fd, "w") as f:
            if fmt == "yaml":
                yaml.safe_dump(d, f)
            elif fmt == "yaml-stream":
                yaml.safe_dump_all(d, f)
            else:
                json.dump(d, f)
        ft = graphtage.FILETYPES_BY_TYPENAME[fmt.split("-")[0]]
        trees.append(ft.build_tree(path, build_options(opts)))
        os.unlink(path)
    return trees[0], trees[1]


def random_mixedkeys_docs(r):
    """Two mappings whose keys mix integers, floats and strings (YAML, pickles and Python objects allow that), including
    look-alikes (1 / "1") and sets whose string order is cyclic (10 < "5" < 9 < 10)."""
    pool = (1, "1", 10, "5", 9, "a", 2, "2", "10", 1.5, "1.5", "b", 0, "")
    vals = r.choice(((1, 2, 3), ("v", "w", "x"), ("aaaaaaaa", "bbbbbbbb", "aaaaaaab", "zzzzzzzzzzzzzzzz"), ([1], [2], []), (1, "v", [1])))
    def mk(m):
        return {k: r.choice(vals) for k in r.sample(pool, m)}
    a = mk(r.randint(1, 4))
    c = r.random()
    if c < 0.5:
        b = dict(a)
        for k in r.sample(pool, r.randint(1, 3)):
            b[k] = r.choice(vals)
        if r.random() < 0.5 and len(b) > 1:
            del b[r.choice(list(b))]
    else:
        b = mk(r.randint(1, 4))
    if r.random() < 0.35:
        # a cyclic triple (x < y as numbers, str(y) < s < str(x) as text) on one side, part of it on the other:
        # no order of the three keys is "sorted", so anything relying on sortedness shows
        x, y, t3 = r.choice(((9, 10, "5"), (2, 10, "15"), (3, 20, "25"), (9, 100, "11")))
        big = {x: r.choice(vals), y: r.choice(vals), t3: r.choice(vals)}
        small = {k: r.choice(vals) for k in r.sample((x, y, t3), r.randint(1, 2))}
        if r.random() < 0.5:
            small.update({k: v for k, v in a.items() if k not in big and r.random() < 0.5})
        a, b = (small, big) if r.random() < 0.6 else (big, small)
    elif r.random() < 0.35:
        # look-alike keys (1 and "1") in BOTH mappings, their values changed a little: which of the two is paired with
        # which must not depend on the order they are written in
        k = r.choice((1, 2, 10, 1.5))
        sims = r.choice((("aaaaaaaa", "aaaaaaab", "bbbbbbbb", "bbbbbbbc"), ("v", "w", "x", "y"), ([1, 2], [1, 3], [4, 5], [4, 6])))
        a = {k: sims[0], str(k): sims[2]}
        b = {k: sims[1], str(k): sims[3]} if r.random() < 0.7 else {str(k): sims[3], k: sims[0]}
        if r.random() < 0.4:
            a["n"] = 1
            b["n"] = 1
    if r.random() < 0.5:
        ks = list(b)
        r.shuffle(ks)
        b = {k: b[k] for k in ks}
    if r.random() < 0.3:
        a, b = [a, 1], [b, 1]
    return a, b


class _Point:
    def __init__(self, x, y, tags=None):
        self.x = x
        self.y = y
        if tags is not None:
            self.tags = tags


class _Shape:
    def __init__(self, name, points, meta):
        self.name = name
        self.points = points
        self.meta = meta


def random_pyobj(r, depth=2):
    c = r.random()
    if depth <= 0 or c < 0.3:
        return random_scalar(r)
    if c < 0.5:
        return _Point(r.randint(0, 3), r.choice(WORDS), [r.randint(0, 2) for _ in range(r.randint(0, 3))] if r.random() < 0.5 else None)
    if c < 0.7:
        return _Shape(r.choice(WORDS), [random_pyobj(r, depth - 1) for _ in range(r.randint(0, 3))], {"k": random_pyobj(r, depth - 1)})
    if c < 0.8:
        return tuple(random_pyobj(r, depth - 1) for _ in range(r.randint(0, 3)))
    if c < 0.9:
        return [random_pyobj(r, depth - 1) for _ in range(r.randint(0, 3))]
    return {k: random_pyobj(r, depth - 1) for k in r.sample(RKEYS, r.randint(0, 3))}


def mutate_pyobj(o, r):
    import copy
    o = copy.deepcopy(o)
    if isinstance(o, _Point):
        if r.random() < 0.5:
            o.x = r.randint(0, 3)
        else:
            o.y = r.choice(WORDS)
    elif isinstance(o, _Shape):
        c = r.random()
        if c < 0.3:
            o.name = r.choice(WORDS)
        elif c < 0.7 and o.points:
            i = r.randrange(len(o.points))
            o.points[i] = mutate_pyobj(o.points[i], r)
        else:
            o.points.append(random_pyobj(r, 1))
    elif isinstance(o, (list, dict)):
        return mutate(o, r) if all(not isinstance(x, (_Point, _Shape, tuple)) for x in (o if isinstance(o, list) else o.values())) else o
    else:
        return random_pyobj(r, 1)
    return o


def random_pyobj_pair(r, opts):
    from graphtage import pydiff
    a = random_pyobj(r, 2)
    b = mutate_pyobj(a, r) if r.random() < 0.8 else random_pyobj(r, 2)
    if r.random() < 0.3:
        # what only Python objects and pickles hold: bytes (their "characters" are integers of 1-3 digits) and sets, incl. a
        # mapping REPLACED by a set and the other way round
        bts = (b"hello world", b"goodbye", b"\x89PNG header", b"GIF89a header!", b"", b"a", b"ab\x00\xff", b"abc")
        sets = ({1, 2, 3}, {1, 2, 4}, set(), {"x"}, frozenset(["x", "y"]), {"k": 1}, {"k": 1, "j": [1]}, {2})
        a = {"payload": r.choice(bts), "tags": r.choice(sets), "rest": a}
        b = {"payload": r.choice(bts), "tags": r.choice(sets), "rest": b}
        if r.random() < 0.3:
            a, b = [a["payload"], a["tags"]], [b["payload"], b["tags"]]
    elif r.random() < 0.2:
        # ONE list object referenced from two places of the first document (what unpickling a memoised object gives): every
        # reference is the same data under the same options
        x = [r.randint(0, 5) for _ in range(r.randint(3, 5))]
        y = r.choice((x[1:], x[1:] + [9], x[:-1], [9] + x[:-1]))
        a = {"a": x, "b": x, "c": [x, 1]}
        b = {"a": list(x), "b": y, "c": [list(y), 1]}
        if r.random() < 0.5:
            a, b = [x, x, "k"], [list(x), y, "k"]
    bo = build_options(opts)
    return pydiff.build_tree(a, bo), pydiff.build_tree(b, bo)
