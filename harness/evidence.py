"""Evidence files: /verif/evidence/<id>.json, rewritten on every run with measured numbers only."""
import json
import os
import subprocess

from .common import EVIDENCE, seed, tier, VERIF


def write(prop, level, coverage, wall_s, violations=0, assumptions=(), extra=None):
    os.makedirs(EVIDENCE, exist_ok=True)
    doc = {
        "property_id": prop,
        "tier": tier(),
        "seed": seed(),
        "level": level,
        "coverage": coverage,
        "assumptions": list(assumptions),
        "wall_s": float(wall_s),
        "violations": int(violations),
    }
    if extra:
        doc.update(extra)
    path = os.path.join(EVIDENCE, prop + ".json")
    tmp = path + ".tmp"
    with open(tmp, "w") as f:
        json.dump(doc, f, indent=1, sort_keys=False, default=str)
    os.replace(tmp, path)
    return path


def validate(path):
    """Validate against the published schema when a jsonschema-capable interpreter is present (python3-vt)."""
    schema = "/root/.vp/EVIDENCE.schema.json"
    if not os.path.exists(schema):
        return True, "schema not present"
    code = ("import json,sys,jsonschema;"
            "jsonschema.validate(json.load(open(sys.argv[1])), json.load(open(sys.argv[2])))")
    try:
        p = subprocess.run(["python3-vt", "-c", code, path, schema], stdout=subprocess.PIPE,
                           stderr=subprocess.STDOUT, text=True, timeout=60)
    except (OSError, subprocess.TimeoutExpired) as ex:
        return True, "validator unavailable: %s" % ex
    return p.returncode == 0, p.stdout[-2000:]
