"""Running the command line entry point graphtage.__main__.main in-process (fast) or as a subprocess."""
import io
import os
import subprocess
import sys

from .common import PY, REPO, use_repo
from .watchdog import Expired, deadline

use_repo()


class _Stream(io.StringIO):
    """sys.stdout / sys.stderr replacement: survives Printer.close(), has no file descriptor."""

    def close(self):
        pass

    def fileno(self):
        raise io.UnsupportedOperation("fileno")

    def isatty(self):
        return False

    @property
    def buffer(self):  # pragma: no cover - stdin only
        raise io.UnsupportedOperation("buffer")


_prepared = [False]


def _prepare():
    if _prepared[0]:
        return
    try:
        import colorama
        colorama.init = lambda *a, **k: None     # every Printer(ansi_color=True) re-wraps sys.stdout otherwise
        colorama.deinit = lambda *a, **k: None
    except Exception:
        pass
    _prepared[0] = True


def run_main(args, timeout=20.0):
    """graphtage.__main__.main(['graphtage'] + args) -> dict(rc, out, err, exc).  exc = 'Type: msg' or ''."""
    _prepare()
    import logging
    from graphtage import __main__ as gmain
    import graphtage.printer as gp
    old = sys.stdout, sys.stderr, gp.DEFAULT_PRINTER
    out, err = _Stream(), _Stream()
    sys.stdout, sys.stderr = out, err
    rc, exc, where = None, "", ""
    try:
        with deadline(timeout):
            rc = gmain.main(["graphtage"] + list(args))
    except SystemExit as ex:
        rc = ex.code if isinstance(ex.code, int) else (0 if ex.code is None else 1)
        exc = ""
    except Expired:
        exc = "Timeout: did not terminate within %ss" % timeout
    except BaseException as ex:  # noqa - an uncaught exception of the command is an observation
        import traceback
        tb = traceback.extract_tb(ex.__traceback__)
        where = "%s:%s" % (os.path.basename(tb[-1].filename), tb[-1].name) if tb else "?"
        exc = "%s: %s" % (type(ex).__name__, str(ex)[:200])
    finally:
        sys.stdout, sys.stderr = old[0], old[1]
        gp.DEFAULT_PRINTER = old[2]
        root = logging.getLogger()
        for h in list(root.handlers):
            root.removeHandler(h)
    return {"rc": rc, "out": out.getvalue(), "err": err.getvalue(), "exc": exc, "where": where}


def run_subprocess(args, hashseed=None, timeout=120, cwd=None, stdin=None):
    env = dict(os.environ)
    env["PYTHONPATH"] = REPO
    if hashseed is not None:
        env["PYTHONHASHSEED"] = str(hashseed)
    env["PYTHONDONTWRITEBYTECODE"] = "1"
    try:
        p = subprocess.run([PY, "-m", "graphtage"] + list(args), stdout=subprocess.PIPE, stderr=subprocess.PIPE,
                           env=env, timeout=timeout, cwd=cwd or "/", input=stdin)
    except subprocess.TimeoutExpired:
        return {"rc": None, "out": b"", "err": b"", "exc": "Timeout"}
    tb = b"Traceback (most recent call last)" in p.stderr
    return {"rc": p.returncode, "out": p.stdout, "err": p.stderr, "exc": "Traceback" if tb else ""}


OPT_ARGS = {
    "auto": ["--dict-strategy", "auto"], "match": ["--dict-strategy", "match"], "none": ["--dict-strategy", "none"],
    "on": [], "off": ["--no-list-edits"], "offsame": ["--no-list-edits-when-same-length"],
}


def opt_args(opts):
    return OPT_ARGS[opts["strategy"]] + OPT_ARGS[opts["lists"]]
