"""Running the command line entry point graphtage.__main__.main in-process (fast) or as a subprocess."""
import io
import os
import subprocess
import sys

from .common import PY, REPO, use_repo
from .watchdog import Expired, deadline

use_repo()


class _Stream(io.StringIO):
    """sys.stdout / sys.stderr replacement: survives Printer.close(), has no file descriptor."""

    def close(self):
        pass

    def fileno(self):
        raise io.UnsupportedOperation("fileno")

    def isatty(self):
        return False

    @property
    def buffer(self):  # pragma: no cover - stdin only
        raise io.UnsupportedOperation("buffer")


_prepared = [False]


def _prepare():
    if _prepared[0]:
        return
    try:
        import colorama
        colorama.init = lambda *a, **k: None     # every Printer(ansi_color=True) re-wraps sys.stdout otherwise
        colorama.deinit = lambda *a, **k: None
    except Exception:
        pass
    _prepared[0] = True


def run_main(args, timeout=20.0):
    """graphtage.__main__.main(['graphtage'] + args) -> dict(rc, out, err, exc).  exc = 'Type: msg' or ''."""
    _prepare()
    import logging
    from graphtage import __main__ as gmain
    import graphtage.printer as gp
    old = sys.stdout, sys.stderr, gp.DEFAULT_PRINTER
    out, err = _Stream(), _Stream()
    sys.stdout, sys.stderr = out, err
    rc, exc, where = None, "", ""
    try:
        with deadline(timeout):
            rc = gmain.main(["graphtage"] + list(args))
    except SystemExit as ex:
        rc = ex.code if isinstance(ex.code, int) else (0 if ex.code is None else 1)
        exc = ""
    except Expired:
        exc = "Timeout: did not terminate within %ss" % timeout
    except BaseException as ex:  # noqa - an uncaught exception of the command is an observation
        import traceback
        tb = traceback.extract_tb(ex.__traceback__)
        where = "%s:%s" % (os.path.basename(tb[-1].filename), tb[-1].name) if tb else "?"
        exc = "%s: %s" % (type(ex).__name__, str(ex)[:200])
    finally:
        sys.stdout, sys.stderr = old[0], old[1]
        gp.DEFAULT_PRINTER = old[2]
        root = logging.getLogger()
        for h in list(root.handlers):
            root.removeHandler(h)
    return {"rc": rc, "out": out.getvalue(), "err": err.getvalue(), "exc": exc, "where": where}


# `python -m graphtage` under a shifted wall clock: the documents and options are the inputs of a comparison, the time of
# day is not.  time.* and datetime.* are wrapped before graphtage is imported; argv[1] is the shift in seconds.
CLOCK_SHIM = r"""
import sys, time, runpy, datetime as _d
_shift = float(sys.argv.pop(1))
_time, _lt, _gm, _sf, _ct, _at = time.time, time.localtime, time.gmtime, time.strftime, time.ctime, time.asctime
time.time = lambda: _time() + _shift
time.time_ns = lambda: int((_time() + _shift) * 1e9)
time.localtime = lambda s=None: _lt(time.time() if s is None else s)
time.gmtime = lambda s=None: _gm(time.time() if s is None else s)
time.strftime = lambda f, t=None: _sf(f, time.localtime() if t is None else t)
time.ctime = lambda s=None: _ct(time.time() if s is None else s)
time.asctime = lambda t=None: _at(time.localtime() if t is None else t)
_real_dt, _real_d = _d.datetime, _d.date
class _DTMeta(type(_real_dt)):
    def __instancecheck__(cls, o):
        return isinstance(o, _real_dt)
    def __subclasscheck__(cls, c):
        return issubclass(c, _real_dt)
class _DMeta(type(_real_d)):
    def __instancecheck__(cls, o):
        return isinstance(o, _real_d)
    def __subclasscheck__(cls, c):
        return issubclass(c, _real_d)
class _DT(_real_dt, metaclass=_DTMeta):
    @classmethod
    def now(cls, tz=None):
        return _real_dt.fromtimestamp(time.time(), tz)
    @classmethod
    def utcnow(cls):
        return _real_dt.utcfromtimestamp(time.time())
    @classmethod
    def today(cls):
        return _real_dt.fromtimestamp(time.time())
class _D(_real_d, metaclass=_DMeta):
    @classmethod
    def today(cls):
        return _real_d.fromtimestamp(time.time())
_DT.__name__ = _DT.__qualname__ = "datetime"
_D.__name__ = _D.__qualname__ = "date"
_d.datetime, _d.date = _DT, _D
runpy.run_module("graphtage", run_name="__main__", alter_sys=True)
"""


def run_subprocess(args, hashseed=None, timeout=900, cwd=None, stdin=None, clock_shift=None, extra_env=None):
    env = dict(os.environ)
    env["PYTHONPATH"] = REPO
    if hashseed is not None:
        env["PYTHONHASHSEED"] = str(hashseed)
    env["PYTHONDONTWRITEBYTECODE"] = "1"
    if extra_env:
        env.update(extra_env)
    cmd = [PY, "-m", "graphtage"] if clock_shift is None else [PY, "-c", CLOCK_SHIM, str(clock_shift)]
    try:
        p = subprocess.run(cmd + list(args), stdout=subprocess.PIPE, stderr=subprocess.PIPE,
                           env=env, timeout=timeout, cwd=cwd or "/", input=stdin)
    except subprocess.TimeoutExpired:
        return {"rc": None, "out": b"", "err": b"", "exc": "Timeout"}
    tb = b"Traceback (most recent call last)" in p.stderr
    return {"rc": p.returncode, "out": p.stdout, "err": p.stderr, "exc": "Traceback" if tb else ""}


OPT_ARGS = {
    "auto": ["--dict-strategy", "auto"], "match": ["--dict-strategy", "match"], "none": ["--dict-strategy", "none"],
    "on": [], "off": ["--no-list-edits"], "offsame": ["--no-list-edits-when-same-length"],
}


def opt_args(opts):
    return OPT_ARGS[opts["strategy"]] + OPT_ARGS[opts["lists"]]
