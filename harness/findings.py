"""Known findings: genuine defects of the pinned tree that are recorded rather than repaired.

/verif/known_findings.json is committed and never written at run time.  An entry suppresses a
violation only if the violation's *signature* (a dict computed by the check from the failing
case) contains every key/value of the entry's "match" dict, so that a different failure of the
same property is still reported.  "fixed" entries suppress nothing.
"""
import json
import os

from .common import VERIF

PATH = os.path.join(VERIF, "known_findings.json")


def load():
    if not os.path.exists(PATH):
        return {"known": [], "fixed": []}
    with open(PATH) as f:
        return json.load(f)


def match(prop, signature):
    """Return the known-finding entry covering this violation signature, or None."""
    for entry in load().get("known", []):
        if entry.get("property") != prop:
            continue
        m = entry.get("match", {})
        if all(_covers(signature.get(k), v) for k, v in m.items()):
            return entry
    return None


def _covers(actual, wanted):
    if isinstance(wanted, list):
        return actual in wanted
    return actual == wanted
