"""The shared comparison corpus of C01, C02, C03, C10 (and the source of Bounded objects for C04):
pairs of documents x build options, each diffed by the real code, flattened, and validated by TLC
against spec/EditScriptTrace.tla.  Each property reads only its own clauses from the verdicts.
"""
import json
import multiprocessing as mp
import os
import sys

from . import docs, tlc
from .common import MachineryError, rng, tier, use_repo

use_repo()


def _quiet_env():
    """Progress bars go to a null stderr; `quiet` itself is a configuration under test (C05), not touched."""
    import graphtage.printer as gp
    devnull = open(os.devnull, "w")
    sys.stderr = devnull
    try:
        import colorama
        colorama.init = lambda *a, **k: None
        colorama.deinit = lambda *a, **k: None
    except Exception:
        pass
    return gp


# ---- case generation -------------------------------------------------------------------------
def gen_cases(kind, n, salt):
    """Deterministic list of case descriptors: (kind, a, b, opts).  kind in json/mset/xml."""
    r = rng("corpus", kind, salt)
    cases = []
    if kind == "small":
        flat = docs.small_flat()
        nested = docs.small_nested()
        pool = flat + nested
        for _ in range(n):
            a = r.choice(pool)
            b = r.choice(pool) if r.random() < 0.7 else docs.mutate(a, r, depth=1)
            cases.append(("json", a, b, r.choice(docs.ALL_OPTS)))
    elif kind == "random":
        for k in range(n):
            tw = k % 5 == 4          # every fifth pair: numbers with cross-type twins (1 / 1.0 / true) on both sides
            a = docs.random_doc(r, depth=r.choice((1, 2, 3, 3, 4)), twins=tw)
            c = r.random()
            if c < 0.70:
                b = docs.mutate(a, r, twins=tw)
                if tw and r.random() < 0.7:
                    # every list with a number at its head / tail: that number becomes its cross-type twin on the
                    # other side and the length changes in the middle (equal in Python, different as data)
                    def twin_ends(x):
                        if isinstance(x, dict):
                            return {k: twin_ends(v) for k, v in x.items()}
                        if isinstance(x, list):
                            y = [twin_ends(v) for v in x]
                            hit = False
                            for pos in (0, -1):
                                if y and isinstance(y[pos], (int, float)):
                                    t2 = docs.mutate(y[pos], r, twins=True)
                                    if isinstance(t2, (int, float)) and t2 == y[pos] and type(t2) is not type(y[pos]):
                                        y[pos] = t2
                                        hit = True
                            if hit:
                                y.insert(len(y) // 2 if len(y) > 1 else 1, r.choice((7, "mid", [1])))
                            return y
                        return x
                    b = twin_ends(a)
                    if not isinstance(b, (list, dict)) or r.random() < 0.3:
                        a = [a, 1, 0] if not isinstance(a, list) else a + [1]
                        b = twin_ends(a)
            elif c < 0.80:
                b = docs.permute_keys(a, r)
            else:
                b = docs.random_doc(r, depth=r.choice((1, 2, 3)))
            if c < 0.70 and r.random() < 0.3:
                b = docs.permute_keys(b, r)      # changed AND written with its keys in another order
            cases.append(("json", a, b, r.choice(docs.ALL_OPTS)))
    elif kind == "skewed":
        # containers of different sizes with elements of very different sizes (C03's focus)
        for _ in range(n):
            big = ["aaaaaaaaaa", "aaaaaaaaab", "bbbbbbbbbbbbbbbbbbbb", [1, 2, 3, 4, 5, 6], {"k": "vvvvvvvvvvvv"}]
            small = [1, 2, "a", "b", None, []]
            def mk(m):
                return [r.choice(big if r.random() < 0.5 else small) for _ in range(m)]
            if r.random() < 0.5:
                ka = r.sample(docs.RKEYS, r.randint(0, 5))
                kb = r.sample(docs.RKEYS, r.randint(0, 5))
                a = {k: r.choice(big + small) for k in ka}
                b = {k: r.choice(big + small) for k in kb}
            else:
                a, b = mk(r.randint(0, 5)), mk(r.randint(0, 5))
            cases.append(("json", a, b, r.choice(docs.ALL_OPTS)))
    elif kind == "neareq":
        for i in range(n):
            a = docs.random_doc(r, depth=r.choice((0, 1, 2, 3)), twins=(i % 4 >= 2))
            if i % 2 == 0:
                b, how = docs.permute_keys(a, r), "equal"
            else:
                b, how = docs.perturb(a, r)
                if b is None:
                    b, how = docs.permute_keys(a, r), "equal"
            cases.append(("json", a, b, r.choice(docs.ALL_OPTS), how))
    elif kind == "mset":
        for i in range(n):
            cases.append(("mset", i, None, {"strategy": "auto", "lists": "on"}))
    elif kind == "msetdup":
        for i in range(n):
            cases.append(("msetdup", i, None, {"strategy": "auto", "lists": "on"}))
    elif kind == "dupkeys":
        # mappings in which a KEY occurs more than once (DictNode "supports matching dictionaries with duplicate keys"; only
        # reachable through the API - every loader goes through a Python dict); all pairs of one mapping are different
        for i in range(n):
            cases.append(("dupkeys", i, None, {"strategy": r.choice(("auto", "match")), "lists": "on"}))
    elif kind == "repeatstr":
        # the same (from string, to string) pairs recur at several places of the two documents, next to renamed
        # keys that go through the matcher: state shared between equal sub-comparisons would show
        pool = ("ababb", "aaabbabb", "b", "bbb", "abab", "bab", "aabb", "bbaab", "a", "abba")
        for i in range(n):
            fs, ts = r.sample(pool, 3), r.sample(pool, 3)
            ka, kb = r.sample(("p", "q", "u", "v"), 2), r.sample(("r", "s", "w", "x"), 2)
            a = {"m": {ka[0]: fs[0], ka[1]: fs[1]}, "z": fs[r.randrange(2)], "y": [fs[2], fs[0]]}
            b = {"m": {kb[0]: ts[0], kb[1]: ts[1]}, "z": ts[r.randrange(2)], "y": [ts[2], ts[0]]}
            if r.random() < 0.3:
                a["m"][r.choice(("p2", "q2"))] = fs[2]
                b["m"][r.choice(("r2", "s2"))] = ts[2]
            cases.append(("json", a, b, r.choice(docs.ALL_OPTS[:6])))
    elif kind == "records":
        # the everyday shape "list of records": mappings with a long payload, one key renamed to a SIMILAR key (its
        # string edit needs several refinement steps), another list element changed later on
        renames = (("name_first", "first_name"), ("colour", "kolor"), ("address", "adress"), ("ident", "id"),
                   ("user_name", "username"), ("abcabc", "bcabca"))
        for i in range(n):
            def rec():
                d = {r.choice(("id", "n", "k")): r.randint(0, 5)}
                if r.random() < 0.8:
                    d["payload"] = r.choice("xyz") * r.choice((3, 12, 32, 50))
                if r.random() < 0.5:
                    d["tags"] = [r.choice(docs.WORDS) for _ in range(r.randint(0, 3))]
                return d
            a = [rec() for _ in range(r.randint(1, 4))]
            if r.random() < 0.3:
                a.insert(r.randint(0, len(a)), dict(a[0]))        # the same record twice (equal siblings)
            b = [dict(x) for x in a]
            j = r.randrange(len(a))
            old, new = r.choice(renames)
            if r.random() < 0.5:
                old, new = new, old
            a[j][old] = b[j][new] = r.randint(0, 3)
            tail = r.random()
            if tail < 0.4:
                a.append(r.randint(0, 3)); b.append(r.randint(4, 7))
            elif tail < 0.6:
                b.append(rec())
            elif tail < 0.8 and len(b) > 1:
                k2 = r.randrange(len(b))
                if k2 != j:
                    b[k2] = dict(b[k2], extra=1)
            if r.random() < 0.3:
                a, b = {"items": a, "n": 1}, {"items": b, "n": 1}
            cases.append(("json", a, b, r.choice(docs.ALL_OPTS[:6])))
    elif kind == "mixedkeys":
        for i in range(n):
            cases.append(("mixedkeys", i, None, r.choice(docs.ALL_OPTS)))
    elif kind == "wide":
        # many siblings, few changes: lists of 40-140 small leaves and mappings of 40-120 keys (size-dependent shortcuts,
        # "only for more than N items" code paths, long common prefixes / suffixes)
        for i in range(n):
            m = r.choice((40, 65, 70, 100, 140))
            if i % 2 == 0:
                a = [r.choice((0, 1, 2, "a", "b", None)) for _ in range(m)]
                b = list(a)
                for _ in range(r.randint(1, 3)):
                    c = r.random()
                    k = r.randrange(len(b)) if b else 0
                    if c < 0.35 and b:
                        del b[k]
                    elif c < 0.7:
                        b.insert(k, r.choice((3, "c", [1])))
                    elif b:
                        b[k] = r.choice((4, "d"))
                if r.random() < 0.3:
                    a, b = {"k": a}, {"k": b}
            else:
                a = {"k%03d" % j: r.choice((0, 1, "v")) for j in range(min(m, 120))}
                b = dict(a)
                for _ in range(r.randint(1, 3)):
                    c = r.random()
                    k = r.choice(sorted(b))
                    if c < 0.35:
                        del b[k]
                    elif c < 0.7:
                        b["n%03d" % r.randrange(1000)] = r.choice((2, "w"))
                    else:
                        b[k] = r.choice((5, "x"))
            cases.append(("json", a, b, r.choice((docs.ALL_OPTS[0], docs.ALL_OPTS[1], docs.ALL_OPTS[2], docs.ALL_OPTS[6]))))
    elif kind == "multiline":
        # strings spanning several lines edited next to single-line string edits, with more (indented) content after
        # them: formatter state carried from one string to the next, or from one call to the next, would show
        lines = ("line one", "line two", "second", "x", "", "tail end", "line 2")
        words = ("hello", "hellp", "alpha", "alpho", "name", "nam", "abc", "abd")
        for i in range(n):
            def multi():
                return "\n".join(r.choice(lines) for _ in range(r.randint(2, 3)))
            def block(depth):
                d = {}
                for k in r.sample(("a", "b", "c", "name", "text", "zzz", "other", "tail"), r.randint(2, 5)):
                    c = r.random()
                    if c < 0.3:
                        d[k] = multi()
                    elif c < 0.6:
                        d[k] = r.choice(words)
                    elif c < 0.8 and depth:
                        d[k] = block(depth - 1)
                    else:
                        d[k] = r.randint(0, 3)
                return d
            a = block(2)
            def edit(x):
                if isinstance(x, dict):
                    return {k: edit(v) for k, v in x.items()}
                if isinstance(x, str) and r.random() < 0.7:
                    if "\n" in x:
                        parts = x.split("\n")
                        j = r.randrange(len(parts))
                        parts[j] = r.choice(lines)
                        return "\n".join(parts)
                    return r.choice(words)
                return x
            b = edit(a)
            cases.append(("json", a, b, r.choice(docs.ALL_OPTS[:3])))
    elif kind == "rekeyed":
        # mappings whose members ALL have to be paired by the matcher (no key in common) and whose keys / values are longer
        # strings over a small alphabet: which pairing the matcher settles on depends on how far each candidate string edit
        # has been refined - sensitive to any state that survives from one edit (or one diff) to the next
        for i in range(n):
            word = lambda lo, hi: "".join(r.choice("abc") for _ in range(r.randint(lo, hi)))
            def doc():
                d = {}
                while len(d) < 2:
                    d[word(2, 4) if r.random() < 0.5 else word(8, 13)] = word(2, 3) if r.random() < 0.5 else word(5, 10)
                return d
            a, b = doc(), doc()
            while set(a) & set(b):
                b = doc()
            if i % 4 == 3:
                a, b = [a, word(2, 6)], [b, word(2, 6)]
            cases.append(("json", a, b, r.choice(docs.ALL_OPTS[:3])))
    elif kind in ("csv", "pyobj", "plist", "loaded", "crossplist", "mixedopts", "cli", "pickled"):
        for i in range(n):
            cases.append((kind, i, None, r.choice(docs.ALL_OPTS)))
    elif kind == "huge":
        # total costs beyond 2^16 (and single sizes close to it) that are cheap to compute: huge leaves are only ever
        # paired with small leaves or with containers of another kind (constant-cost edits)
        for i in range(n):
            cases.append(("huge", i, None, r.choice(docs.ALL_OPTS)))
    elif kind == "xml":
        for i in range(n):
            cases.append(("xml", i, None, r.choice(docs.ALL_OPTS[:3] + docs.ALL_OPTS[6:])))
    else:
        raise MachineryError("unknown corpus kind %r" % kind)
    return cases


CLI_SPELLINGS = {
    "none": (["-k"], ["--no-key-edits"], ["--dict-strategy", "none"], ["-ds", "none"], ["--dict-strategy=none"]),
    "auto": ([], ["--dict-strategy", "auto"], ["-ds", "auto"]),
    "match": (["--dict-strategy", "match"], ["-ds", "match"]),
    "on": ([],), "off": (["-l"], ["--no-list-edits"]), "offsame": (["-ll"], ["--no-list-edits-when-same-length"]),
}


def cli_trees(da, db, opts, r):
    import json
    import tempfile
    import graphtage.tree
    from . import cli
    from .common import scratch
    d = tempfile.mkdtemp(prefix="clitrees-", dir=scratch())
    fa, fb = os.path.join(d, "a.json"), os.path.join(d, "b.json")
    with open(fa, "w") as f:
        json.dump(da, f)
    with open(fb, "w") as f:
        json.dump(db, f)
    groups = [[fa, fb], ["--no-status"], ["--no-color"], list(r.choice(CLI_SPELLINGS[opts["strategy"]])),
              list(r.choice(CLI_SPELLINGS[opts["lists"]])), r.choice(([], [], ["-e"], ["-d"]))]
    r.shuffle(groups)               # options before, between (no: the two paths stay adjacent) and after the file names
    argv = [x for g in groups for x in g]
    got = []
    cls = graphtage.tree.TreeNode
    old = cls.diff, cls.get_all_edits, cls.get_all_edit_contexts

    class Taken(Exception):
        pass

    def take(self, node, *a, **k):
        got.append((self, node))
        raise Taken()
    cls.diff = cls.get_all_edits = cls.get_all_edit_contexts = take
    try:
        res = cli.run_main(argv)
    finally:
        cls.diff, cls.get_all_edits, cls.get_all_edit_contexts = old
        for p in (fa, fb):
            os.unlink(p)
        os.rmdir(d)
    if not got:
        raise MachineryError("the command did not reach the comparison for %s: %s" % (argv, res))
    return got[0]


def msetdup_collide(case, salt):
    """For a pair of multisets with duplicates: can two EQUAL elements of the first collection both be paired by the matcher?
    (some element occurs at least twice among the elements not shared with the second collection, and the second has at
    least two unshared elements).  That is the shape in which the value-keyed matcher result collapses entries - the
    known findings F17 / F20; every other duplicate shape is handled correctly by the pinned code (4 500 cases, 3 salts)."""
    import collections
    a, b = build_pair(case, salt)
    ca = collections.Counter(repr(x) for x in a)
    cb = collections.Counter(repr(x) for x in b)
    ra, rb = ca - cb, cb - ca
    return max(ra.values(), default=0) >= 2 and sum(rb.values()) >= 2


def build_pair(case, salt):
    kind, a, b, opts = case[:4]
    if kind == "json":
        return docs.build(a, opts), docs.build(b, opts)
    if kind == "mset":
        r = rng("mset", salt, a)
        return docs.random_mset_tree(r), docs.random_mset_tree(r)
    if kind == "csv":
        r = rng("csv", salt, a)
        return docs.random_csv_pair(r, opts)
    if kind == "loaded":
        r = rng("loaded", salt, a)
        return docs.random_loaded_pair(r, opts)
    if kind == "crossplist":
        # a property list compared with another format: the plist root wrapper is a file-format artefact, so these pairs
        # only serve the cost views of C03 (the element accounting of C01 / C10 has no place for the wrapper)
        r = rng("crossplist", salt, a)
        return docs.random_loaded_pair(r, opts, cross=r.choice(("plist>json", "plist>yaml")))
    if kind == "mixedopts":
        # the two trees are built with DIFFERENT build options (different callers, an options object changed between the two
        # build_tree() calls): e.g. fixed-key mappings on one side, ordinary mappings on the other.  Used by C01 only (what
        # the matching options promise for such a pair is not defined, so C10's clauses do not apply).
        r = rng("mixedopts", salt, a)
        da = docs.random_doc(r, depth=r.choice((2, 3)))
        while not isinstance(da, (dict, list)) or not da:
            da = docs.random_doc(r, depth=r.choice((2, 3)))
        db = docs.mutate(da, r)
        other = r.choice([o for o in docs.ALL_OPTS if o != opts])
        return docs.build(da, opts), docs.build(db, other)
    if kind == "cli":
        # the trees the COMMAND builds for an option set, under one of the documented spellings of that option set: the two
        # files are given to graphtage.__main__.main (in-process) and the trees it hands to diff() / get_all_edits() are taken
        r = rng("cli", salt, a)
        da = docs.random_doc(r, depth=r.choice((2, 3)))
        while not isinstance(da, (dict, list)) or not da:
            da = docs.random_doc(r, depth=r.choice((2, 3)))
        db = docs.mutate(da, r)
        if isinstance(da, dict) and isinstance(db, dict) and r.random() < 0.6:
            # renamed keys: what the 'none' strategy must NOT pair
            for k in r.sample(sorted(db, key=str), min(len(db), r.randint(1, 2))):
                db[str(k) + r.choice(("x", "_new", "2"))] = db.pop(k)
        return cli_trees(da, db, opts, r)
    if kind == "pickled":
        # trees of the pickle file type (a decompiled module: assignments, calls, subscripts - data-class nodes with slots):
        # plain data, one slot changed while the slots before it stay as they are
        import pickle
        import tempfile
        import graphtage
        from .common import scratch
        r = rng("pickled", salt, a)
        da = docs.random_doc(r, depth=r.choice((1, 2, 3)))
        while not isinstance(da, (dict, list)) or not da:
            da = docs.random_doc(r, depth=r.choice((1, 2, 3)))
        db = docs.mutate(da, r)
        if a % 3 == 0:
            import collections
            da, db = collections.OrderedDict(x=da, y=[1, 2, 3, 4, 5, 6]), collections.OrderedDict(x=da, y=[1, 9, 3, 4, 7, 8, 6])
        trees = []
        for d in (da, db):
            fd, path = tempfile.mkstemp(suffix=".pickle", dir=scratch())
            with os.fdopen(fd, "wb") as f:
                f.write(pickle.dumps(d, protocol=r.choice((2, 4))))
            try:
                trees.append(graphtage.FILETYPES_BY_TYPENAME["pickle"].build_tree(path, docs.build_options(opts)))
            finally:
                os.unlink(path)
        return trees[0], trees[1]
    if kind == "mixedkeys":
        r = rng("mixedkeys", salt, a)
        da, db = docs.random_mixedkeys_docs(r)
        return docs.build(da, opts), docs.build(db, opts)
    if kind == "pyobj":
        r = rng("pyobj", salt, a)
        return docs.random_pyobj_pair(r, opts)
    if kind == "plist":
        r = rng("plist", salt, a)
        from graphtage.plist import PLISTNode
        def noneless(v):      # a plist cannot hold null
            if isinstance(v, dict):
                return {k: noneless(w) for k, w in v.items() if w is not None}
            if isinstance(v, list):
                return [noneless(w) for w in v if w is not None]
            return "nil" if v is None else v
        x = noneless(docs.random_doc(r, depth=2))
        y = noneless(docs.mutate(x, r) if r.random() < 0.8 else docs.random_doc(r, depth=2))
        if a % 3 == 0:
            # a ROOT dictionary (or a one-element root array holding it) with RENAMED keys whose names and values are long
            # and differ in several characters: the pair of key/value pairs the matcher settles on is still a wide interval
            # when the matching is known, i.e. the mapping edit below the wrapper is "complete" long before it is definitive
            words = ("colour", "shade", "dark green", "dark olive green", "probe", "surface finish", "finish", "matt black",
                     "gloss white", "identifier", "ident", "description", "descr.", "north-west", "south-west")
            x = {r.choice(words): r.choice(words + (10, 2.5, True)) for _ in range(r.randint(2, 4))}
            y = dict(x)
            for k in r.sample(sorted(x), min(len(x), r.randint(1, 2))):
                v = y.pop(k)
                y[r.choice([w for w in words if w not in x])] = r.choice(words) if r.random() < 0.7 else v
            if r.random() < 0.25:
                x, y = [x], [y]
        return PLISTNode(docs.build(x, opts)), PLISTNode(docs.build(y, opts))
    if kind == "huge":
        r = rng("huge", salt, a)
        k = a % 6
        big = lambda ch: ch * r.randint(22000, 34000)
        if k >= 4:
            # a total cost of EXACTLY 2^16 - 1, 2^16 or 2^16 + 1 (the boundaries of 16-bit arithmetic): two huge strings are
            # removed from (or inserted into) a list; each costs its size + 1
            import graphtage
            target = (2 ** 16, 2 ** 16 - 1, 2 ** 16 + 1)[(a // 6) % 3]
            m1 = r.randint(20000, 40000)
            c1 = graphtage.StringNode("a" * m1).total_size + 1
            probe = graphtage.StringNode("b" * 1000).total_size - 1000          # size of a string beyond its length
            if k == 4:
                # the plain shape: two huge strings whose sizes add up to the target, removed from / inserted into a list
                # (for a list of non-empty leaves the cost of an element is its size, and the edit's own upper bound is
                # the same number)
                x, y = ["a" * m1, "b" * (target - m1)], []
                if r.random() < 0.3:
                    x, y = [x, 1], [y, 1]
                if r.random() < 0.5:
                    x, y = y, x
                return docs.build(x, opts), docs.build(y, opts)
            m2 = target - c1 - 1 - probe
            flip = r.random() < 0.5
            for _ in range(3):          # calibrate against the cost model itself (penalties depend on the list's content)
                x, y = ["a" * m1, "b" * m2], []
                if k == 5:
                    x, y = {"k": x, "n": 1}, {"k": y, "n": 1}
                if flip:
                    x, y = y, x
                ta, tb = docs.build(x, opts), docs.build(y, opts)
                e = ta.edits(tb)
                while e.tighten_bounds():
                    pass
                got = e.bounds().upper_bound
                if got == target:
                    break
                m2 += target - got
            return docs.build(x, opts), docs.build(y, opts)
        if k == 0:
            x, y = [big("x"), big("y"), big("z")][: r.randint(2, 3)], [1, 2, 3][: r.randint(1, 3)]
        elif k == 1:
            x, y = [7, big("q")], [big("w"), 8, 9]
            y = [[y[0]], 8, 9]
        elif k == 2:
            x = [big("s"), {("k%d" % j): j for j in range(r.randint(3000, 4500))}]
            y = [list(range(1000, 1000 + r.randint(6000, 8000))), [list(range(100, 100 + r.randint(5000, 7000)))]]
        else:
            x = {"a": big("u"), "b": big("v"), "c": 1}
            y = {"a": [1], "b": {"z": 2}, "d": 1}
        if r.random() < 0.5:
            x, y = y, x
        return docs.build(x, opts), docs.build(y, opts)
    if kind == "dupkeys":
        import graphtage
        r = rng("dupkeys", salt, a)

        def dnode():
            pairs, seen = [], set()
            while len(pairs) < r.randint(1, 4):
                k, v = r.choice(("k", "k", "a", "b")), r.choice((0, 1, 2, 3, 4, "x", "xy"))
                if (k, v) in seen:
                    continue
                seen.add((k, v))
                pairs.append((k, v))
            return pairs

        def mk(pairs):
            nodes = [graphtage.KeyValuePairNode(graphtage.StringNode(k),
                                                graphtage.IntegerNode(v) if isinstance(v, int) else graphtage.StringNode(v),
                                                allow_key_edits=True) for k, v in pairs]
            return graphtage.DictNode(sorted(nodes), auto_match_keys=(opts["strategy"] == "auto"))
        pa, pb = dnode(), dnode()
        if a % 4 == 3:
            # the SAME pair more often in one mapping than in the other (and nothing else different): a surplus copy is an
            # insertion / a removal like any other
            pb = list(pa)
            if r.random() < 0.6:
                pb.append(r.choice(pa))
            else:
                pa = pa + [r.choice(pa)]
            if r.random() < 0.3:
                return graphtage.ListNode([mk(pa)]), graphtage.ListNode([mk(pb)])
        return mk(pa), mk(pb)
    if kind == "msetdup":
        r = rng("msetdup", salt, a)
        return docs.random_mset_tree(r, dup=True), docs.random_mset_tree(r, dup=True)
    if kind == "xml":
        r = rng("xml", salt, a)
        e = docs.random_xml_element(r)
        e2 = docs.mutate_xml(e, r) if r.random() < 0.8 else docs.random_xml_element(r)
        c = r.random()
        if c < 0.15:
            e2 = docs.relayout_xml(e, r)             # equal as data, different layout (indented vs. on one line)
        elif c < 0.3:
            e, e2 = docs.relayout_xml(e, r), docs.relayout_xml(e2, r)
        return docs.build_xml(e, opts), docs.build_xml(e2, opts)
    raise MachineryError("unknown case kind %r" % kind)


# ---- recording (worker processes) --------------------------------------------------------------
def _record_one(args):
    case, salt = args
    from .flatten import Inconclusive, record_diff
    try:
        ta, tb = build_pair(case, salt)
    except Exception as ex:
        return {"status": "build-error", "exc": "%s: %s" % (type(ex).__name__, ex)}
    try:
        trace, _ = record_diff(ta, tb, case[3])
        return {"status": "ok", "trace": trace, "repr": (repr(ta)[:300], repr(tb)[:300])}
    except Inconclusive as ex:
        return {"status": "inconclusive", "why": str(ex), "repr": (repr(ta)[:300], repr(tb)[:300])}
    except RecursionError as ex:
        return {"status": "raised", "exc": "RecursionError", "repr": (repr(ta)[:300], repr(tb)[:300])}
    except Exception as ex:
        import traceback
        tb_ = traceback.extract_tb(ex.__traceback__)
        where = "%s:%d" % (os.path.basename(tb_[-1].filename), tb_[-1].lineno) if tb_ else "?"
        return {"status": "raised", "exc": "%s: %s" % (type(ex).__name__, str(ex)[:200]), "where": where,
                "repr": (repr(ta)[:300], repr(tb)[:300])}


def _init_worker():
    _quiet_env()


def record_cases(cases, salt, procs=None):
    procs = procs or min(16, os.cpu_count() or 4)
    args = [(c, salt) for c in cases]
    if len(cases) < 40:
        _quiet_env_guarded()
        saved = sys.stderr
        sys.stderr = open(os.devnull, "w")      # progress bars of the code under test
        try:
            return [_record_one(a) for a in args]
        finally:
            sys.stderr.close()
            sys.stderr = saved
    ctx = mp.get_context("fork")
    with ctx.Pool(procs, initializer=_init_worker, maxtasksperchild=400) as pool:
        return pool.map(_record_one, args, chunksize=16)


_quiet_done = [False]


def _quiet_env_guarded():
    if not _quiet_done[0]:
        import graphtage  # noqa
        try:
            import colorama
            colorama.init = lambda *a, **k: None
        except Exception:
            pass
        _quiet_done[0] = True


# ---- validation ------------------------------------------------------------------------------------
def validate(traces, shards=8):
    """Validate recorded traces with TLC (EditScriptTrace); returns (errs per trace, stats)."""
    if not traces:
        return [], {"generated": 0, "distinct": 0, "runs": 0, "wall": 0.0}
    shards = max(1, min(shards, len(traces) // 50 or 1))
    parts = [traces[i::shards] for i in range(shards)]
    idx = [list(range(len(traces)))[i::shards] for i in range(shards)]
    out = [None] * len(traces)
    stats = {"generated": 0, "distinct": 0, "runs": 0, "wall": 0.0}
    from concurrent.futures import ThreadPoolExecutor

    def job(k):
        return tlc.validate_traces("EditScriptTrace", parts[k], name="EST-%d" % k, workers=1)
    with ThreadPoolExecutor(max_workers=shards) as ex:
        results = list(ex.map(job, range(shards)))
    for k, (verdicts, st) in enumerate(results):
        for pos, tid in enumerate(idx[k], 1):
            out[tid] = verdicts[pos]["errs"]
        for key in ("generated", "distinct", "runs"):
            stats[key] += st[key]
        stats["wall"] = max(stats["wall"], st["wall"])
    return out, stats
