"""Projection: real graphtage tree -> node table (the abstract document of spec/EditScript.tla).

Part of the trusted base.  It walks the node structure itself (children(), key/value, tag/attrib/
text, object) and never calls to_obj() or the nodes' own __eq__/__hash__, both of which are
under test.
"""
import hashlib


def _h(s: str) -> str:
    return hashlib.sha1(s.encode("utf-8", "surrogatepass")).hexdigest()[:16]


def _text(s) -> str:
    """ASCII-safe injective rendering of a scalar's text (TLC's JSON reader is byte oriented)."""
    out = []
    for ch in str(s):
        o = ord(ch)
        if 48 <= o <= 57 or 65 <= o <= 90 or 97 <= o <= 122 or ch in " _-.,:+":
            out.append(ch)
        else:
            out.append("%%%x;" % o)
    return "".join(out)


def kind_of(node):
    import graphtage
    from graphtage import xml as gxml
    try:
        from graphtage.plist import PLISTNode
    except Exception:  # pragma: no cover
        PLISTNode = ()
    if isinstance(node, graphtage.NullNode):
        return "null"
    if isinstance(node, graphtage.BoolNode):
        return "bool"
    if isinstance(node, graphtage.IntegerNode):
        return "int"
    if isinstance(node, graphtage.FloatNode):
        return "float"
    if isinstance(node, graphtage.StringNode):
        return "str"
    if isinstance(node, graphtage.LeafNode):
        o = node.object
        if o is None:
            return "null"
        if isinstance(o, bool):
            return "bool"
        if isinstance(o, int):
            return "int"
        if isinstance(o, float):
            return "float"
        if isinstance(o, (str, bytes)):
            return "str"
        return "leaf"
    if isinstance(node, graphtage.KeyValuePairNode):
        return "kvp"
    if isinstance(node, graphtage.MappingNode):
        return "map"
    if isinstance(node, graphtage.MultiSetNode):
        return "mset"
    if isinstance(node, gxml.XMLElementChildren):
        return "xlist"
    if isinstance(node, graphtage.ListNode):
        from graphtage import csv as gcsv
        if isinstance(node, (gcsv.CSVNode, gcsv.CSVRow)):
            return "xlist"      # built without the caller's list options: no option expectation (C10)
        return "list"
    if isinstance(node, gxml.XMLElement):
        return "xml"
    if PLISTNode and isinstance(node, PLISTNode):
        return "plist"
    return "obj"


def _children(node, kind):
    """[(slot, child)] in document order."""
    if kind == "kvp":
        return [(1, node.key), (2, node.value)]
    if kind == "xml":
        res = [(1, node.tag), (2, node.attrib)]
        if node.text is not None:
            res.append((3, node.text))
        res.append((4, node._children))
        return res
    if kind in ("int", "float", "bool", "null", "str", "leaf"):
        return []
    return [(i + 1, c) for i, c in enumerate(node.children())]


def _scalar_forms(node, kind):
    o = getattr(node, "object", None)
    if isinstance(o, bytes):
        o = o.decode("utf-8", "replace")
    strict = "%s:%s" % (kind, _text(repr(o) if kind == "float" else o))
    # cross-type numeric twins (1 / 1.0 / true are == in Python) are DIFFERENT document values: a number is not a boolean
    # and `1` is not `1.0` in any of the file formats.  (Until round 4 they were identified in the loose hash - an
    # "ambiguous domain" - which hid finding F29: containers compared them equal while leaves did not.)
    loose = strict
    return strict, loose


class Table:
    """Node table of one tree + identity index (object id -> list of table ids, one per occurrence)."""

    def __init__(self, root, xml_text_strip=True):
        self.rows = []
        self.nodes = []
        self.by_identity = {}
        self.xml_text_strip = xml_text_strip
        self._build(root, 0, 1, None)

    def _build(self, node, parent, slot, parent_kind):
        kind = kind_of(node)
        idx = len(self.rows) + 1
        row = {"kind": kind, "parent": parent, "slot": slot, "key": "", "ch": "", "lh": "", "size": 0}
        self.rows.append(row)
        self.nodes.append(node)
        self.by_identity.setdefault(id(node), []).append(idx)
        try:
            row["size"] = int(node.total_size)
        except Exception:
            row["size"] = 0
        kids = _children(node, kind)
        if not kids and kind in ("int", "float", "bool", "null", "str", "leaf"):
            strict, loose = _scalar_forms(node, kind)
            if parent_kind == "xml" and slot == 3 and self.xml_text_strip and kind == "str":
                # XML text is compared modulo surrounding whitespace by the code's own equality: ambiguous domain
                o = node.object
                loose = "str:" + _text(o.strip() if isinstance(o, str) else o)
            row["ch"], row["lh"] = _h(strict), _h(loose)
            return idx
        sub = []
        for s, c in kids:
            cid = self._build(c, idx, s, kind)
            sub.append((s, self.rows[cid - 1]))
        if kind == "kvp":
            krow = sub[0][1]
            row["key"] = krow["ch"]
        if kind in ("map", "mset"):
            strict = kind + "{" + ",".join(sorted(r["ch"] for _, r in sub)) + "}"
            loose = kind + "{" + ",".join(sorted(r["lh"] for _, r in sub)) + "}"
        elif kind == "xml":
            strict = "xml[" + ",".join("%d=%s" % (s, r["ch"]) for s, r in sub) + "]"
            # an absent text and a whitespace-only text are twins for the code's equality
            loose = "xml[" + ",".join("%d=%s" % (s, r["lh"]) for s, r in sub
                                      if not (s == 3 and r["lh"] == _h("str:"))) + "]"
        else:
            k = "list" if kind in ("list", "xlist") else kind
            strict = k + "[" + ",".join(r["ch"] for _, r in sub) + "]"
            loose = k + "[" + ",".join(r["lh"] for _, r in sub) + "]"
            if kind == "xlist" and not any(True for _ in sub):
                pass
        row["ch"], row["lh"] = _h(strict), _h(loose)
        return idx

    def json(self):
        return self.rows

    def kids(self, idx):
        return [i + 1 for i, r in enumerate(self.rows) if r["parent"] == idx]


def plain(node):
    """Independent plain-Python abstract value of a tree (used by C09/C12/C18): nested tuples, bags sorted."""
    kind = kind_of(node)
    if kind in ("int", "float", "bool", "null", "str", "leaf"):
        o = getattr(node, "object", None)
        if isinstance(o, bytes):
            o = o.decode("utf-8", "replace")
        return (kind, repr(o))
    kids = [plain(c) for _, c in _children(node, kind)]
    if kind in ("map", "mset"):
        return (kind, tuple(sorted(kids, key=repr)))
    if kind == "xlist":
        kind = "list"
    return (kind, tuple(kids))
