"""Shared plumbing for every check: repo path, seed, tier, scratch directories."""
import atexit
import hashlib
import json
import os
import random
import shutil
import sys
import tempfile
import time

VERIF = os.path.dirname(os.path.dirname(os.path.abspath(__file__)))
REPO = os.environ.get("VERIF_REPO", "/repo")
SPEC = os.path.join(VERIF, "spec")
EVIDENCE = os.path.join(VERIF, "evidence")
REPLAYS = os.path.join(EVIDENCE, "replays")
PY = "/venv/bin/python"

# exit codes
OK, VIOLATION, MACHINERY = 0, 1, 2


class MachineryError(Exception):
    """The verification machinery itself failed (TLC crash, SANY error, generator bug).

    Never reported as a VIOLATION: exit status 2."""


def seed() -> int:
    try:
        return int(os.environ.get("VERIF_SEED", "0"))
    except ValueError:
        return 0


def tier(default="quick") -> str:
    t = os.environ.get("VERIF_TIER", default)
    return t if t in ("quick", "thorough") else default


_scratch = None


def scratch() -> str:
    """A per-invocation scratch directory outside /repo, /verif and /tmp, removed on exit."""
    global _scratch
    if _scratch is None:
        base = os.environ.get("VERIF_SCRATCH_BASE", "/var/tmp")
        os.makedirs(base, exist_ok=True)
        _scratch = tempfile.mkdtemp(prefix="gtverif-", dir=base)
        if not os.environ.get("VERIF_KEEP_SCRATCH"):
            atexit.register(shutil.rmtree, _scratch, ignore_errors=True)
    return _scratch


def use_repo():
    """Make `import graphtage` resolve to the working tree under REPO (rebuild = re-import; pure Python)."""
    if REPO not in sys.path:
        sys.path.insert(0, REPO)
    # keep byte-code out of the repository
    sys.dont_write_bytecode = True


def rng(*salt) -> random.Random:
    h = hashlib.sha256(("%d|" % seed() + "|".join(map(str, salt))).encode()).digest()
    return random.Random(int.from_bytes(h[:8], "big"))


def digest(obj) -> str:
    try:
        text = json.dumps(obj, sort_keys=True, default=str)
    except TypeError:
        # mappings with keys of mixed types cannot be sorted by json: insertion order is deterministic here
        text = json.dumps(obj, default=str) if not isinstance(obj, dict) else repr(obj)
    return hashlib.sha256(text.encode()).hexdigest()[:12]


class Timer:
    def __init__(self):
        self.t0 = time.time()

    def s(self) -> float:
        return round(time.time() - self.t0, 3)
