"""Running TLC / SANY and reading their output.

Every TLC invocation goes through `run_tlc`; its summary numbers (states generated,
distinct states, depth) are what the evidence files report.
"""
import json
import os
import re
import subprocess
import time

from .common import MachineryError, SPEC, scratch

JAR_CP = "/opt/veriftools/tla/tla2tools.jar:/opt/veriftools/tla/CommunityModules-deps.jar"

_counter = [0]


class TLCResult:
    def __init__(self, out, rc, wall):
        self.out = out
        self.rc = rc
        self.wall = wall
        m = re.search(r"(\d+) states generated, (\d+) distinct states found", out)
        self.generated = int(m.group(1)) if m else 0
        self.distinct = int(m.group(2)) if m else 0
        if not m:
            # simulation mode prints a different progress line
            m2 = re.findall(r"Progress: (\d+) states checked, (\d+) traces generated", out)
            if m2:
                self.generated = int(m2[-1][0])
                self.distinct = int(m2[-1][0])
        m = re.search(r"The depth of the complete state graph search is (\d+)", out)
        self.depth = int(m.group(1)) if m else 0
        self.completed = "Model checking completed. No error has been found." in out
        self.invariant_violated = re.findall(r"Invariant (\S+) is violated", out)
        self.property_violated = re.findall(r"(?:Temporal properties were violated|Action property (\S+) is violated)", out)
        self.deadlock = "Deadlock reached" in out
        self.errors = [l for l in out.splitlines() if l.startswith("Error:")]

    @property
    def printed(self):
        """Lines produced by PrintT(ToJson(..)) : TLC prints the TLA+ string with quotes and escapes."""
        res = []
        for line in self.out.splitlines():
            line = line.strip()
            if line.startswith('"{') or line.startswith('"['):
                try:
                    res.append(json.loads(_tla_string_to_json(line)))
                except Exception:
                    pass
        return res

    def coverage(self):
        """Per-action counts from -coverage output: {action: (distinct, total)}."""
        cov = {}
        for m in re.finditer(r"<(\w+) line \d+, col \d+ to line \d+, col \d+ of module (\w+)>: (\d+):(\d+)", self.out):
            cov[m.group(2) + "." + m.group(1)] = (int(m.group(3)), int(m.group(4)))
        return cov


def _tla_string_to_json(line: str) -> str:
    # TLC prints a TLA+ string value as "...": inner quotes and backslashes are escaped the JSON way
    s = json.loads(line)
    return s


def cfg_text(spec="Spec", constants=None, invariants=(), properties=(), constraints=(),
             action_constraints=(), postcondition=None, init=None, next_=None, view=None,
             deadlock=False, symmetry=None):
    lines = []
    if init and next_:
        lines += ["INIT %s" % init, "NEXT %s" % next_]
    else:
        lines.append("SPECIFICATION %s" % spec)
    if constants:
        lines.append("CONSTANTS")
        for k, v in constants.items():
            lines.append("  %s = %s" % (k, tla_value(v)) if not (isinstance(v, str) and v.startswith("<-")) else "  %s %s" % (k, v))
    for i in invariants:
        lines.append("INVARIANT %s" % i)
    for p in properties:
        lines.append("PROPERTY %s" % p)
    for c in constraints:
        lines.append("CONSTRAINT %s" % c)
    for c in action_constraints:
        lines.append("ACTION_CONSTRAINT %s" % c)
    if postcondition:
        lines.append("POSTCONDITION %s" % postcondition)
    if view:
        lines.append("VIEW %s" % view)
    if symmetry:
        lines.append("SYMMETRY %s" % symmetry)
    lines.append("CHECK_DEADLOCK %s" % ("TRUE" if deadlock else "FALSE"))
    return "\n".join(lines) + "\n"


def tla_value(v):
    """Python value -> cfg literal (ints, bools, strings, sets (python set/frozenset), tuples/lists as sequences)."""
    if isinstance(v, bool):
        return "TRUE" if v else "FALSE"
    if isinstance(v, int):
        if v < 0:
            raise MachineryError("cfg files cannot hold negative literals; use a module-level definition")
        return str(v)
    if isinstance(v, str):
        return json.dumps(v)
    if isinstance(v, (set, frozenset)):
        return "{" + ", ".join(sorted(tla_value(x) for x in v)) + "}"
    if isinstance(v, (list, tuple)):
        return "<<" + ", ".join(tla_value(x) for x in v) + ">>"
    raise MachineryError("cannot render %r in a cfg" % (v,))


NO_COVERAGE = {"Levenshtein", "LevenshteinMC"}


def run_tlc(module, cfg, workers=16, env=None, simulate=None, depth=None, coverage=None,
            timeout=600, seed=None, extra=(), heap="4g", dfs_queue=False, name=None):
    """Run TLC on spec/<module>.tla with the given cfg text (or path). Returns TLCResult.

    Raises MachineryError when TLC itself failed (parse error, evaluation error, crash, timeout)."""
    if coverage is None:
        # per-action coverage for model-checking runs (not for generators, simulations and trace batches): the evidence
        # lists how often every action was taken, so that a property checked on a never-taken action shows as vacuous.
        # Coverage bookkeeping is expensive for specifications built from deeply recursive operators (it exhausted the
        # heap on Levenshtein.tla): if the run with coverage fails, it is repeated once without.
        base = os.path.basename(module)
        auto = simulate is None and not base.endswith(("Gen", "Trace", "TraceMC")) and "TRACE_FILE" not in (env or {}) \
            and base not in NO_COVERAGE
        if auto:
            try:
                return run_tlc(module, cfg, workers=workers, env=env, simulate=simulate, depth=depth, coverage=True,
                               timeout=timeout, seed=seed, extra=extra, heap=heap, dfs_queue=dfs_queue, name=name)
            except MachineryError:
                pass
        coverage = False
    _counter[0] += 1
    tag = "%s-%d" % (name or module, _counter[0])
    work = os.path.join(scratch(), tag)
    os.makedirs(work, exist_ok=True)
    if "\n" in cfg or not os.path.exists(cfg):
        cfg_path = os.path.join(work, module + ".cfg")
        with open(cfg_path, "w") as f:
            f.write(cfg)
    else:
        cfg_path = cfg
    mod_path = module if os.path.isabs(module) else os.path.join(SPEC, module + ".tla")
    cmd = ["java", "-XX:+UseParallelGC", "-Xmx" + heap, "-Xss512m"]
    if dfs_queue:
        cmd.append("-Dtlc2.tool.queue.IStateQueue=StateDeque")
    cmd += ["-cp", JAR_CP, "tlc2.TLC", "-workers", str(workers), "-metadir", os.path.join(work, "meta"),
            "-noGenerateSpecTE", "-config", cfg_path]
    if simulate:
        cmd += ["-simulate", simulate]
    if depth:
        cmd += ["-depth", str(depth)]
    if seed is not None:
        cmd += ["-seed", str(seed)]
    if coverage:
        cmd += ["-coverage", "1"]
    cmd += list(extra)
    cmd.append(mod_path)
    e = dict(os.environ)
    if env:
        e.update({k: str(v) for k, v in env.items()})
    t0 = time.time()
    try:
        p = subprocess.run(cmd, cwd=work, env=e, stdout=subprocess.PIPE, stderr=subprocess.STDOUT,
                           timeout=timeout, text=True, errors="replace")
    except subprocess.TimeoutExpired as ex:
        raise MachineryError("TLC timed out after %ss on %s" % (timeout, module)) from ex
    res = TLCResult(p.stdout, p.returncode, time.time() - t0)
    res.work = work
    # TLC exit codes: 0 ok, 10 assumption, 11 deadlock, 12 safety violation, 13 liveness violation; >=75 errors
    if p.returncode not in (0, 10, 11, 12, 13):
        raise MachineryError("TLC failed on %s (rc=%d):\n%s" % (module, p.returncode, p.stdout[-4000:]))
    return res


def sany(path):
    p = subprocess.run(["java", "-cp", JAR_CP, "tla2sany.SANY", path], cwd=os.path.dirname(path),
                       stdout=subprocess.PIPE, stderr=subprocess.STDOUT, text=True)
    ok = p.returncode == 0 and "Semantic errors" not in p.stdout and "Parse Error" not in p.stdout \
        and "Fatal errors" not in p.stdout
    return ok, p.stdout


def validate_traces(module, traces, constants=None, name=None, workers=1, timeout=1800, extra_env=None,
                    chunk=None):
    """Validate a batch of recorded traces against the trace specification spec/<module>.tla.

    `traces` is a list of JSON-able objects (the trace spec decides their layout). The trace spec
    reads them from IOEnv.TRACE_FILE, starts one behaviour per trace (variable `tid`) and prints
    exactly one verdict record per trace: {"tid": n, "v": "ACCEPT"|"REJECT", "step": k, "clause": s}.

    Returns (verdicts: dict tid(1-based) -> record, stats dict). A trace without verdict, or any
    TLC error, is a machinery failure."""
    if not traces:
        return {}, {"generated": 0, "distinct": 0, "runs": 0, "wall": 0.0}
    verdicts = {}
    stats = {"generated": 0, "distinct": 0, "runs": 0, "wall": 0.0}
    chunk = chunk or len(traces)
    for base in range(0, len(traces), chunk):
        part = traces[base:base + chunk]
        _counter[0] += 1
        path = os.path.join(scratch(), "traces-%s-%d.json" % (name or module, _counter[0]))
        with open(path, "w") as f:
            json.dump(part, f)
        cfg = cfg_text(spec="TraceSpec", constants=constants, invariants=["Report"])
        env = {"TRACE_FILE": path}
        if extra_env:
            env.update(extra_env)
        res = run_tlc(module, cfg, workers=workers, env=env, timeout=timeout, name=name)
        if not res.completed:
            raise MachineryError("trace validation with %s did not complete:\n%s" % (module, res.out[-3000:]))
        for rec in res.printed:
            if isinstance(rec, dict) and "tid" in rec and "v" in rec:
                verdicts[base + rec["tid"]] = rec
        stats["generated"] += res.generated
        stats["distinct"] += res.distinct
        stats["runs"] += 1
        stats["wall"] += res.wall
        os.unlink(path)
    missing = [i for i in range(1, len(traces) + 1) if i not in verdicts]
    if missing:
        raise MachineryError("%s: %d traces got no verdict (first: %d); the trace specification is stuck there"
                             % (module, len(missing), missing[0]))
    return verdicts, stats
