"""./check --setup : parse every specification with SANY, create output directories."""
import glob
import os
import sys

from . import tlc
from .common import EVIDENCE, REPLAYS, SPEC


def run():
    os.makedirs(EVIDENCE, exist_ok=True)
    os.makedirs(REPLAYS, exist_ok=True)
    bad = 0
    for path in sorted(glob.glob(os.path.join(SPEC, "*.tla"))):
        ok, out = tlc.sany(path)
        print("sany %-28s %s" % (os.path.basename(path), "ok" if ok else "FAILED"))
        if not ok:
            bad += 1
            print(out[-2000:])
    try:
        import graphtage  # noqa: F401
    except Exception as ex:  # pragma: no cover
        print("cannot import graphtage: %r" % ex)
        bad += 1
    if bad == 0:
        # binding self-test: every trace specification accepts an unmodified recording and rejects corrupted ones
        from . import selftest
        try:
            selftest.run()
        except Exception as ex:
            print("binding self-test FAILED: %s" % ex)
            bad += 1
    return 0 if bad == 0 else 2
