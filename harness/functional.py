"""Validation of observation groups against spec/Functional.tla (write-once map k -> v)."""
from . import tlc

CONSTS = {"Keys": {"x"}, "Vals": {"x"}, "MaxObs": 0, "F": "<- DummyF"}


def validate_groups(groups, name="Functional"):
    """groups: list of lists of observations {"k": str, "v": str, "raised": bool, ...}.
    Returns (verdicts: list of {v, step, clause}, stats)."""
    traces = [{"ev": [{"k": str(o["k"]), "v": str(o["v"]), "raised": bool(o.get("raised", False))} for o in g]}
              for g in groups]
    if not traces:
        return [], {"generated": 0, "distinct": 0, "runs": 0, "wall": 0.0}
    verdicts, st = tlc.validate_traces("FunctionalTrace", traces, constants=CONSTS, name=name, chunk=5000)
    return [verdicts[i] for i in range(1, len(traces) + 1)], st


def model_check(chk):
    cfg = ("SPECIFICATION Spec\nCONSTANTS Keys <- MCKeys Vals <- MCVals MaxObs = 6 F <- MCF\nINVARIANT Consistent\n"
           "PROPERTY WriteOnce\nCHECK_DEADLOCK FALSE\n")
    res = tlc.run_tlc("FunctionalMC", cfg, workers=4, timeout=300, name="Functional-mc")
    chk.model_violation_must_hold(res, "FunctionalMC", "Consistent, WriteOnce")
    chk.add_tlc(res, "Functional", "design: observations of a deterministic function in any order are consistent; the map is write-once")
